"""C12 — names resolve to the one lexically visible definition, or the module is rejected.

Tie: correspondence.  For every module set
  * the real front end is run up to (not including) `resolve_symbols`; the IR it hands to the
    resolver is walked (definitions in the order of the `_construct_symbol_tables` passes,
    references with their lexical context in `traverse_ir` order) and fed to the Lean model
    (`model_c12`, op RESOLVE);
  * the real `resolve_symbols` / `resolve_field_references` run on copies of the same IR; every
    `Reference.canonical_name`, or the error list (kind, name, location, notes), is compared
    with the model's answer;
  * an independent spec oracle (`Oracle`, written from doc/language-reference.md on the
    *generator's* abstract scope tree, never looking at the IR) says what each reference the
    generator wrote must bind to (or that the module must be rejected), and that is compared
    with the real result — also when model and code agree;
  * canonical names of all definitions must be unique and `ir_util.find_object` must lead back
    to the definition (checked directly on real IRs, incl. /repo/testdata/*.emb);
  * (round 3) `module_ir`'s naming and placing of inline / anonymous types: every file is parsed
    once more on its own, the *parse tree* is transcribed into the "as written" tree of the Lean
    model (op HOIST: type definitions, inline fields, anonymous bits, plain fields / values) and
    the model's list of types and fields (scope ++ [name], IR order) and the value of the
    anonymous-name counter afterwards are compared with the IR `module_ir.build_ir` produced;
    an independent closed form (`placed`, from the spec: inline types live in the nearest type
    written as a definition and open no scope) is evaluated on the same tree.
"""
import glob
import json
import os
import re
import signal
import traceback

from harness.lib import common, emb  # noqa: F401  (emb puts REPO on sys.path)

from compiler.front_end import glue, module_ir, symbol_resolver
from compiler.util import name_conversion
from compiler.util import ir_data, ir_data_utils, ir_util, test_util, traverse_ir, error as emb_error

PROP = "C12"
STAGE_SYMBOLS = "find_dependency_cycles"   # right after resolve_symbols
STAGE_FIELDS = "annotate_types"            # right after resolve_field_references


# ===================================================================== real side
class _Alarm(BaseException):
    """raised inside the real code when it has used up its CPU-time allowance"""


class HangError(Exception):
    """The real code did not come to an answer: `site` = innermost front-end frame."""
    def __init__(self, site, seconds):
        Exception.__init__(self, "no answer after %.0f s of CPU time; looping in %s" % (seconds, site))
        self.site = site


# CPU seconds (ITIMER_VIRTUAL: independent of the load of the machine); the front end needs
# well under a second for the module sets used here
CPU_LIMIT = float(os.environ.get("VERIF_C12_CPU_LIMIT", "3"))


def _on_alarm(_signum, _frame):
    raise _Alarm()


def _limited_once(fn, seconds):
    old = signal.signal(signal.SIGVTALRM, _on_alarm)
    signal.setitimer(signal.ITIMER_VIRTUAL, seconds)
    try:
        return fn()
    except _Alarm as a:
        site = "?"
        for fr in traceback.extract_tb(a.__traceback__):
            if os.sep + os.path.join("compiler", "front_end") + os.sep in fr.filename:
                site = "%s:%s" % (os.path.basename(fr.filename), fr.name)
        raise HangError(site, seconds) from None
    finally:
        signal.setitimer(signal.ITIMER_VIRTUAL, 0)
        signal.signal(signal.SIGVTALRM, old)


def limited(make_fn):
    """`make_fn()` returns the call to make (on fresh copies of its inputs); it is made under the
    CPU-time limit.  If the limit is exceeded the call is repeated once with twice the
    allowance and the cyclic garbage collector switched off (with some GB of retained IRs a few
    full collections can eat seconds of CPU time inside one call); only if that does not come
    back either the outcome is a HangError."""
    try:
        return _limited_once(make_fn(), CPU_LIMIT)
    except HangError:
        pass
    import gc
    was = gc.isenabled()
    gc.collect()
    gc.disable()
    try:
        return _limited_once(make_fn(), 2 * CPU_LIMIT)
    finally:
        if was:
            gc.enable()


def compile_all(files):
    """The whole front end, under the CPU-time limit."""
    try:
        return limited(lambda: (lambda: emb.compile_text(files)))
    except HangError as h:
        return None, [], h


def parse_files(files, main="m.emb"):
    try:
        ir, _dbg, errors = glue.only_parse_emboss_file(main, test_util.dict_file_reader(files))
        return ir, errors, None
    except Exception as e:  # noqa: BLE001
        return None, [], e


def run_to(ir0, stop):
    """process_ir on a deep copy.  Returns (ir or None, errors, exception or None)."""
    try:
        def make():
            ir = ir_data_utils.copy(ir0)
            return lambda: glue.process_ir(ir, stop)
        ir, errors = limited(make)
        return ir, errors, None
    except Exception as e:  # noqa: BLE001
        return None, [], e


def _a_module(m):
    return {"c12_mod": m.source_file_name, "c12_types": (), "c12_attr": None}


def _a_type(t, c12_types):
    return {"c12_types": c12_types + (t.name.name.text,)}


def _a_attr(a, field):
    if field is None:
        return None
    return {"c12_attr": field.name.name.text}


def _collect(node, c12_mod, c12_types, c12_attr, out):
    out.append((node, c12_mod, c12_types, c12_attr))


def walk_refs(ir):
    """(plain references, field references) in the order and with the context the resolver
    sees them."""
    acts = {ir_data.Module: _a_module, ir_data.TypeDefinition: _a_type, ir_data.Attribute: _a_attr}
    refs, frefs = [], []
    traverse_ir.fast_traverse_ir_top_down(
        ir, [ir_data.Reference], _collect, skip_descendants_of=(ir_data.FieldReference,),
        incidental_actions=acts, parameters={"out": refs, "field": None, "c12_types": (), "c12_attr": None})
    traverse_ir.fast_traverse_ir_top_down(
        ir, [ir_data.FieldReference], _collect,
        incidental_actions=acts, parameters={"out": frefs, "field": None, "c12_types": (), "c12_attr": None})
    return refs, frefs


class Locs:
    def __init__(self):
        self.tab = [("", "", True)]

    def add(self, file, loc):
        syn = bool(loc.is_synthetic) if loc is not None else True
        self.tab.append((file, str(loc) if loc is not None else "", syn))
        return len(self.tab) - 1


def extract(ir):
    """Model input from the IR the resolver is about to see."""
    L = Locs()
    modules, types, values, fields, params, imports = [], [], [], [], [], []
    anon = {}
    refs_raw, frefs_raw = walk_refs(ir)
    plain = [(r, m, t, a) for (r, m, t, a) in refs_raw if not r.has_field("canonical_name")]
    ref_index = {id(r): i for i, (r, _m, _t, _a) in enumerate(plain)}
    fref_index = {id(r): i for i, (r, _m, _t, _a) in enumerate(frefs_raw)}

    def shape_of(f):
        if f.has_field("location"):
            if f.type.which_type == "array_type":
                return ["array"]
            if f.type.which_type == "atomic_type":
                return ["atomic", ref_index[id(f.type.atomic_type.reference)]]
            return ["vother"]
        if f.read_transform.which_expression == "field_reference":
            return ["valias", fref_index[id(f.read_transform.field_reference)]]
        return ["vother"]

    def items(kind):
        """definitions of one kind in the order the corresponding pass visits them"""
        acts = {ir_data.Module: _a_module, ir_data.TypeDefinition: _a_type}
        got = []
        traverse_ir.fast_traverse_ir_top_down(
            ir, [kind], _collect, incidental_actions=acts,
            parameters={"out": got, "c12_types": (), "c12_attr": None, "c12_mod": None})
        return got

    for (v, file, tp, _a) in items(ir_data.EnumValue):
        values.append({"scope": [file] + list(tp), "name": v.name.name.text,
                       "loc": L.add(file, v.name.name.source_location)})
    for (f, file, tp, _a) in items(ir_data.Field):
        ab = None
        if f.has_field("abbreviation"):
            ab = [f.abbreviation.text, L.add(file, f.abbreviation.source_location)]
        fields.append({"scope": [file] + list(tp), "name": f.name.name.text,
                       "loc": L.add(file, f.name.name.source_location), "abbr": ab,
                       "thisLoc": L.add(file, None), "shape": shape_of(f)})
    for (p, file, tp, _a) in items(ir_data.RuntimeParameter):
        params.append({"scope": [file] + list(tp), "name": p.name.name.text,
                       "loc": L.add(file, p.name.name.source_location)})

    def walk_types(tlist, scope, file):
        seen = {}
        for t in tlist:
            nm = t.name.name.text
            seen[nm] = seen.get(nm, 0) + 1
            types.append({"scope": scope, "name": nm, "loc": L.add(file, t.name.name.source_location)})
            # children of a duplicate go to a detached _Scope
            child = scope + [nm if seen[nm] == 1 else "%s#%d" % (nm, seen[nm])]
            walk_types(t.subtype or [], child, file)

    for m in ir.module:
        f = m.source_file_name
        modules.append(f)
        anon[f] = [i.file_name.text for i in m.foreign_import if not i.local_name.text]
        for i in m.foreign_import:
            imports.append({"module": f, "file": i.file_name.text, "alias": i.local_name.text,
                            "loc": L.add(f, i.local_name.source_location)})
    for m in ir.module:
        walk_types(m.type, [m.source_file_name], m.source_file_name)

    def ctx(m, t, a):
        return {"module": m, "types": list(t), "attr": a, "anon": anon.get(m, [])}

    jrefs = []
    for (r, m, t, a) in plain:
        jrefs.append({"ctx": ctx(m, t, a),
                      "names": [[w.text, L.add(m, w.source_location)] for w in r.source_name],
                      "loc": L.add(m, r.source_location), "local": bool(r.is_local_name)})
    jfrefs = []
    for (fr, m, t, a) in frefs_raw:
        jfrefs.append({"ctx": ctx(m, t, a),
                       "path": [[p.source_name[0].text, L.add(m, p.source_name[0].source_location),
                                 L.add(m, p.source_location)] for p in fr.path]})
    desc = {"modules": modules, "types": types, "values": values, "fields": fields,
            "params": params, "imports": imports, "refs": jrefs, "frefs": jfrefs}
    return desc, L, refs_raw, frefs_raw


def canon_of(ref):
    if not ref.has_field("canonical_name"):
        return None
    return [ref.canonical_name.module_file] + list(ref.canonical_name.object_path)


_MSG = [("dup", re.compile(r"^Duplicate name '(.*)'$")),
        ("miss", re.compile(r"^No candidate for '(.*)'$")),
        ("amb", re.compile(r"^Ambiguous name '(.*)'$")),
        ("array", re.compile(r"^Cannot access member of array '(.*)'$")),
        ("noncomp", re.compile(r"^Cannot access member of noncomposite field '(.*)'$")),
        ("modfield", re.compile(r"^Cannot use imported module '(.*)' as a field$"))]


def real_errors(errors):
    """[(kind, name, file, loc, sorted notes)] for every error group; kind 'other:<msg>' for
    messages that are not the resolver's."""
    out = []
    for g in errors:
        head = g[0]
        first = head.message.split("\n")[0]
        kind, name = "other:" + first, ""
        for k, rx in _MSG:
            mm = rx.match(first)
            if mm:
                kind, name = k, mm.group(1)
                break
        notes = sorted((n.source_file, str(n.location)) for n in g[1:])
        out.append((kind, name, head.source_file, str(head.location), tuple(notes)))
    return out


def _note_loc(kind, loc):
    """`ambiguous_name_error` reports the candidates with plain (non-synthetic) locations."""
    return loc[:-1] if kind == "amb" and loc.endswith("*") else loc


def model_errors_all(jerrs, L):
    """All model errors in order (the flat model's extra `Duplicate name 'this'` excluded)."""
    out = []
    for e in jerrs:
        if e[0] == "dup" and e[1] == "this":
            continue
        f, s, _syn = L.tab[e[2]]
        out.append((e[0], e[1], f, s, tuple(sorted((L.tab[i][0], _note_loc(e[0], L.tab[i][1])) for i in e[3:]))))
    return out


def model_errors(jerrs, L):
    """Model error list → (visible, hidden) in the real_errors form."""
    vis, hid = [], []
    for e in jerrs:
        kind, name, loc = e[0], e[1], e[2]
        f, s, syn = L.tab[loc]
        notes = [L.tab[i] for i in e[3:]]
        rec = (kind, name, f, s, tuple(sorted((n[0], _note_loc(kind, n[1])) for n in notes)))
        # (the candidates of an ambiguity are reported with plain locations since
        # fixes/C12-hidden-ambiguity-in-anonymous-bits.patch: only the reference itself decides)
        (hid if (syn or (kind != "amb" and any(n[2] for n in notes))) else vis).append(rec)
    return vis, hid


class RealResult:
    pass


def observe(files, main="m.emb"):
    """Run the real code.  Returns a dict with everything the comparisons need."""
    o = {"files": files}
    ir0, perr, exc = parse_files(files, main)
    if exc is not None:
        o["stage"] = "parse-exception"
        o["exc"] = exc
        return o
    if perr:
        o["stage"] = "parse-error"
        o["errors"] = emb.error_summary(perr)
        return o
    pre, e, exc = run_to(ir0, "resolve_symbols")
    if exc is not None or pre is None:
        o["stage"] = "desugar-" + ("exception" if exc is not None else "error")
        o["exc"] = exc
        o["errors"] = emb.error_summary(e)
        return o
    o["pre"] = pre
    desc, L, refs_raw, frefs_raw = extract(pre)
    o["desc"], o["L"] = desc, L
    # hypothesis `Ctx.WellFormed` of the Lean theorems (C12_visible_nodup): the anonymous imports
    # of the module a reference stands in are distinct files other than the module itself
    o["ctx_total"] = len(desc["refs"]) + len(desc["frefs"])
    o["ctx_not_wellformed"] = sum(
        1 for r in desc["refs"] + desc["frefs"]
        if r["ctx"]["module"] in r["ctx"]["anon"] or len(set(r["ctx"]["anon"])) != len(r["ctx"]["anon"]))
    o["plain_mask"] = [not r.has_field("canonical_name") for (r, _m, _t, _a) in refs_raw]
    # the resolver's own error list, before glue.process_ir splits off the groups with a
    # synthetic location
    try:
        raw = limited(lambda: (lambda: symbol_resolver.resolve_symbols(ir_data_utils.copy(pre))))
        o["s1_raw"] = real_errors(raw)
        user, hidden = emb_error.split_errors(raw)
        o["hidden_only"] = bool(hidden) and not user
    except Exception:  # noqa: BLE001
        o["s1_raw"] = None
        o["hidden_only"] = False
    s1, e1, x1 = run_to(ir0, STAGE_SYMBOLS)
    o["s1_exc"], o["s1_errors"] = x1, real_errors(e1)
    o["s1_ir"] = s1
    if s1 is not None:
        r1, f1 = walk_refs(s1)
        o["s1_refs"] = [canon_of(r) for (r, _m, _t, _a), keep in zip(r1, o["plain_mask"]) if keep]
        o["s1_heads"] = [canon_of(fr.path[0]) for (fr, _m, _t, _a) in f1]
        o["ref_nodes"] = [(r, m) for (r, m, _t, _a), keep in zip(r1, o["plain_mask"]) if keep]
        s2, e2, x2 = run_to(ir0, STAGE_FIELDS)
        o["s2_exc"], o["s2_errors"], o["s2_ir"] = x2, real_errors(e2), s2
        if s2 is not None:
            _r2, f2 = walk_refs(s2)
            o["s2_paths"] = [[canon_of(p) for p in fr.path] for (fr, _m, _t, _a) in f2]
            o["fref_nodes"] = [(fr, m) for (fr, m, _t, _a) in f2]
    o["stage"] = "resolver"
    return o


def exc_key(exc):
    if isinstance(exc, HangError):
        return "hang:" + exc.site
    tb = traceback.extract_tb(exc.__traceback__)
    fr = tb[-1] if tb else None
    if isinstance(exc, RecursionError) and tb:
        # where the stack limit happens to be hit is accidental: name the function that recurses
        # (the most frequent frame)
        freq = {}
        for f in tb:
            freq[(f.filename, f.name)] = freq.get((f.filename, f.name), 0) + 1
        top = max(freq, key=lambda k: freq[k])
        return "crash:%s:%s:RecursionError" % (os.path.basename(top[0]), top[1])
    return "crash:%s:%s:%s" % (os.path.basename(fr.filename) if fr else "?", fr.name if fr else "?",
                               type(exc).__name__)


def compare_model(o, ans):
    """Differences between the model's answer (parsed JSON) and the real run; [] if none."""
    diffs = []
    L = o["L"]
    if ans == "bad-op" or not isinstance(ans, dict) or "broken" in ans:
        return ["model answered %r" % (ans,)]
    if "crash" in ans:
        if o["s1_exc"] is not None and exc_key(o["s1_exc"]) == "crash:traverse_ir.py:invoke:AssertionError":
            return []
        return ["model: reference outside any type (traversal assertion); real: exc=%r errors=%r" % (
            o["s1_exc"], o["s1_errors"][:2])]
    if "errors" in ans:
        vis, hid = model_errors(ans["errors"], L)
        if o.get("s1_raw") is not None and model_errors_all(ans["errors"], L) != o["s1_raw"]:
            return ["resolve_symbols raw errors (hidden ones included): model %r real %r" % (
                model_errors_all(ans["errors"], L), o["s1_raw"])]
        if not vis:
            return []          # only deferred (synthetic) errors: the pipeline goes on; nothing more to compare
        if o["s1_exc"] is not None:
            return ["model: errors %r; real: exception %r" % (vis, o["s1_exc"])]
        if vis != o["s1_errors"]:
            diffs.append("resolve_symbols errors: model %r real %r" % (vis, o["s1_errors"]))
        return diffs
    # model resolved everything
    if o["s1_exc"] is not None:
        return ["model resolved; real raised %s" % exc_key(o["s1_exc"])]
    if o["s1_errors"]:
        return ["model resolved; real errors %r" % (o["s1_errors"],)]
    if ans["refs"] != o["s1_refs"]:
        for i, (a, b) in enumerate(zip(ans["refs"], o["s1_refs"])):
            if a != b:
                diffs.append("reference #%d %r: model %r real %r" % (i, o["desc"]["refs"][i]["names"], a, b))
    if ans["heads"] != o["s1_heads"]:
        for i, (a, b) in enumerate(zip(ans["heads"], o["s1_heads"])):
            if a != b:
                diffs.append("field reference head #%d: model %r real %r" % (i, a, b))
    if diffs:
        return diffs
    # resolve_field_references
    fr = ans["frefs"]
    if "fuel" in fr:
        # the iteration budget of the alias-following loop: never used up (C12_member_lookup_total)
        return ["model answered `fuel`, which C12_member_lookup_total excludes; real: exc=%r errors=%r" % (
            o["s2_exc"], o.get("s2_errors"))]
    if "recursion" in fr:
        # the model's distinct out-of-nesting-budget answer: a renaming whose own reference passes
        # through itself; the Python recurses until RecursionError
        if o["s2_exc"] is not None and exc_key(o["s2_exc"]) == RECURSION_KEY:
            return []
        return ["model: unbounded recursion of _resolve_field_reference; real: exc=%r errors=%r" % (
            o["s2_exc"], o.get("s2_errors"))]
    m_errs = [e["err"] for e in fr if isinstance(e, dict) and "err" in e]
    m_crash = any(e == "crash" for e in fr)
    if o["s2_exc"] is not None:
        k = exc_key(o["s2_exc"])
        if k.startswith("crash:symbol_resolver.py:_resolve_field_reference:") and m_crash:
            return []
        if not k.startswith("crash:symbol_resolver.py") and k != HANG_KEY:
            return []          # a later/earlier pass (dependency checker) crashed: not the resolver's
        return ["model %s; real raised %s" % ("crash" if m_crash else "no crash", k)]
    if any(e[0].startswith("other:") for e in o["s2_errors"]):
        return []              # dependency cycle etc.: the resolver's field pass did not run
    if m_crash:
        return ["model: crash in member lookup; real: %r" % (o["s2_errors"],)]
    vis, _hid = model_errors(m_errs, L)
    if vis or o["s2_errors"]:
        if vis != o["s2_errors"]:
            diffs.append("resolve_field_references errors: model %r real %r" % (vis, o["s2_errors"]))
        return diffs
    if m_errs:
        return []              # only hidden errors
    for i, (e, real) in enumerate(zip(fr, o.get("s2_paths", []))):
        got = e.get("ok") if isinstance(e, dict) else None
        if got != real:
            diffs.append("field reference #%d: model %r real %r" % (i, e, real))
    return diffs


# ------------------------------------------------- module_ir: inline / anonymous types (op HOIST)
_BODIES = ("struct-body", "bits-body", "enum-body", "external-body", "anonymous-bits-body")
_FIELDISH = {"field": "plain", "virtual-field": "plain", "enum-value": "plain",
             "inline-enum-field-definition": "inline", "inline-struct-field-definition": "inline",
             "inline-bits-field-definition": "inline", "anonymous-bits-field-definition": "anon"}
_NAME_CHILD = ("type-name", "snake-name", "constant-name")


def _pt_children(n):
    return getattr(n, "children", None) or []


def _pt_name(node):
    """Text of the name a construct defines: the token under its direct `*-name` child."""
    for ch in _pt_children(node):
        if getattr(ch, "symbol", None) in _NAME_CHILD:
            while _pt_children(ch):
                ch = _pt_children(ch)[0]
            return ch.text
    return ""


def _pt_collect(node, subs, fields):
    """Type definitions and field-like constructs written directly in a body (in source order)."""
    for ch in _pt_children(node):
        sym = getattr(ch, "symbol", None)
        if sym == "type-definition":
            subs.append(_pt_typedef(ch))
        elif sym in _FIELDISH:
            fields.append(_pt_field(ch, _FIELDISH[sym]))
        else:
            _pt_collect(ch, subs, fields)


def _pt_body_of(node):
    for ch in _pt_children(node):
        if getattr(ch, "symbol", None) in _BODIES:
            return ch
    return None


def _pt_typedef(node):
    inner = _pt_children(node)[0]          # struct | bits | enum | external
    subs, fields = [], []
    body = _pt_body_of(inner)
    if body is not None:
        _pt_collect(body, subs, fields)
    return ["type", _pt_name(inner), subs, fields]


def _pt_field(node, tag):
    subs, fields = [], []
    if tag != "plain":
        body = _pt_body_of(node)
        if body is not None:
            _pt_collect(body, subs, fields)
    return [tag, _pt_name(node) if tag != "anon" else "", subs, fields]


def syntax_of(parse_tree):
    """The type definitions of a file as written (model input of op HOIST)."""
    subs, fields = [], []
    _pt_collect(parse_tree, subs, fields)
    return subs


def number_written(nodes, counter, nums):
    """`_get_anonymous_field_name` in the order `transform_parse_tree` calls the handlers:
    siblings from the last to the first, a construct after everything written in it."""
    for n in reversed(nodes):
        number_written(n[3], counter, nums)     # fields come after the type definitions in the text
        number_written(n[2], counter, nums)
        if n[0] == "anon":
            counter[0] += 1
            nums[id(n)] = counter[0]


def _w_fname(n, nums):
    return "emboss_reserved_anonymous_field_%d" % nums[id(n)] if n[0] == "anon" else n[1]


def _w_tname(n, nums):
    return n[1] if n[0] == "type" else name_conversion.snake_to_camel(_w_fname(n, nums))


def placed_types(host, n, nums):
    """Closed form from the spec (independent of the Lean model): a definition lives where it is
    written and opens a scope; an inline / anonymous type lives in the scope its field is written
    in and opens none."""
    if n[0] == "plain":
        return []
    me = host + [_w_tname(n, nums)]
    inner = me if n[0] == "type" else host
    out = [me]
    for ch in n[2] + n[3]:
        out += placed_types(inner, ch, nums)
    return out


def placed_fields(host, n, nums):
    if n[0] == "plain":
        return []
    me = host + [_w_tname(n, nums)]
    inner = me if n[0] == "type" else host
    out = [me + [_w_fname(f, nums)] for f in n[3]]
    for ch in n[2] + n[3]:
        out += placed_fields(inner, ch, nums)
    return out


def real_hoist(ir):
    types, fields = [], []

    def walk(t, scope):
        nm = t.name.name.text
        types.append(scope + [nm])
        if t.has_field("structure"):
            for f in t.structure.field:
                fields.append(scope + [nm, f.name.name.text])
        elif t.has_field("enumeration"):
            for v in t.enumeration.value:
                fields.append(scope + [nm, v.name.name.text])
        for st in t.subtype:
            walk(st, scope + [nm])
    for t in ir.type:
        walk(t, [ir.source_file_name])
    return types, fields


def check_hoist(chk, files, model_ok, queue):
    """Parse every file on its own (cache bypassed), compare module_ir's IR with the closed
    form; queue the model question."""
    for name in sorted(files):
        text = files[name]
        glue._cached_modules.pop((text, name), None)
        c0 = module_ir._anonymous_name_counter
        try:
            res = glue.parse_module_text(text, name)
        except Exception:  # noqa: BLE001
            continue
        if res.ir is None or res.debug_info.parse_tree is None:
            continue
        c1 = module_ir._anonymous_name_counter
        tree = syntax_of(res.debug_info.parse_tree)
        rt, rf = real_hoist(res.ir)
        chk.extra["hoist_files"] = chk.extra.get("hoist_files", 0) + 1
        def count(nodes, tag):
            return sum((1 if n[0] == tag else 0) + count(n[2], tag) + count(n[3], tag) for n in nodes)
        for tag in ("type", "inline", "anon"):
            k = "hoist_written_" + tag
            chk.extra[k] = chk.extra.get(k, 0) + count(tree, tag)
        # spec closed form
        cnt, nums = [c0], {}
        number_written(tree, cnt, nums)
        st = [t for node in tree for t in placed_types([name], node, nums)]
        sf = [f for node in tree for f in placed_fields([name], node, nums)]
        if (st, sf, cnt[0]) != (rt, rf, c1):
            chk.violation("input", {"input": {name: text},
                                    "observed": "module_ir: types %r fields %r counter %r" % (rt, rf[:20], c1),
                                    "expected": "types %r fields %r counter %r (inline types live in the nearest "
                                                "type written as a definition; anonymous bits are numbered from "
                                                "the last to the first)" % (st, sf[:20], cnt[0])})
        if model_ok:
            queue.append((name, text, json.dumps({"module": name, "counter": c0, "types": tree},
                                                 separators=(",", ":")), rt, rf, c1))


def flush_hoist(chk, queue):
    if not queue:
        return
    answers = common.Model("model_c12").ask(["HOIST " + q[2] for q in queue])
    for (name, text, _line, rt, rf, c1), a in zip(queue, answers):
        try:
            ans = json.loads(a)
        except ValueError:
            ans = None
        ok = isinstance(ans, dict) and ans.get("types") == rt and ans.get("fields") == rf \
            and ans.get("counter") == c1
        if not ok:
            chk.violation("correspondence", {"input": {name: text}, "model": a[:2000],
                                             "observed": "module_ir: types %r fields %r counter %r" % (rt, rf[:20], c1),
                                             "theorem_or_correspondence": "model_c12 HOIST vs module_ir.build_ir"},
                          found_input=False)
    chk.extra["hoist_traces_validated"] = chk.extra.get("hoist_traces_validated", 0) + len(queue)
    del queue[:]


# ------------------------------------------------- canonical names / find_object on real IRs
def check_canonical(ir):
    """Every definition of a resolved IR: canonical name unique, find_object leads back.
    Returns list of problems."""
    problems = []
    seen = {}

    def reg(obj, what):
        nm = obj.name
        if not nm.has_field("canonical_name"):
            problems.append("%s without canonical name: %s" % (what, nm.name.text))
            return
        key = (nm.canonical_name.module_file,) + tuple(nm.canonical_name.object_path)
        if key in seen:
            problems.append("canonical name %r shared by two definitions (%s, %s)" % (key, seen[key], what))
        seen[key] = what
        try:
            back = ir_util.find_object_or_none(nm.canonical_name, ir)
        except Exception as e:  # noqa: BLE001
            back = e
        if back is not obj:
            problems.append("find_object(%r) does not return the definition (%s): %r" % (key, what, type(back)))

    def types(tl):
        for t in tl:
            reg(t, "type")
            for p in (t.runtime_parameter or []):
                reg(p, "parameter")
            if t.has_field("structure"):
                for f in t.structure.field:
                    reg(f, "field")
            if t.has_field("enumeration"):
                for v in t.enumeration.value:
                    reg(v, "enum value")
            types(t.subtype or [])
    for m in ir.module:
        types(m.type)
    return problems, len(seen)


def check_targets(o):
    """Every resolved reference of the real IR names an existing definition (find_object)."""
    problems = []
    ir = o.get("s2_ir") or o.get("s1_ir")
    if ir is None:
        return problems
    for (r, _m) in o.get("ref_nodes", []):
        if r.has_field("canonical_name") and ir_util.find_object_or_none(r, ir) is None:
            problems.append("reference %r resolved to %r which find_object cannot find" % (
                [w.text for w in r.source_name], canon_of(r)))
    return problems


# ===================================================================== generator + spec oracle
TYPE_POOL = ["Foo", "Bar", "Baz", "Qux", "Abc", "Xyz", "Ee", "Aa", "Msg", "Hdr"]
FIELD_POOL = ["aa", "bb", "cc", "dd", "ee", "ff", "foo", "bar", "baz", "qux"]
VALUE_POOL = ["AA", "BB", "CC", "FOO", "BAR"]
PRELUDE_TYPES = ["UInt", "Int", "Flag", "Bcd", "Float"]


def camel(s):
    return "".join(p.capitalize() for p in s.split("_"))


def snake(s):
    """CamelCase -> snake_case such that camel(snake(s)) == s (`UInt` -> `u_int`)."""
    out = ""
    for i, ch in enumerate(s):
        if ch.isupper() and i:
            out += "_"
        out += ch.lower()
    return out


class TNode:
    """A type definition of the abstract program."""
    def __init__(self, name, kind, parent, file, inline=False, anon=None):
        self.name, self.kind, self.parent, self.file = name, kind, parent, file
        self.inline = inline        # written inline in a field (hoisted by the compiler)
        self.anon = anon            # k-th anonymous bits of the file, or None
        self.subtypes, self.fields, self.values, self.params = [], [], [], []
        self.line = None
        self.col = None

    def scope_owner(self):
        """The type in whose scope this type's name lives: inline types are hoisted out of
        inline/anonymous types into the nearest type that was written as a definition."""
        p = self.parent
        while isinstance(p, TNode) and p.inline:
            p = p.parent
        return p

    def path(self):
        o = self.scope_owner()
        nm = self.name if self.anon is None else "EmbossReservedAnonymousField#%d" % self.anon
        return (o.path() if isinstance(o, TNode) else [self.file]) + [nm]


class FNode:
    def __init__(self, name, owner, kind, ftype=None, abbr=None, array=False, alias=None):
        self.name, self.owner, self.kind = name, owner, kind   # kind: phys | virt | param | anonfield
        self.ftype, self.abbr, self.array, self.alias = ftype, abbr, array, alias
        self.alias_names = None     # virtual field written as `let v = a.b.c`
        self.type_names = None      # the dotted type name written for the field
        self.size_names = None      # a dotted name written as the field's size (`[+Foo.AA]`)
        self.line = None
        self.col = None
        self.abbr_col = None

    def path(self):
        return self.owner.path() + [self.name]


class VNode:
    def __init__(self, name, owner):
        self.name, self.owner = name, owner

    def path(self):
        return self.owner.path() + [self.name]


class ModNode:
    def __init__(self, file):
        self.file = file
        self.types = []
        self.imports = []   # (alias, ModNode, line, col)

    def path(self):
        return [self.file]


class Oracle:
    """Spec from doc/language-reference.md, on the abstract program.

    A name used in a type T is looked up in T itself, the types T is nested in, the module
    and the prelude; field names, abbreviations, parameters and enum values count only in the
    scope where the reference is written (a field attribute sees only `this`); type names and
    import aliases count in every enclosing scope.  Exactly one scope may offer the name.
    After a dot, the name is a member of what has been found so far (nested type, enum
    value, type of an imported module; for field paths: field or parameter of the field's
    type, through virtual aliases).  Abbreviations exist only inside their structure."""

    def __init__(self, mods, prelude_types):
        self.mods = {m.file: m for m in mods}
        self.prelude = prelude_types

    # scope tables ---------------------------------------------------------------------
    def table(self, scope):
        """name -> list of (kind, node).  kind: type|alias|field|abbr|param|value|this"""
        t = {}

        def add(n, k, d):
            t.setdefault(n, []).append((k, d))
        if scope == "prelude":
            for n in self.prelude:
                add(n, "type", ("prelude", n))
            return t
        if isinstance(scope, ModNode):
            for ty in self.all_types(scope.file):
                if ty.scope_owner() is scope:
                    add(ty.name if ty.anon is None else ty.path()[-1], "type", ty)
            for (alias, target, _l, _c) in scope.imports:
                add(alias, "alias", target)
            return t
        if isinstance(scope, FNode):
            add("this", "this", scope)
            return t
        for ty in self.all_types(scope.file):
            if ty.scope_owner() is scope:
                add(ty.name if ty.anon is None else ty.path()[-1], "type", ty)
        for f in self.fields_of(scope):
            add(f.name, "field", f)
            if f.abbr:
                add(f.abbr, "abbr", f)
        for p in scope.params:
            add(p.name, "param", p)
        for v in scope.values:
            add(v.name, "value", v)
        return t

    def all_types(self, file):
        out = []

        def rec(tl):
            for t in tl:
                out.append(t)
                rec(t.subtypes)
        rec(self.mods[file].types)
        return out

    def fields_of(self, ty):
        """Fields in the type's scope: its own, plus (for anonymous bits) aliases of the
        anonymous bits' fields, plus the built-in $size fields."""
        out = []
        for f in ty.fields:
            out.append(f)
            if f.kind == "anonfield":
                for g in f.ftype.fields:
                    a = FNode(g.name, ty, "virt", abbr=g.abbr, alias=[f, g])
                    out.append(a)
        if ty.kind in ("struct", "bits"):
            unit = "bytes" if ty.kind == "struct" else "bits"
            for n in ("$size_in_", "$max_size_in_", "$min_size_in_"):
                out.append(FNode(n + unit, ty, "virt"))
        return out

    def duplicates(self):
        """[(file, name)] of names defined twice in one scope."""
        d = []
        for m in self.mods.values():
            scopes = [m] + self.all_types(m.file)
            for s in scopes:
                for n, defs in self.table(s).items():
                    if len(defs) > 1:
                        d.append((m.file, n))
        return d

    # lookup ---------------------------------------------------------------------------
    def chain(self, ty, attr_field=None):
        c = [attr_field] if attr_field is not None else []
        s = ty
        while isinstance(s, TNode):
            c.append(s)
            s = s.scope_owner() if False else s.lexical_parent()
        c.append(s)          # module
        c.append("prelude")
        return c

    def head(self, ty, name, attr_field=None):
        """('ok', kind, node) | ('missing',) | ('ambiguous',)"""
        chain = self.chain(ty, attr_field)
        hits = []
        for i, s in enumerate(chain):
            for (k, d) in self.table(s).get(name, []):
                if k in ("type", "alias") or i == 0:
                    hits.append((k, d))
        if not hits:
            return ("missing",)
        if len(hits) > 1:
            return ("ambiguous",)
        return ("ok",) + hits[0]

    def member_of_scope(self, kind, node, name):
        """Static member after a dot (type / module qualified names)."""
        if kind == "alias":
            tab = self.table(node)
            defs = [(k, d) for (k, d) in tab.get(name, []) if k == "type"]
        elif kind == "type" and isinstance(node, TNode):
            defs = [(k, d) for (k, d) in self.table(node).get(name, []) if k != "abbr"]
            if any(k == "abbr" for (k, _d) in self.table(node).get(name, [])) and not defs:
                return ("abbr-outside",) + [(k, d) for (k, d) in self.table(node).get(name, [])][0]
        else:
            defs = []
        if len(defs) == 1:
            return ("ok",) + defs[0]
        return ("missing",)

    def canon(self, kind, node):
        if kind == "type" and isinstance(node, tuple):
            return ["", node[1]]
        if kind == "alias":
            return [node.file]
        return node.path()

    def resolve_name(self, ty, names, attr_field=None):
        """Expected binding of a dotted name.  ('ok', canon) | ('missing', i) | ('ambiguous',)
        | ('abbr-outside', canon)."""
        h = self.head(ty, names[0], attr_field)
        if h[0] != "ok":
            return h if h[0] == "ambiguous" else ("missing", 0)
        kind, node = h[1], h[2]
        via_abbr = False
        for i, n in enumerate(names[1:], 1):
            m = self.member_of_scope(kind, node, n)
            if m[0] == "abbr-outside":
                via_abbr = True
                m = ("ok", "field", m[2])
            if m[0] != "ok":
                return ("missing", i)
            kind, node = m[1], m[2]
        return ("abbr-outside" if via_abbr else "ok", self.canon(kind, node))

    def node_of_name(self, ty, names):
        h = self.head(ty, names[0])
        if h[0] != "ok":
            return None
        kind, node = h[1], h[2]
        for n in names[1:]:
            m = self.member_of_scope(kind, node, n)
            if m[0] != "ok":
                return None
            kind, node = m[1], m[2]
        return node if kind == "type" else None

    def final_field(self, f, depth=0):
        """Follow virtual aliases to the field that carries the type.  None = not composite."""
        if depth > 30 or not isinstance(f, FNode):
            return None
        if f.kind in ("phys", "anonfield"):
            return f
        if f.kind == "virt" and f.alias:
            return self.final_field(f.alias[-1], depth + 1)
        if f.kind == "virt" and f.alias_names:
            res = self.resolve_path(f.owner, f.alias_names, None, depth + 1)
            if res[0] == "ok":
                return self.final_field(res[2][-1], depth + 1)
        return None

    def resolve_path(self, ty, names, attr_field=None, depth=0):
        """Field path a.b.c → ('ok', [canon…], [node…]) | (problem, index of the offending element)."""
        h = self.head(ty, names[0], attr_field)
        if h[0] != "ok":
            return (h[0], 0)
        kind, node = h[1], h[2]
        if kind == "alias":
            return ("module-as-field", 0)          # an import alias stands for a module, never for a field
        canons = [self.canon(kind, node)]
        nodes = [node]
        for i, n in enumerate(names[1:], 1):
            if kind not in ("field", "abbr", "this"):
                return ("not-a-field", i - 1)      # parameter / import alias used as a structure
            f = self.final_field(node, depth)
            if f is None or f.array:
                return ("error", i - 1)
            if not isinstance(f.ftype, TNode) or f.ftype.kind == "enum":
                return ("error", i)
            t = f.ftype
            defs = [(k, d) for (k, d) in self.table(t).get(n, []) if k in ("field", "param")]
            if len(defs) != 1:
                return ("error", i)
            kind, node = defs[0]
            canons.append(node.path())
            nodes.append(node)
        return ("ok", canons, nodes)


def _lexical_parent(self):
    return self.scope_owner()


TNode.lexical_parent = _lexical_parent


class Emit:
    """Source text with recorded positions of the names the generator writes."""
    def __init__(self, file):
        self.file = file
        self.lines = []
        self.cur = ""
        self.marks = []     # (line, col, payload)

    def w(self, s):
        self.cur += s
        return self

    def mark(self, s, payload):
        self.marks.append((len(self.lines) + 1, len(self.cur) + 1, payload))
        self.cur += s
        return self

    def nl(self):
        self.lines.append(self.cur)
        self.cur = ""

    def text(self):
        return "\n".join(self.lines) + "\n"


class Gen:
    """Random scope trees.  Everything that is written as a reference is recorded with the
    type it is written in (the lexical context), so that the oracle can say what it must
    bind to."""

    def __init__(self, r, collide=0.12, max_depth=3, bad=0.03):
        self.r = r
        self.collide = collide
        self.bad = bad              # rate of deliberately wrong references
        self.max_depth = max_depth
        self.mods = []
        self.uses = []      # dict(file, line, col, kind: name|path, names, ty, attr)
        self.feat = {}
        self.anon_count = {}
        self.scope_types = {}       # id(scope owner) -> names of the types living there

    def f(self, k):
        self.feat[k] = self.feat.get(k, 0) + 1

    def pick_name(self, pool, used):
        r = self.r
        if used and r.random() < self.collide:
            return r.choice(sorted(used))
        free = [n for n in pool if n not in used]
        return r.choice(free) if free else r.choice(pool)

    # ---- structure ---------------------------------------------------------------------
    def module(self, file, n_types, imports=()):
        m = ModNode(file)
        m.imports = [(a, t, None, None) for (a, t) in imports]
        self.mods.append(m)
        used = set()
        for _ in range(n_types):
            nm = self.pick_name(TYPE_POOL + (["UInt"] if self.r.random() < 0.05 else []), used)
            used.add(nm)
            m.types.append(self.type(nm, m, file, 0, kind="external" if self.r.random() < 0.05 else None))
        return m

    def type(self, name, parent, file, depth, kind=None, inline=False):
        r = self.r
        kind = kind or r.choice(["struct", "struct", "struct", "bits", "enum"])
        t = TNode(name, kind, parent, file, inline=inline)
        self.scope_types.setdefault(id(t.scope_owner()), set()).add(name)
        if kind == "external":
            self.f("external")
            return t
        if kind == "enum":
            used = set()
            for _ in range(r.randint(1, 3)):
                nm = self.pick_name(VALUE_POOL, used)
                used.add(nm)
                t.values.append(VNode(nm, t))
            return t
        used_t = set()
        if depth < self.max_depth and not inline:
            for _ in range(r.choice([0, 0, 1, 1, 2])):
                nm = self.pick_name(TYPE_POOL, used_t)
                # reuse of an *outer* name on purpose: visible from two scopes
                if r.random() < 0.15 and isinstance(parent, (TNode, ModNode)):
                    sibs = [x.name for x in (parent.subtypes if isinstance(parent, TNode) else parent.types)]
                    if sibs:
                        nm = r.choice(sibs)
                used_t.add(nm)
                k = r.choice(["struct", "bits", "enum"]) if kind == "struct" else r.choice(["bits", "enum"])
                t.subtypes.append(self.type(nm, t, file, depth + 1, kind=k))
        used_f = set()
        if r.random() < 0.25 and not inline:
            for _ in range(r.randint(1, 2)):
                nm = self.pick_name(FIELD_POOL, used_f)
                used_f.add(nm)
                t.params.append(FNode(nm, t, "param"))
        for _ in range(r.randint(1, 5)):
            nm = self.pick_name(FIELD_POOL, used_f)
            used_f.add(nm)
            t.fields.append(self.field(nm, t, file, depth, used_f))
        return t

    def field(self, name, owner, file, depth, used_f):
        r = self.r
        x = r.random()
        abbr = None
        if r.random() < 0.25:
            abbr = self.pick_name(["a", "b", "c", "xx", "yy", name[0]], used_f)
            used_f.add(abbr)
        so = owner
        while isinstance(so, TNode) and so.inline:
            so = so.parent
        clash = camel(name) in self.scope_types.get(id(so), set())
        if x < 0.16 and depth < self.max_depth and (not clash or r.random() < self.collide):
            kinds = ["enum", "bits"] + (["struct"] if owner.kind == "struct" else [])
            k = r.choice(kinds)
            it = self.type(camel(name), owner, file, depth + 1, kind=k, inline=True)
            owner.subtypes.append(it)
            self.f("inline_" + k)
            return FNode(name, owner, "phys", ftype=it, abbr=abbr)
        if x < 0.24 and owner.kind == "struct" and depth < self.max_depth:
            # (also inside an inline struct: repaired by fixes/C12-anonymous-bits-in-inline-struct.patch)
            k = self.anon_count.get(file, 0) + 1
            self.anon_count[file] = k
            it = TNode("<anon>", "bits", owner, file, inline=True, anon=k)
            # anonymous bits: few fields, names drawn against the *enclosing* scope too
            for _ in range(r.randint(1, 3)):
                nm = self.pick_name(FIELD_POOL, used_f)
                used_f.add(nm)
                ab = None
                if r.random() < 0.2:
                    ab = self.pick_name(["a", "b", "xx", nm[0]], used_f)
                    used_f.add(ab)
                if r.random() < 0.3 and depth + 1 < self.max_depth and \
                        (camel(nm) not in self.scope_types.get(id(so), set()) or r.random() < self.collide):
                    it2 = self.type(camel(nm), it, file, depth + 2, kind=r.choice(["enum", "bits"]), inline=True)
                    it.subtypes.append(it2)
                    it.fields.append(FNode(nm, it, "phys", ftype=it2, abbr=ab))
                    self.f("inline_in_anon")
                else:
                    it.fields.append(FNode(nm, it, "phys", ftype=None, abbr=ab))
            owner.subtypes.append(it)
            self.f("anon_bits")
            if owner.inline:
                self.f("anon_bits_in_inline_struct")
            return FNode("emboss_reserved_anonymous_field_#%d" % k, owner, "anonfield", ftype=it)
        if x < 0.40:
            self.f("virtual")
            return FNode(name, owner, "virt")
        if x < 0.62:
            return FNode(name, owner, "phys", ftype="ref", abbr=abbr, array=r.random() < 0.15)
        return FNode(name, owner, "phys", ftype=None, abbr=abbr)

    # ---- injected collisions -------------------------------------------------------------
    def clone_shape(self, src, parent, file, inline=False, kind=None):
        """A *different* definition with the name and exactly the member names of `src` (a TNode,
        or ('prelude', name) / an external: no members): same value / field / abbreviation /
        parameter names, in another order and with other layouts."""
        r = self.r
        if isinstance(src, tuple):
            return TNode(src[1], "external", parent, file)
        t = TNode(src.name, kind or src.kind, parent, file, inline=inline)
        if src.kind == "enum":
            names = [v.name for v in src.values]
            r.shuffle(names)
            t.values = [VNode(n, t) for n in names]
            return t
        t.params = [FNode(p.name, t, "param") for p in src.params] if not inline else []
        fs = list(src.fields)
        r.shuffle(fs)
        for f in fs:
            if r.random() < 0.3 and not f.abbr:
                t.fields.append(FNode(f.name, t, "virt"))
            else:
                t.fields.append(FNode(f.name, t, "phys", ftype=None, abbr=f.abbr))
        return t

    @staticmethod
    def clonable(src, inline=False):
        if isinstance(src, tuple):
            return not inline
        if src.kind == "external":
            return not inline
        if src.anon is not None or src.subtypes or any(f.kind == "anonfield" for f in src.fields):
            return False
        if inline and (src.params or (src.kind != "enum" and not src.fields)):
            return False
        return True

    def inject_collision(self):
        """Deliberately makes one type name visible from two scopes and writes a plain reference
        to it (property statement: "incl. injected collisions").  The second definition is
        (a) the type of an inline `enum`/`bits`/`struct` field, the plain reference coming before
        or after that field in the same structure, (b) an explicitly nested type, or (c) a
        module-level type named like a prelude type; in every variant it has either exactly the
        member names of the definition it collides with, or different ones.  Returns a tag."""
        r = self.r
        orc = Oracle(self.mods, PRELUDE_TYPES)
        hosts = [t for t in self.all_types() if t.kind in ("struct", "bits") and not t.inline and t.anon is None]
        if not hosts:
            return None
        for _ in range(8):
            t = r.choice(hosts)
            own = orc.table(t)
            outer = []          # (name, definition) offered by the scopes enclosing t
            for sc in orc.chain(t)[1:]:
                for n, defs in orc.table(sc).items():
                    for (k, d) in defs:
                        if k == "type" and n not in own and not (isinstance(d, TNode) and d.anon is not None):
                            outer.append((n, d))
            variant = r.choice(["inline", "inline", "nested", "prelude"])
            if variant == "prelude":
                outer = [(n, d) for (n, d) in outer if isinstance(d, tuple)]
            if not outer:
                continue
            same = r.random() < 0.5
            if same:
                # prefer a definition whose member names can be repeated in this variant
                kinds_here = ["enum", "bits"] + (["struct"] if t.kind == "struct" else [])
                if variant == "inline":
                    ok = [(n, d) for (n, d) in outer if isinstance(d, TNode) and d.kind in kinds_here
                          and self.clonable(d, inline=True)]
                elif variant == "nested":
                    ok = [(n, d) for (n, d) in outer if isinstance(d, TNode) and d.kind in kinds_here
                          and self.clonable(d)]
                else:
                    ok = outer
                outer = ok or outer
            name, src = r.choice(sorted(outer, key=lambda x: (x[0], isinstance(x[1], tuple))))
            taken = set(own) | set(f.abbr for f in t.fields if f.abbr)
            ref_name = self.pick_name([n for n in FIELD_POOL if n not in taken] or ["zz"], set())
            ref = FNode(ref_name, t, "phys", ftype=None)
            if r.random() < 0.25 and isinstance(src, TNode) and src.kind == "enum" and src.values:
                ref.size_names = [name, r.choice(src.values).name]       # `[+Name.VALUE]`
            else:
                ref.type_names = [name]
            if variant == "inline":
                fname = snake(name)
                if fname in taken or fname == ref_name or camel(fname) != name:
                    continue
                kinds = ["enum", "bits"] + (["struct"] if t.kind == "struct" else [])
                if same and self.clonable(src, inline=True) and src.kind in kinds:
                    it = self.clone_shape(src, t, t.file, inline=True)
                else:
                    same = False
                    it = self.type(name, t, t.file, self.max_depth, kind=r.choice(kinds), inline=True)
                t.subtypes.append(it)
                self.scope_types.setdefault(id(t), set()).add(name)
                new = FNode(fname, t, "phys", ftype=it)
                first = r.random() < 0.5            # the plain reference first?
                pos = r.randint(0, len(t.fields))
                t.fields[pos:pos] = [ref, new] if first else [new, ref]
                tag = "inline_%s_%s" % ("ref_first" if first else "ref_after", "same_shape" if same else "other_shape")
            else:
                host = t
                if variant == "prelude":
                    host = [m for m in self.mods if m.file == t.file][0]
                    if any(x.name == name for x in host.types):
                        continue
                is_ext = isinstance(src, tuple) or src.kind == "external"
                if same and self.clonable(src) and (is_ext or src.kind != "struct" or t.kind == "struct") \
                        and (host is not t or not is_ext):       # externals: module level only
                    nt = self.clone_shape(src, host, t.file)
                else:
                    same = False
                    k = r.choice(["struct", "bits", "enum"]) if (host is not t or t.kind == "struct") else r.choice(["bits", "enum"])
                    nt = self.type(name, host, t.file, self.max_depth, kind=k)
                (host.types if host is not t else t.subtypes).append(nt)
                self.scope_types.setdefault(id(host), set()).add(name)
                t.fields.insert(r.randint(0, len(t.fields)), ref)
                tag = "%s_%s" % (variant, "same_shape" if same else "other_shape")
            self.f("collision_" + tag)
            return tag
        return None

    # ---- references --------------------------------------------------------------------
    def all_types(self):
        out = []

        def rec(tl):
            for t in tl:
                out.append(t)
                rec(t.subtypes)
        for m in self.mods:
            rec(m.types)
        return out

    def assign_field_types(self):
        """Second phase, once every type exists: choose the type name each `ref` field is
        written with, and let the oracle say which type that is (None: not a type)."""
        orc = Oracle(self.mods, PRELUDE_TYPES)
        for t in self.all_types():
            for f in t.fields:
                if f.ftype == "ref":
                    f.type_names = self.type_ref_string(t, want=("struct", "bits", "enum", "external"))
                    res = orc.resolve_name(t, f.type_names)
                    f.ftype = None
                    if res[0] == "ok":
                        node = orc.node_of_name(t, f.type_names)
                        if isinstance(node, TNode):
                            f.ftype = node

    def renumber_anon(self):
        """Anonymous bits are numbered per file in source order."""
        for m in self.mods:
            an = sorted([t for t in self.all_types() if t.file == m.file and t.anon is not None],
                        key=lambda t: t.line)
            for k, t in enumerate(an, 1):
                t.anon = k
                for f in t.parent.fields:
                    if f.ftype is t:
                        f.name = "emboss_reserved_anonymous_field_#%d" % k

    def type_ref_string(self, ctx_ty, want=None):
        """A dotted type name as a user might write it from inside ctx_ty; unless a wrong
        reference is wanted, one that the scoping rules accept (a few attempts)."""
        if self.r.random() < self.bad:
            self.f("tref_unchecked")
            return self.type_ref_string1(ctx_ty, want)
        orc = Oracle(self.mods, PRELUDE_TYPES)
        for _ in range(6):
            names = self.type_ref_string1(ctx_ty, want)
            if orc.resolve_name(ctx_ty, names)[0] == "ok":
                return names
        self.f("tref_gave_up")
        return names

    def type_ref_string1(self, ctx_ty, want=None):
        r = self.r
        here = [m for m in self.mods if m.file == ctx_ty.file][0]
        reach = set([ctx_ty.file] + [tm.file for (_a, tm, _l, _c) in here.imports])
        cands = [t for t in self.all_types() if t.anon is None and (want is None or t.kind in want)
                 and (t.file in reach or r.random() < self.bad)]
        x = r.random()
        if not cands or x < self.bad:
            self.f("tref_random")
            return [r.choice(TYPE_POOL)] + ([r.choice(TYPE_POOL)] if r.random() < 0.3 else [])
        t = r.choice(cands)
        full = t.path()[1:]
        if t.file != ctx_ty.file:
            alias = [a for m in self.mods if m.file == ctx_ty.file for (a, tm, _l, _c) in m.imports if tm.file == t.file]
            if alias and r.random() > self.bad:
                self.f("tref_imported")
                return [alias[0]] + full
            self.f("tref_foreign_unqualified")
            return full[-1:]
        k = r.randint(1, len(full))
        self.f("tref_suffix%d" % min(k, 3))
        return full[-k:]

    def expr(self, e, ctx_ty, earlier, attr_field=None):
        """Writes an integer-ish expression; records the references in it."""
        r = self.r
        x = r.random()
        if x < 0.35 or (not earlier and not ctx_ty.params and r.random() > self.bad):
            e.w(str(r.randint(0, 9)))
            return
        if x < 0.5:
            enums = [t for t in self.all_types() if t.kind == "enum"]
            if enums:
                orc = Oracle(self.mods, PRELUDE_TYPES)
                for _ in range(6):
                    t = r.choice(enums)
                    names = self.qualify(t, ctx_ty) + [r.choice(VALUE_POOL) if r.random() < self.bad else r.choice([v.name for v in t.values])]
                    if r.random() < self.bad or orc.resolve_name(ctx_ty, names, attr_field)[0] == "ok":
                        break
                self.f("enum_value_ref")
                self.use_name(e, names, ctx_ty, attr_field)
                return
        if x < 0.58:
            # static reference Type.field / Type.$size (constant-reference with snake tail)
            chain = []
            c = ctx_ty
            while isinstance(c, TNode):
                chain.append(c)
                c = c.parent
            # (not the enclosing types: a field that depends on its own structure is a cycle)
            ts = [t for t in self.all_types() if t.kind in ("struct", "bits") and t.anon is None
                  and t not in chain]
            if ts:
                orc = Oracle(self.mods, PRELUDE_TYPES)
                for _ in range(6):
                    t = r.choice(ts)
                    tail = r.choice([f.name for f in t.fields if f.kind != "anonfield"] +
                                    ([f.abbr for f in t.fields if f.abbr] if r.random() < 0.3 else []) +
                                    ["$size_in_%s" % ("bytes" if t.kind == "struct" else "bits")])
                    names = self.qualify(t, ctx_ty) + [tail]
                    if r.random() < self.bad or orc.resolve_name(ctx_ty, names, attr_field)[0] in ("ok", "abbr-outside"):
                        break
                self.f("static_member_ref")
                self.use_name(e, names, ctx_ty, attr_field)
                return
        # field path
        names = self.path_string(ctx_ty, earlier)
        self.f("path_len%d" % min(len(names), 4))
        self.use_path(e, names, ctx_ty, attr_field)

    def qualify(self, t, ctx_ty):
        r = self.r
        full = t.path()[1:]
        if t.file != ctx_ty.file:
            alias = [a for m in self.mods if m.file == ctx_ty.file for (a, tm, _l, _c) in m.imports if tm.file == t.file]
            return ([alias[0]] if alias else []) + full
        return full[-r.randint(1, len(full)):]

    def path_string(self, ctx_ty, earlier):
        r = self.r
        orc = Oracle(self.mods, PRELUDE_TYPES)
        scope_fields = [f for f in orc.fields_of(ctx_ty) if f.kind != "anonfield"]
        names = []
        x = r.random()
        pool = [f for f in scope_fields if f.name in earlier]
        if not pool and ctx_ty.params and x >= self.bad:
            x = 0.1
        if x < self.bad or (not pool and not ctx_ty.params):
            names.append(r.choice(FIELD_POOL + ["imp"]))
        elif x < 0.15 and ctx_ty.params:
            names.append(r.choice(ctx_ty.params).name)
            if r.random() < 0.2:
                self.f("member_of_parameter")
                names.append(r.choice(FIELD_POOL))
        else:
            f = r.choice(pool)
            names.append(f.abbr if (f.abbr and r.random() < 0.4) else f.name)
            # descend
            cur = f
            while r.random() < 0.55:
                ff = orc.final_field(cur)
                if ff is None or not isinstance(ff.ftype, TNode) or ff.ftype.kind == "enum":
                    if r.random() < self.bad:
                        names.append(r.choice(FIELD_POOL))
                    break
                members = [g for g in orc.fields_of(ff.ftype) if g.kind != "anonfield"]
                extra = [p.name for p in ff.ftype.params] + [g.abbr for g in members if g.abbr] + \
                        [r.choice(FIELD_POOL)]
                if members and r.random() > 2 * self.bad:
                    g = r.choice(members)
                    names.append(g.name)
                    cur = g
                else:
                    names.append(r.choice(extra))
                    break
        return names

    def use_name(self, e, names, ctx_ty, attr_field=None, local_type=None):
        for i, n in enumerate(names):
            if i:
                e.w(".")
            if i == 0:
                e.mark(n, {"kind": "name", "names": names, "ty": ctx_ty, "attr": attr_field})
            else:
                e.w(n)

    def use_path(self, e, names, ctx_ty, attr_field=None):
        for i, n in enumerate(names):
            if i:
                e.w(".")
            e.mark(n, {"kind": "path", "names": names, "index": i, "ty": ctx_ty, "attr": attr_field})

    # ---- text --------------------------------------------------------------------------
    def emit_module(self, m):
        e = Emit(m.file)
        for idx, (alias, target, _l, _c) in enumerate(m.imports):
            e.w('import "%s" as ' % target.file)
            e.mark(alias, {"kind": "def", "what": "import", "name": alias})
            e.nl()
        for t in m.types:
            self.emit_type(e, t, 0)
        return e

    def emit_type(self, e, t, ind):
        pad = "  " * ind
        e.w(pad + ("enum " if t.kind == "enum" else t.kind + " "))
        e.mark(t.name, {"kind": "def", "what": "type", "node": t})
        if t.params:
            e.w("(")
            for i, p in enumerate(t.params):
                if i:
                    e.w(", ")
                e.mark(p.name, {"kind": "def", "what": "param", "node": p})
                e.w(": ")
                self.param_type(e, t)
            e.w(")")
        e.w(":")
        e.nl()
        self.emit_body(e, t, ind + 1)

    def param_type(self, e, t):
        r = self.r
        enums = [x for x in self.all_types() if x.kind == "enum"]
        if enums and r.random() < 0.3:
            self.f("enum_param")
            orc = Oracle(self.mods, PRELUDE_TYPES)
            for _ in range(6):
                names = self.qualify(r.choice(enums), t)
                if r.random() < self.bad or orc.resolve_name(t, names)[0] == "ok":
                    break
            self.use_name(e, names, t)
        else:
            self.use_name(e, ["UInt"], t)
            e.w(":8")

    def emit_body(self, e, t, ind):
        pad = "  " * ind
        if t.kind == "external":
            e.w(pad + "[addressable_unit_size: 8]")
            e.nl()
            return
        if t.kind == "enum":
            for i, v in enumerate(t.values):
                e.w(pad)
                e.mark(v.name, {"kind": "def", "what": "value", "node": v})
                e.w(" = ")
                if i and self.r.random() < 0.3:
                    # bare reference to an earlier value of the same enum
                    self.f("bare_value_ref")
                    self.use_name(e, [self.r.choice(VALUE_POOL) if self.r.random() < self.bad else self.r.choice([w.name for w in t.values[:i]])], t)
                    e.w(" + 1")
                else:
                    e.w(str(i + 1))
                e.nl()
            return
        if self.r.random() < 0.15 and t.fields:
            e.w(pad + "[requires: ")
            if t.inline:
                # attributes in the body of an inline type are attributes of the *field*
                fld = [f for f in t.parent.fields if f.ftype is t and f.type_names is None][0]
                self.f("inline_body_attr")
                if self.r.random() < 0.7:
                    self.use_path(e, ["this"], t.parent, attr_field=fld)
                else:
                    self.use_path(e, self.path_string(t, set(f.name for f in t.fields)), t.parent, attr_field=fld)
            else:
                # structure-level attribute: other fields are visible
                self.f("struct_requires")
                self.use_path(e, self.path_string(t, set(f.name for f in t.fields)), t)
            e.w(" == 0]")
            e.nl()
        for s in t.subtypes:
            if not s.inline:
                self.emit_type(e, s, ind)
        earlier = set()
        off = 0
        unit = 1
        for f in t.fields:
            self.emit_field(e, t, f, ind, earlier, off)
            earlier.add(f.name)
            off += unit

    def emit_field(self, e, t, f, ind, earlier, off):
        r = self.r
        pad = "  " * ind
        if f.kind == "virt":
            e.w(pad + "let ")
            e.mark(f.name, {"kind": "def", "what": "field", "node": f})
            e.w(" = ")
            if r.random() < 0.5 and earlier:
                names = self.path_string(t, earlier)
                self.use_path(e, names, t)
                self.f("virtual_alias")
                f.alias_names = names      # member lookups through this field follow the alias
            else:
                self.expr(e, t, earlier)
                e.w(" + 1")
            e.nl()
            if r.random() < 0.2:
                self.field_attr(e, t, f, ind + 1)
            return
        if f.kind == "phys" and f.size_names is None and not (f.type_names is None and isinstance(f.ftype, TNode)) \
                and earlier and r.random() < 0.06:
            # conditional field: the condition is written in the structure's scope
            self.f("conditional_field")
            e.w(pad + "if ")
            self.use_path(e, self.path_string(t, earlier), t)
            e.w(" == 0:")
            e.nl()
            pad = pad + "  "
            ind = ind + 1
        if earlier and r.random() < 0.05 and f.kind != "anonfield":
            # the start of the field given by an earlier field
            self.f("start_by_field")
            e.w(pad)
            self.use_path(e, self.path_string(t, earlier), t)
            e.w(" [+")
        else:
            e.w(pad + "%d [+" % off)
        if f.size_names is not None:
            self.use_name(e, f.size_names, t)
        elif r.random() < 0.3:
            self.expr(e, t, earlier)
        else:
            e.w("1")
        e.w("]  ")
        if f.kind == "anonfield":
            f.ftype.line = len(e.lines) + 1
            e.mark("bits", {"kind": "def", "what": "anon", "node": f, "inline": f.ftype})
            e.w(":")
            e.nl()
            self.emit_body(e, f.ftype, ind + 1)
            return
        if f.type_names is None and isinstance(f.ftype, TNode):       # inline type
            e.w({"enum": "enum", "bits": "bits", "struct": "struct"}[f.ftype.kind] + "  ")
            e.mark(f.name, {"kind": "def", "what": "field", "node": f, "inline": f.ftype})
            if f.abbr:
                e.w(" (")
                e.mark(f.abbr, {"kind": "def", "what": "abbr", "node": f})
                e.w(")")
            e.w(":")
            e.nl()
            self.emit_body(e, f.ftype, ind + 1)
            return
        if f.type_names is not None:
            self.use_name(e, f.type_names, t)
            ft = f.ftype
            if ft is not None and ft.params and r.random() < 0.8:
                e.w("(")
                for i, _p in enumerate(ft.params):
                    if i:
                        e.w(", ")
                    self.expr(e, t, earlier)
                e.w(")")
            if f.array:
                if earlier and r.random() < 0.4:
                    self.f("array_length_ref")
                    e.w("[")
                    self.expr(e, t, earlier)
                    e.w("]")
                else:
                    e.w("[2]")
        else:
            self.use_name(e, [r.choice(["UInt", "UInt", "Int", "Flag", "Bcd"])], t)
        e.w("  ")
        e.mark(f.name, {"kind": "def", "what": "field", "node": f})
        if f.abbr:
            e.w(" (")
            e.mark(f.abbr, {"kind": "def", "what": "abbr", "node": f})
            e.w(")")
        e.nl()
        if r.random() < 0.2:
            self.field_attr(e, t, f, ind + 1)

    def field_attr(self, e, t, f, ind):
        """[requires: …] on a field: `this` is the field; other fields may not be referenced."""
        r = self.r
        e.w("  " * ind + "[requires: ")
        x = r.random()
        if x > 3 * self.bad:
            self.f("this_ref")
            self.use_path(e, ["this"], t, attr_field=f)
        elif x > self.bad:
            self.f("sibling_in_field_attr")
            self.use_path(e, [r.choice([g.name for g in t.fields if g.kind != "anonfield"] or ["aa"])], t, attr_field=f)
        else:
            self.expr(e, t, set(), attr_field=f)
        e.w(" == 0]")
        e.nl()

def gen_case(r, size):
    """Returns dict(files, uses, oracle, feat)."""
    g = Gen(r, collide=r.choice([0.0, 0.0, 0.0, 0.01, 0.04]), max_depth=r.choice([1, 2, 3, 3]),
            bad=r.choice([0.0, 0.0, 0.01, 0.03, 0.08]))
    imports = []
    if r.random() < 0.45:
        imp = g.module("imp.emb", r.randint(1, 3))
        alias = r.choice(["imp", "imp", "imp", "foo", "aa"])
        imports.append((alias, imp))
        g.f("import")
        if r.random() < 0.25:
            imq = g.module("imq.emb", r.randint(1, 2))
            imports.append((r.choice(["imq", "imq", alias]), imq))
            g.f("import2")
    m = g.module("m.emb", r.randint(1, size), imports=imports)
    if r.random() < 0.25:
        g.inject_collision()
    g.assign_field_types()
    files, marks = {}, {}
    for mod in g.mods:
        e = g.emit_module(mod)
        files[mod.file] = e.text()
        marks[mod.file] = e.marks
    g.renumber_anon()
    return {"files": files, "marks": marks, "gen": g, "main": m}


# ------------------------------------------------------------------ oracle vs real
ANON_RX = re.compile(r"(emboss_reserved_anonymous_field_|EmbossReservedAnonymousField)(\d+)")


def normalise_anon(path, ranks):
    out = []
    for p in path:
        mm = ANON_RX.fullmatch(p)
        if mm:
            out.append("%s#%d" % (mm.group(1), ranks.get((path[0], int(mm.group(2))), -1)))
        else:
            out.append(p)
    return out


def anon_ranks(ir):
    """(file, N) -> rank of the anonymous bits in the file by source position (the compiler's
    counter N is global and follows the order of parse-tree reductions)."""
    ranks = {}
    for m in ir.module:
        ns = {}

        def rec(tl):
            for t in tl:
                mm = ANON_RX.fullmatch(t.name.name.text)
                if mm:
                    p = t.name.name.source_location.start
                    ns[int(mm.group(2))] = (p.line, p.column)
                rec(t.subtype or [])
        rec(m.type)
        for i, n in enumerate(sorted(ns, key=lambda n: ns[n]), 1):
            ranks[(m.source_file_name, n)] = i
    return ranks


def expectations(case):
    """What the spec says about every reference the generator wrote.
    {(file, 'line:col'): expectation}; plus the list of duplicate definitions."""
    g = case["gen"]
    orc = Oracle(g.mods, PRELUDE_TYPES)
    exp = {}
    for file, marks in case["marks"].items():
        for (line, col, p) in marks:
            if p["kind"] == "name":
                exp[(file, "%d:%d" % (line, col))] = ("name", p["names"], orc.resolve_name(p["ty"], p["names"], p["attr"]))
            elif p["kind"] == "path":
                res = orc.resolve_path(p["ty"], p["names"], p["attr"])
                exp[(file, "%d:%d" % (line, col))] = ("path", p["names"], p["index"], res)
            elif p["kind"] == "def" and p.get("inline") is not None:
                # the compiler-made reference from an inline field to its type sits at the name
                exp[(file, "%d:%d" % (line, col))] = ("inline", [p["inline"].name], ("ok", p["inline"].path()))
    return exp, orc.duplicates()


def check_oracle(case, o, chk):
    """Real result against the spec oracle.  Returns list of (key or None, message)."""
    out = []
    exp, dups = expectations(case)
    stats = chk.extra.setdefault("oracle", {})

    def st(k):
        stats[k] = stats.get(k, 0) + 1
    if o["stage"] != "resolver":
        if o["stage"].endswith("exception"):
            out.append((exc_key(o["exc"]), "exception before the resolver: %r" % o["exc"]))
        else:
            st("rejected_before_resolver")
        return out
    if o["s1_exc"] is not None:
        out.append((exc_key(o["s1_exc"]), "resolve_symbols raised %r" % o["s1_exc"]))
        return out
    ranks = anon_ranks(o["pre"])
    # expected problems of the head/name stage
    bad_refs = {}
    for k, e in exp.items():
        if e[0] in ("name", "inline"):
            if e[2][0] in ("missing", "ambiguous"):
                bad_refs[k] = e[2][0]
        elif e[0] == "path" and e[2] == 0 and e[3][0] in ("missing", "ambiguous", "module-as-field"):
            bad_refs[k] = e[3][0]
    if o["s1_errors"]:
        st("rejected_by_resolver")
        for (kind, name, file, loc, _notes) in o["s1_errors"]:
            start = loc.split("-")[0]
            if kind == "dup":
                if (file, name) not in dups:
                    out.append((None, "Duplicate name %r reported at %s:%s but no scope defines it twice" % (name, file, loc)))
                else:
                    st("dup_confirmed")
            elif kind in ("miss", "amb"):
                # the location of a missing tail component is inside the reference: find the
                # reference that starts at or before it on the same line
                k = (file, start)
                if k not in exp:
                    k = nearest_use(exp, file, start)
                e = exp.get(k)
                if e is None:
                    out.append((None, "%s %r at %s:%s: not a reference the generator wrote" % (kind, name, file, loc)))
                    continue
                want = e[2] if e[0] in ("name", "inline") else e[3]
                if e[0] == "path" and e[2] != 0:
                    out.append((None, "resolve_symbols complained about a non-head path element %r" % (e,)))
                elif (kind == "amb") != (want[0] == "ambiguous") or want[0] in ("ok", "abbr-outside"):
                    out.append((None, "%s %r at %s:%s but the scoping rules say %r for %r" % (kind, name, file, loc, want, e[1])))
                else:
                    st("error_confirmed_" + kind)
            elif kind == "modfield":
                e = exp.get((file, start))
                if e is None or e[0] != "path" or e[2] != 0 or e[3][0] != "module-as-field":
                    out.append((None, "modfield %r at %s:%s but the scoping rules say %r" % (name, file, loc, e)))
                else:
                    st("error_confirmed_modfield")
            else:
                out.append((None, "unexpected error from resolve_symbols: %r" % ((kind, name, file, loc),)))
        if not dups and not bad_refs:
            out.append((None, "module rejected (%r) although every name resolves uniquely per the scoping rules" % (o["s1_errors"][:2],)))
        # the search over the visible scopes runs for every reference, also after the first
        # error: once the resolution passes are reached (no duplicate definition), every head
        # name the rules call ambiguous must be reported as such, never silently bound
        raw = o.get("s1_raw") or o["s1_errors"]
        if not any(e[0] == "dup" for e in raw):
            reported = set((e[2], e[3].split("-")[0]) for e in raw if e[0] == "amb")
            for k, why in bad_refs.items():
                if why == "ambiguous" and k not in reported:
                    out.append((None, "module rejected for another reason, but %r at %s:%s is visible from two scopes and "
                                      "no `Ambiguous name` error was reported for it" % (exp[k][1], k[0], k[1])))
                elif why == "ambiguous":
                    st("ambiguity_reported")
        return out
    # accepted by resolve_symbols
    if dups:
        out.append((None, "accepted although a scope defines a name twice: %r" % (dups[:3],)))
    for k, why in bad_refs.items():
        out.append((None, "accepted although %r at %s:%s is %s" % (exp[k][1], k[0], k[1], why)))
    st("accepted_by_resolver")
    # every reference the generator wrote, at the stage after resolve_symbols
    seen = set()
    for (r, m) in o["ref_nodes"]:
        loc = r.source_location
        if loc.is_synthetic:
            continue
        k = (m, str(loc).split("-")[0])
        e = exp.get(k)
        if e is None:
            if m != "":
                out.append((None, "reference %r at %s:%s is not one the generator wrote" % ([w.text for w in r.source_name], m, loc)))
            continue
        seen.add(k)
        got = normalise_anon(canon_of(r), ranks)
        want = e[2]
        if want[0] == "ok":
            if got != want[1]:
                out.append((None, "%r at %s:%s bound to %r, the scoping rules designate %r" % (e[1], m, loc, got, want[1])))
            else:
                st("binding_confirmed_" + e[0])
        elif want[0] == "abbr-outside":
            st("static_ref_through_abbreviation_bound")
            case.setdefault("abbr_outside", []).append((k, got))
        else:
            out.append((None, "%r at %s:%s bound to %r, expected %r" % (e[1], m, loc, got, want)))
    # field paths after resolve_field_references
    path_bad = {}
    for k, e in exp.items():
        if e[0] == "path" and e[3][0] != "ok" and e[2] == 0:
            path_bad[k] = e[3]
    if o.get("s2_exc") is not None:
        key = exc_key(o["s2_exc"])
        out.append((key, "after resolve_symbols: %r" % (o["s2_exc"],)))
        return out
    if any(e[0].startswith("other:") for e in o.get("s2_errors", [])):
        st("dependency_cycle_or_other")
        return out
    if o.get("s2_errors"):
        st("rejected_by_field_resolver")
        for (kind, name, file, loc, _n) in o["s2_errors"]:
            k = (file, loc.split("-")[0])
            if k not in exp:        # location of a tail reference starts at the dot
                ln, cl = loc.split("-")[0].split(":")
                k = (file, "%s:%d" % (ln, int(cl) + 1))
            e = exp.get(k)
            if e is None or e[0] != "path":
                out.append((None, "%s %r at %s:%s: not a path element the generator wrote" % (kind, name, file, loc)))
                continue
            want = e[3]
            if want[0] == "ok":
                out.append((None, "%s %r at %s:%s but the path %r is valid: %r" % (kind, name, file, loc, e[1], want[1])))
            elif want[1] != e[2]:
                out.append((None, "%s %r reported at element %d of %r, expected the problem at element %d" % (kind, name, e[2], e[1], want[1])))
            else:
                st("path_error_confirmed_" + kind)
        return out
    for k, want in path_bad.items():
        if want[0] in ("error", "not-a-field"):
            out.append((None, "accepted although the path %r at %s:%s has no valid member at element %d" % (exp[k][1], k[0], k[1], want[1])))
    for (fr, m) in o.get("fref_nodes", []):
        for i, p in enumerate(fr.path):
            loc = p.source_name[0].source_location
            if loc.is_synthetic:
                continue
            k = (m, str(loc).split("-")[0])
            e = exp.get(k)
            if e is None or e[0] != "path":
                if m != "":
                    out.append((None, "path element %r at %s:%s is not one the generator wrote" % (p.source_name[0].text, m, loc)))
                continue
            want = e[3]
            got = normalise_anon(canon_of(p), ranks) if canon_of(p) else None
            if want[0] == "ok" and want[1][e[2]] != got:
                out.append((None, "element %d of %r at %s:%s bound to %r, the scoping rules designate %r" % (e[2], e[1], m, loc, got, want[1][e[2]])))
            elif want[0] == "ok":
                st("path_binding_confirmed_len%d" % min(len(e[1]), 4))
    # a static reference that went through an abbreviation from outside its structure must not
    # survive the whole front end
    if case.get("abbr_outside"):
        ir, errs, exc = compile_all(case["files"])
        if exc is None and not errs:
            out.append((None, "module accepted by the whole front end although %r binds through an abbreviation from outside its structure" % (case["abbr_outside"],)))
        else:
            st("abbr_outside_rejected_later")
    return out


def nearest_use(exp, file, start):
    line, col = [int(x) for x in start.split(":")]
    best = None
    for (f, lc) in exp:
        if f != file:
            continue
        l2, c2 = [int(x) for x in lc.split(":")]
        if l2 == line and c2 <= col and (best is None or c2 > best[1]):
            if exp[(f, lc)][0] in ("name", "inline"):
                best = (l2, c2)
    return (file, "%d:%d" % best) if best else None


# ===================================================================== fixed cases
CORPUS = [
    # (files, note)
    ({"m.emb": "struct Bar:\n  0 [+1]  UInt  x\nstruct Foo:\n  struct Bar:\n    0 [+1]  UInt  z\n  0 [+1]  Bar  y\n"}, "visible from two scopes"),
    ({"m.emb": "struct UInt:\n  0 [+1]  Int  x\nstruct Foo:\n  0 [+1]  UInt  y\n"}, "shadowing the prelude is ambiguous"),
    ({"m.emb": "struct UInt:\n  struct UInt:\n    0 [+1]  UInt  y\n  0 [+1]  Int  x\n"}, "three scopes: two errors"),
    ({"m.emb": "struct Foo:\n  0 [+1]  UInt  long_name (ln)\n  1 [+ln]  UInt  y\nstruct Bar:\n  0 [+2]  Foo  f\n  2 [+f.ln]  UInt  z\n"}, "abbreviation outside"),
    ({"m.emb": "struct Foo:\n  0 [+1]  UInt  x\n    [requires: this < y]\n  1 [+1]  UInt  y\n"}, "field attribute sees only this"),
    ({"m.emb": "struct Foo:\n  struct Bar:\n    0 [+1]  UInt  y\n  0 [+1]  UInt  x\nstruct Foo:\n  struct Bar:\n    0 [+1]  UInt  y\n  struct Bar:\n    0 [+1]  UInt  y\n  0 [+1]  UInt  x\n"}, "duplicate types, detached children"),
    ({"m.emb": "struct Foo:\n  0 [+1]  bits:\n    0 [+1]  UInt  aa\n    1 [+1]  UInt  aa\n  1 [+1]  UInt  bb\n"}, "duplicate inside anonymous bits"),
    ({"m.emb": "struct Foo:\n  0 [+1]  bits:\n    0 [+4]  enum  bar:\n      AA = 1\n    4 [+4]  Bar  baz\n  1 [+1]  Bar  qux\n  let v = bar\n"}, "inline type in anonymous bits is hoisted"),
    ({"m.emb": "struct Foo:\n  0 [+4]  struct  bar:\n    0 [+1]  enum  baz:\n      AA = 1\n    1 [+1]  Baz  q\n  4 [+1]  Baz  r\n"}, "inline in inline"),
    ({"m.emb": "struct Foo:\n  0 [+1]  UInt  x\nstruct Bar:\n  0 [+1]  Foo  f\n  let g = f\n  let h = g\n  1 [+h.x]  UInt  y\n  let k = g.x\n  2 [+k.z]  UInt  w\n"}, "members through virtual aliases"),
    ({"m.emb": "struct Foo:\n  0 [+1]  UInt  x\nstruct Bar:\n  0 [+2]  Foo[2]  f\n  2 [+f.x]  UInt  y\n"}, "member of array"),
    ({"m.emb": "struct Bar:\n  0 [+2]  UInt  f\n  2 [+f.x]  UInt  y\n  let v = f + 1\n  3 [+v.x]  UInt  z\n"}, "noncomposite"),
    ({"m.emb": 'import "imp.emb" as imp\nstruct Foo:\n  0 [+1]  imp.Baz  x\n  1 [+imp.Enu.AA]  UInt  y\n  2 [+1]  Baz  z\n',
      "imp.emb": "struct Baz:\n  0 [+1]  UInt  q\nenum Enu:\n  AA = 1\n"}, "imports are reached only through the alias"),
    ({"m.emb": 'import "imp.emb" as imp\nstruct Foo:\n  0 [+1]  UInt  imp\n  1 [+imp]  UInt  y\n',
      "imp.emb": "struct Baz:\n  0 [+1]  UInt  q\n"}, "field and import alias of the same name"),
    ({"m.emb": 'import "imp.emb" as imp\nimport "imp.emb" as imp\nstruct Foo:\n  0 [+1]  imp.Baz  x\n',
      "imp.emb": "struct Baz:\n  0 [+1]  UInt  q\n"}, "duplicate alias"),
    ({"m.emb": "struct Foo(p: UInt:8):\n  0 [+1]  UInt  x\nstruct Bar:\n  0 [+1]  Foo(1)  f\n  let y = f.p\n"}, "parameter as member"),
    ({"m.emb": "enum Foo:\n  AA = 1\n  BB = AA + 1\nstruct Bar:\n  0 [+Foo.BB]  UInt  x\n  1 [+BB]  UInt  y\n"}, "enum values are local to the enum"),
    ({"m.emb": "struct Foo(x: UInt:8):\n  0 [+1]  UInt  x\n"}, "parameter and field of the same name"),
    ({"m.emb": "struct Foo:\n  0 [+1]  UInt  long_name (ln)\nstruct Bar:\n  0 [+Foo.ln]  UInt  y\n"}, "static reference through an abbreviation"),
    # fixed by 8da3027 (was crash:symbol_resolver.py:_resolve_field_reference:AttributeError)
    ({"m.emb": "struct Foo(p: UInt:8):\n  0 [+1]  UInt  x\n  1 [+p.x]  UInt  y\n"}, "member of a runtime parameter"),
    ({"m.emb": "struct Foo(p: UInt:8):\n  0 [+1]  UInt  x\n  let q = p\n  1 [+q.x]  UInt  y\n"}, "member of a parameter through an alias"),
    ({"m.emb": "struct Bar:\n  0 [+1]  UInt  z\nstruct Foo(p: Bar):\n  0 [+1]  UInt  x\n  let y = p.z + 1\n"}, "member of a structure-typed parameter"),
    ({"m.emb": "struct Foo(p: UInt:8):\n  0 [+1]  UInt  x\nstruct Bar:\n  0 [+1]  Foo(1)  f\n  let y = f.p.x\n"}, "member of a parameter reached as member"),
    # one name visible from two scopes, around an inline type / with identical member names;
    # third element: what the language reference demands of resolve_symbols for this input
    ({"m.emb": "enum Sel:\n  AA = 0\nstruct Pkt:\n  0 [+1]  enum  sel:\n    BB = 1\n  1 [+1]  Sel  other\n"},
     "inline type collides with outer type, plain reference after", ("amb", "Sel")),
    ({"m.emb": "enum Sel:\n  AA = 0\nstruct Pkt:\n  0 [+1]  Sel  other\n  1 [+1]  enum  sel:\n    BB = 1\n"},
     "inline type collides with outer type, plain reference before", ("amb", "Sel")),
    ({"m.emb": "struct Pkt:\n  0 [+1]  enum  pkt:\n    BB = 1\n  1 [+1]  Pkt  other\n"},
     "inline type named like its enclosing structure", ("amb", "Pkt")),
    ({"m.emb": "struct Pkt:\n  0 [+1]  bits:\n    0 [+4]  enum  u_int:\n      BB = 1\n    4 [+4]  UInt  other\n"},
     "inline type in anonymous bits named like a prelude type", ("amb", "UInt")),
    ({"m.emb": "enum Lvl:\n  LO = 0\n  HI = 1\nstruct Outer:\n  enum Lvl:\n    HI = 0\n    LO = 1\n  0 [+1]  Lvl  lvl\n"},
     "two enums with the same value names", ("amb", "Lvl")),
    ({"m.emb": "struct Pt:\n  0 [+1]  UInt  xx\n  1 [+1]  UInt  yy\nstruct Outer:\n  struct Pt:\n    0 [+2]  UInt  yy\n    2 [+2]  UInt  xx\n  0 [+4]  Pt  p\n"},
     "two structures with the same field names", ("amb", "Pt")),
    ({"m.emb": "external Bcd:\n  [addressable_unit_size: 8]\nstruct Foo:\n  0 [+1]  Bcd  f\n"},
     "external shadowing a prelude external", ("amb", "Bcd")),
    # repaired by fixes/C12-module-attribute-reference.patch (was crash:traverse_ir.py:invoke:AssertionError):
    # names in module-level attributes are looked up with the module as current scope
    ({"m.emb": "[requires: Foo.BAR]\nenum Foo:\n  BAR = 1\n"}, "name in a module-level attribute"),
    ({"m.emb": "[(cpp) namespace: Nope.BAR]\nenum Foo:\n  BAR = 1\n"},
     "undefined name in a module-level attribute", ("miss", "Nope")),
    ({"m.emb": "[(cpp) namespace: UInt.x]\nstruct UInt:\n  0 [+1]  Int  x\n"},
     "ambiguous name in a module-level attribute", ("amb", "UInt")),
    # repaired by fixes/C12-import-alias-as-value.patch (was crash:dependency_checker.py:strong_connect:KeyError):
    # an import alias used as a value is bound to the module and rejected
    ({"m.emb": 'import "imp.emb" as imp\nstruct Foo:\n  0 [+1]  UInt  x\n  1 [+imp]  UInt  y\n',
      "imp.emb": "struct Baz:\n  0 [+1]  UInt  q\n"}, "import alias used as a value", ("modfield", "imp")),
    ({"m.emb": 'import "imp.emb" as imp\nstruct Foo:\n  0 [+1]  UInt  x\n  1 [+imp.x]  UInt  y\n  let v = imp\n',
      "imp.emb": "struct Baz:\n  0 [+1]  UInt  q\n"}, "import alias used as a structure / renamed", ("modfield", "imp")),
    # repaired by fixes/C12-anonymous-bits-in-inline-struct.patch (was
    # crash:synthetics.py:_add_anonymous_aliases:AssertionError): the anonymous type is looked up where
    # module_ir puts it (C12_inline_placing: in the nearest type written as a definition)
    ({"m.emb": "struct Foo:\n  0 [+4]  struct  bar:\n    0 [+1]  bits:\n      0 [+1]  Flag  xx\n"},
     "anonymous bits directly inside an inline struct"),
    ({"m.emb": "struct Foo:\n  0 [+2]  struct  bar:\n    0 [+1]  bits:\n      0 [+1]  Flag  xx\n    1 [+1]  struct  baz:\n"
               "      0 [+1]  bits:\n        0 [+1]  Flag  yy\n        1 [+yy ? 1 : 2]  UInt  zz\n  let v = bar.baz.yy\n  let w = bar.xx\n"},
     "anonymous bits two inline structs deep, aliases used from outside"),
    # repaired by fixes/C12-hidden-ambiguity-in-anonymous-bits.patch (was resolver-errors-all-hidden-as-synthetic)
    ({"m.emb": 'import "imp.emb" as foo\nstruct Xyz:\n  0 [+1]  bits:\n    0 [+4]  UInt  foo\n    4 [+foo]  UInt  baz\n',
      "imp.emb": "struct Baz:\n  0 [+1]  UInt  q\n"},
     "ambiguity whose candidate is a name inside an anonymous bits", ("amb", "foo")),
    ({"m.emb": 'import "imp.emb" as foo\nstruct Xyz:\n  0 [+1]  bits:\n    0 [+4]  UInt  fooo (foo)\n    4 [+foo]  UInt  baz\n',
      "imp.emb": "struct Baz:\n  0 [+1]  UInt  q\n"},
     "ambiguity whose candidate is an abbreviation inside an anonymous bits", ("amb", "foo")),
    # fixed by 22b80e8 (was hang:symbol_resolver.py:_resolve_field_reference); fourth element: what
    # resolve_field_references must report (a renaming that leads back to itself names no field)
    ({"m.emb": "struct Foo:\n  0 [+1]  Foo  f\n  let g = f.g\n  let h = g.x\n"},
     "virtual field renaming itself through a self-typed field", None, ("noncomp", "g")),
    ({"m.emb": "struct Foo:\n  0 [+1]  Bar  f\n  let g = f.b.g\n  let h = g.x\n"
               "struct Bar:\n  0 [+1]  Foo  b\n"},
     "virtual field renaming itself through a second structure", None, ("noncomp", "g")),
    ({"m.emb": "struct Foo:\n  0 [+1]  Foo  f\n  let g = f.k\n  let k = f.g\n  let h = g.x\n"},
     "two virtual fields renaming each other", None, ("noncomp", "g")),
    ({"m.emb": "struct Foo:\n  0 [+1]  Foo  f\n  0 [+1]  UInt  x\n  let g = f.f\n  let k = g.g\n  let h = k.g.f.x\n"},
     "renamings through a self-typed field that do end in a physical field"),
]

# inputs for the module_ir comparison only (op HOIST): nesting of inline / anonymous constructs
HOIST_CORPUS = [
    {"m.emb": "struct Foo:\n  0 [+1]  bits:\n    0 [+4]  UInt  a\n  1 [+4]  struct  inl:\n    struct Ex:\n"
              "      0 [+1]  bits:\n        0 [+1]  UInt  q\n    0 [+1]  bits:\n      0 [+4]  enum  en:\n"
              "        AA = 1\n    1 [+1]  Ex  e\n  5 [+1]  bits:\n    0 [+4]  UInt  c\nstruct Bar:\n"
              "  0 [+1]  bits:\n    0 [+4]  UInt  d\n"},
    # same inline type name in two inline structs: both land in Msg (the language reference's
    # rewriting would give Msg.Aa.Kind and Msg.Bb.Kind) - C12_inline_nesting_counterexample
    {"m.emb": "struct Msg:\n  0 [+1]  struct  aa:\n    0 [+1]  enum  kind:\n      ON = 1\n"
              "  1 [+1]  struct  bb:\n    0 [+1]  enum  kind:\n      OFF = 1\n"},
    {"m.emb": "bits Foo:\n  0 [+8]  bits  lo:\n    0 [+4]  enum  e_one:\n      AA = 1\n    4 [+4]  bits  in_ner:\n"
              "      0 [+2]  UInt  x\n  if lo.in_ner.x == 0:\n    8 [+8]  enum  hi_2:\n      BB = 2\n"
              "  let v = lo.in_ner.x\n"},
    {"m.emb": "enum Ee:\n  AA = 1\n  BB = 2\nexternal Xx:\n  [addressable_unit_size: 8]\n"
              "struct Outer:\n  struct Mid:\n    bits Low:\n      0 [+1]  Flag  f\n    0 [+1]  Low  low\n"
              "    1 [+1]  bits:\n      0 [+1]  Flag  g\n  0 [+2]  Mid  mid\n"},
]

# narrow predicate: every error resolve_symbols reported has a synthetic location (a name inside
# an anonymous `bits:`), so glue.process_ir defers it and goes on with unresolved references
HIDDEN_KEY = "resolver-errors-all-hidden-as-synthetic"
# `let g = f.g` where `f` has the enclosing structure as its type: the alias-following loop of
# _resolve_field_reference never ended (fixed by 22b80e8: visited list; the inputs are in CORPUS,
# with the error the repaired code must report)
HANG_KEY = "hang:symbol_resolver.py:_resolve_field_reference"
# `let g = f.g.x`, same `f`: the reference of `g` needs the members of `g`:
# _resolve_field_reference calls itself for the reference it is resolving, without end
RECURSION_KEY = "crash:symbol_resolver.py:_resolve_field_reference:RecursionError"

# pinned inputs of known findings: (key, files, stage)
FINDING_INPUTS = {
    RECURSION_KEY:
        {"m.emb": "struct Foo:\n  0 [+1]  Foo  f\n  let g = f.g.x\n"},
}


# ===================================================================== run
def count_ctx(chk, o):
    if "ctx_total" in o:
        chk.extra["reference_contexts"] = chk.extra.get("reference_contexts", 0) + o["ctx_total"]
        chk.extra["reference_contexts_not_wellformed"] = \
            chk.extra.get("reference_contexts_not_wellformed", 0) + o["ctx_not_wellformed"]


def model_line(o):
    return "RESOLVE " + json.dumps(o["desc"], separators=(",", ":"))


def first_exception(o):
    for k in ("exc", "s1_exc", "s2_exc"):
        if o.get(k) is not None:
            return o[k]
    return None


def evaluate(chk, cases, model_ok, label):
    """cases: list of dict(files, case or None).  Runs real code, oracle, model; reports."""
    obs = []
    failing = set()        # indices of cases the spec oracle (or a crash) already condemned
    for ci, c in enumerate(cases):
        nviol = len(chk.violations) + len(chk.known_printed)
        o = observe(c["files"])
        chk.count()
        count_ctx(chk, o)
        obs.append(o)
        # canonical names / find_object directly on the real IR
        ir = o.get("s2_ir") or o.get("s1_ir")
        if ir is not None:
            problems, n = check_canonical(ir)
            problems += check_targets(o)
            chk.extra["definitions_checked"] = chk.extra.get("definitions_checked", 0) + n
            for p in problems:
                chk.violation("input", {"input": c["files"], "observed": p,
                                        "expected": "unique canonical names; find_object(canonical d) = d"})
        if c.get("case") is not None:
            for (key, msg) in check_oracle(c["case"], o, chk):
                if o.get("hidden_only"):
                    key = HIDDEN_KEY
                chk.violation("input", {"input": c["files"], "observed": msg,
                                        "expected": "binding designated by the scoping rules, or rejection"},
                              key=key)
        else:
            exc = first_exception(o)
            if c.get("expect") is not None and exc is None:
                got = [(e[0], e[1]) for e in (o.get("s1_errors") or [])]
                if tuple(c["expect"]) not in got:
                    chk.violation("input", {"input": c["files"],
                                            "observed": "resolve_symbols: errors %r, bindings %r" % (got, o.get("s1_refs")),
                                            "expected": "rejected with %r (language reference: a name visible from "
                                                        "two scopes is ambiguous)" % (c["expect"],)})
            if c.get("expect2") is not None and exc is None:
                got = [(e[0], e[1]) for e in (o.get("s2_errors") or [])]
                if tuple(c["expect2"]) not in got:
                    chk.violation("input", {"input": c["files"],
                                            "observed": "resolve_field_references: errors %r, bindings %r" % (got, o.get("s2_paths")),
                                            "expected": "rejected with %r (a virtual field that renames "
                                                        "itself names no field)" % (c["expect2"],)})
            if exc is not None:
                chk.violation("input", {"input": c["files"], "observed": "exception %r" % (exc,),
                                        "expected": "IR or located errors"},
                              key=HIDDEN_KEY if o.get("hidden_only") else exc_key(exc))
            elif o.get("hidden_only"):
                chk.violation("input", {"input": c["files"],
                                        "observed": "resolve_symbols reported only errors that error.split_errors hides: %r" % (o["s1_raw"],),
                                        "expected": "a visible error"}, key=HIDDEN_KEY)
        if len(chk.violations) + len(chk.known_printed) != nviol:
            failing.add(ci)
        # the IRs are not needed for the comparison with the model: free them now
        for k in ("pre", "s1_ir", "s2_ir", "ref_nodes", "fref_nodes"):
            o.pop(k, None)
    if not model_ok:
        return obs
    idx = [i for i, o in enumerate(obs) if o["stage"] == "resolver"]
    answers = common.Model("model_c12").ask([model_line(obs[i]) for i in idx])
    dis = 0
    for i, a in zip(idx, answers):
        o = obs[i]
        try:
            ans = json.loads(a)
        except ValueError:
            ans = a
        diffs = compare_model(o, ans)
        kind = classify(o, ans)
        chk.extra.setdefault("outcomes", {})
        chk.extra["outcomes"][kind] = chk.extra["outcomes"].get(kind, 0) + 1
        if kind not in ("resolved-trivial",):
            chk.nontrivial(kind + ":" + json.dumps(cases[i]["files"], sort_keys=True))
        if diffs:
            dis += 1
            # the disagreeing input was evaluated against the spec oracle above: if the real
            # code is wrong there, that *is* the failing input
            chk.violation("input" if i in failing else "correspondence",
                          {"input": cases[i]["files"], "model": a[:2000], "observed": diffs[:5],
                           "expected": "model_c12 RESOLVE == resolve_symbols/resolve_field_references",
                           "theorem_or_correspondence": "model_c12 RESOLVE vs symbol_resolver (%s)" % label},
                          found_input=i in failing)
    chk.extra["traces_validated_against_impl"] = chk.extra.get("traces_validated_against_impl", 0) + len(idx)
    chk.extra["disagreements"] = chk.extra.get("disagreements", 0) + dis
    return obs


def classify(o, ans):
    if not isinstance(ans, dict):
        return "model-bad"
    if "crash" in ans:
        return "reference-outside-type-crash"
    if "errors" in ans:
        kinds = sorted(set(e[0] for e in ans["errors"]))
        return "rejected:" + "+".join(kinds)
    if "frefs" in ans:
        fr = ans["frefs"]
        if any(e == "crash" for e in fr):
            return "member-crash"
        if any(e == "recursion" for e in fr):
            return "member-recursion"
        errs = sorted(set(e["err"][0] for e in fr if isinstance(e, dict) and "err" in e))
        if errs:
            return "member-rejected:" + "+".join(errs)
        if any(isinstance(e, dict) and len(e.get("ok", [])) > 1 for e in fr):
            return "resolved-with-members"
        return "resolved"
    return "model-broken"


def testdata_cases():
    out = []
    for p in sorted(glob.glob(os.path.join(common.REPO, "testdata", "**", "*.emb"), recursive=True)):
        rel = os.path.relpath(p, common.REPO)
        out.append(rel)
    return out


def observe_testdata(chk, model_ok):
    """/repo/testdata: real files (imports read from the tree)."""
    files = {}
    for root, _d, fs in os.walk(os.path.join(common.REPO, "testdata")):
        for f in fs:
            if f.endswith(".emb"):
                p = os.path.join(root, f)
                files[os.path.relpath(p, common.REPO)] = open(p).read()
    cases = []
    for rel in sorted(files):
        cases.append({"files": files, "main": rel})
    obs = []
    lines, keep = [], []
    for c in cases:
        o = observe(files, c["main"])
        chk.count()
        count_ctx(chk, o)
        ir = o.get("s2_ir") or o.get("s1_ir")
        if ir is not None:
            problems, n = check_canonical(ir)
            problems += check_targets(o)
            chk.extra["definitions_checked"] = chk.extra.get("definitions_checked", 0) + n
            for p in problems:
                chk.violation("input", {"input": {"testdata": c["main"]}, "observed": p,
                                        "expected": "unique canonical names; find_object(canonical d) = d"})
        if o["stage"] == "resolver":
            lines.append(model_line(o))
            keep.append((c["main"], o))
        obs.append(o)
    chk.extra["testdata_files"] = len(cases)
    if model_ok and lines:
        answers = common.Model("model_c12").ask(lines)
        for (main, o), a in zip(keep, answers):
            try:
                ans = json.loads(a)
            except ValueError:
                ans = a
            diffs = compare_model(o, ans)
            chk.nontrivial("testdata:" + main)
            if diffs:
                chk.violation("correspondence", {"input": {"testdata": main}, "model": a[:2000],
                                                 "observed": diffs[:5],
                                                 "theorem_or_correspondence": "model_c12 RESOLVE vs symbol_resolver (testdata)"},
                              found_input=False)
        chk.extra["traces_validated_against_impl"] = chk.extra.get("traces_validated_against_impl", 0) + len(lines)


def known_findings(chk):
    """Re-run the pinned input of every open finding of this property."""
    for k in chk.known:
        if k.get("property") != PROP or k.get("status") != "open":
            continue
        files = k.get("input")
        if isinstance(files, str):
            files = {"m.emb": files}
        ir, errs, exc = compile_all(files)
        if exc is not None and exc_key(exc) == k["key"]:
            chk.report_known(k)
        elif k["key"] == HIDDEN_KEY:
            o = observe(files)
            if o.get("hidden_only") and (exc is not None or not errs):
                chk.report_known(k)


def corpus_cases():
    return [{"files": c[0], "expect": c[2] if len(c) > 2 else None,
             "expect2": c[3] if len(c) > 3 else None} for c in CORPUS]


def generated_cases(r, n, size):
    cases = []
    feats = {}
    for _ in range(n):
        c = gen_case(r, size)
        for k, v in c["gen"].feat.items():
            feats[k] = feats.get(k, 0) + v
        cases.append({"files": c["files"], "case": c})
    return cases, feats


def search(chk):
    """Model-free: generator + corpus against the spec oracle and the canonical-name checks."""
    before = len(chk.violations)
    r = common.rng("C12-search")
    cases, _f = generated_cases(r, 400, 4)
    for c in corpus_cases() + [{"files": f} for f in HOIST_CORPUS] + cases:
        check_hoist(chk, c["files"], False, [])
    evaluate(chk, corpus_cases() + cases, False, "search")
    return len(chk.violations) - before


def run(tier):
    chk = common.Check(PROP, tier, exes=["model_c12"])
    chk.cov["rule"] = ("module sets (≤3 files) from random scope trees, depth ≤ 4 incl. inline/anonymous "
                       "types; non-trivial = rejected, or resolved with ≥1 member lookup, or testdata file; "
                       "distinct by source text + outcome class")
    chk.trusted.append("harness/corr/C12.py `extract`: transcription of the pre-resolution IR into the model's "
                       "module description (definitions in pass order, references with lexical context)")
    model_ok = common.proof_gate(chk, search)
    known_findings(chk)
    observe_testdata(chk, model_ok)
    hq = []
    td = {}
    for pth in sorted(glob.glob(os.path.join(common.REPO, "testdata", "**", "*.emb"), recursive=True)):
        td[os.path.relpath(pth, common.REPO)] = open(pth).read()
    td["compiler/front_end/prelude.emb"] = open(os.path.join(common.REPO, "compiler", "front_end", "prelude.emb")).read()
    check_hoist(chk, td, model_ok, hq)
    for c in corpus_cases() + [{"files": f} for f in HOIST_CORPUS]:
        check_hoist(chk, c["files"], model_ok, hq)
    flush_hoist(chk, hq)
    evaluate(chk, corpus_cases(), model_ok, "corpus")
    evaluate(chk, [{"files": f} for f in FINDING_INPUTS.values()], model_ok, "finding inputs")
    r = common.rng("C12")
    n = 350 if tier == "quick" else 4000
    cases, feats = generated_cases(r, n, 4 if tier == "quick" else 5)
    chk.extra["generator_features"] = feats
    for k in range(0, len(cases), 400):      # chunks: the observed IRs are kept until the model answered
        for c in cases[k:k + 400]:
            check_hoist(chk, c["files"], model_ok, hq)
        flush_hoist(chk, hq)
        obs = evaluate(chk, cases[k:k + 400], model_ok, "generated")
        if k == 0:
            for c, o in list(zip(cases, obs))[:3]:
                chk.sample({"files": c["files"], "stage": o["stage"],
                            "s1_errors": o.get("s1_errors", [])[:2]}, limit=3)
    return chk.finish()


def replay(path):
    rec = json.load(open(path))
    files = rec["input"]
    if "testdata" in files:
        print("testdata case:", files)
        return 0
    o = observe(files)
    print("stage:", o["stage"])
    for k in ("exc", "s1_exc", "s2_exc"):
        if o.get(k) is not None:
            print(k, repr(o[k]), exc_key(o[k]))
    print("resolve_symbols errors:", o.get("s1_errors"))
    print("resolve_field_references errors:", o.get("s2_errors"))
    if o.get("s1_refs") is not None:
        for d, c in zip(o["desc"]["refs"], o["s1_refs"]):
            print("  ref", ".".join(n for n, _l in d["names"]), "in", d["ctx"]["types"], "->", c)
    if o.get("s2_paths") is not None:
        for d, c in zip(o["desc"]["frefs"], o["s2_paths"]):
            print("  path", ".".join(p[0] for p in d["path"]), "in", d["ctx"]["types"], "->", c)
    return 0
