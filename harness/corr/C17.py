"""C17 — compilation is a pure function of its input files.

Tie T: harness/translate/itersites.py regenerates lean/Emboss/Generated/IterSites.lean
       (every set-order / hash / id / non-input / module-state site of compiler/**/*.py
       with its order-independence pattern); Lean re-checks `C17_sites_discharged`.
Tie C: the real pipeline in FRESH interpreters under several PYTHONHASHSEEDs
       (harness/corr/c17_worker.py in-process batches + the real CLIs embossc,
       emboss_front_end, emboss_codegen_cpp), byte comparison of IR JSON / header /
       diagnostics; in-process repetition and history (exact, resp. up to an injective
       per-module-translating renaming of the anonymous numbers); import-directory
       permutations; one process vs two; the state-machine model (model_c17 RUN) against
       the numbering the real front end produces over long job sequences; FIND/SORT/…
       against the real directory search and Python's builtins.
Spec oracle (model-free): byte equality across seeds / repetitions / directory orders.
"""
import concurrent.futures
import glob
import hashlib
import itertools
import json
import os
import re
import subprocess
import sys
import time

from harness.corr import c17_gen
from harness.lib import common
from harness.translate import itersites

PROP = "C17"
WORKER = os.path.join(os.path.dirname(os.path.abspath(__file__)), "c17_worker.py")
CORPUS = os.path.join(common.VERIF, "corpus", PROP)
OBS = ("exc", "ir_sha", "header_sha", "err_sha", "err_src_sha", "prod_sha", "mods")
ANON_RE = re.compile(r"(emboss_reserved_anonymous_field_|EmbossReservedAnonymousField)(\d+)")
JOBS = 4


# ------------------------------------------------------------------ processes
def env_for(seed):
    env = dict(os.environ)
    env["PYTHONHASHSEED"] = str(seed)
    # PYTHONPYCACHEPREFIX (byte-code cache outside /repo, hash-seed independent) is set by
    # harness/lib/common.py and inherited
    env.pop("PYTHONDONTWRITEBYTECODE", None)
    env["PYTHONPATH"] = common.REPO
    env[common.GUARD] = "1"
    return env


_n = itertools.count()


def run_worker(seed, job, timeout=1500):
    d = common.scratch()
    i = next(_n)
    jf, of = os.path.join(d, "job%d.json" % i), os.path.join(d, "out%d.json" % i)
    with open(jf, "w") as f:
        json.dump(job, f)
    p = subprocess.run([sys.executable, WORKER, common.REPO, jf, of], env=env_for(seed),
                       stdout=subprocess.PIPE, stderr=subprocess.PIPE, timeout=timeout)
    if p.returncode != 0 or not os.path.exists(of):
        raise common.InfraError("worker (seed %s) failed rc=%d: %s" % (
            seed, p.returncode, p.stderr.decode(errors="replace")[-1500:]))
    with open(of) as f:
        return json.load(f)


def run_cli(seed, argv, cwd, timeout=900):
    p = subprocess.run([sys.executable] + argv, env=env_for(seed), cwd=cwd, stdout=subprocess.PIPE,
                       stderr=subprocess.PIPE, timeout=timeout)
    return {"rc": p.returncode, "stdout": p.stdout.decode(errors="replace"),
            "stderr": p.stderr.decode(errors="replace")}


def pool_map(fn, items):
    with concurrent.futures.ThreadPoolExecutor(max_workers=JOBS) as ex:
        return list(ex.map(fn, items))


# ---------------------------------------------------------------- source sets
def load_corpus():
    out = []
    for p in sorted(glob.glob(os.path.join(CORPUS, "*.json"))):
        with open(p) as f:
            d = json.load(f)
        out.extend(d if isinstance(d, list) else [d])
    return out


def testdata_sets():
    files = {}
    base = os.path.join(common.REPO, "testdata")
    for d, _dirs, fs in os.walk(base):
        for f in sorted(fs):
            if f.endswith(".emb"):
                p = os.path.join(d, f)
                try:
                    with open(p) as fh:
                        files[os.path.relpath(p, common.REPO)] = fh.read()
                except (OSError, UnicodeDecodeError):
                    pass
    return [{"name": "testdata:" + k, "files": files, "main": k, "why": "repo testdata"}
            for k in sorted(files) if os.path.dirname(k) == "testdata"], files


def gen_module(r, tag, n_anon, imports):
    """A valid module with `n_anon` anonymous bits, an enum, a virtual field."""
    lines = ["-- generated %s" % tag]
    for i, imp in enumerate(imports):
        lines.append('import "%s" as i%d' % (imp, i))
    lines += ["enum Kind%s:" % tag, "  AA = 0", "  BB = %d" % r.randint(1, 9)]
    lines.append("struct Gen%s:" % tag)
    off = 0
    names = []
    for i in range(n_anon):
        lines.append("  %d [+1] bits:" % off)
        w = r.choice([1, 2, 4])
        lines.append("    0 [+%d] UInt a%d" % (w, i))
        names.append("a%d" % i)
        if r.random() < 0.5:
            lines.append("    %d [+%d] UInt b%d" % (w, 8 - w, i))
            names.append("b%d" % i)
        off += 1
    lines.append("  %d [+1] UInt plain" % off)
    off += 1
    if r.random() < 0.4:
        lines.append("  if plain == 0:")
        lines.append("    %d [+1] Kind%s kind" % (off, tag))
        off += 1
    if names:
        lines.append("  let total = " + " + ".join(r.sample(names, min(len(names), 3))))
    return "\n".join(lines) + "\n"


def gen_sets(r, n_valid, n_mutants, td_files):
    out = []
    for i in range(n_valid):
        k = r.choice([0, 1, 2, 3, 5, 11])
        nimp = r.choice([0, 0, 1, 2])
        files = {}
        imps = []
        for j in range(nimp):
            nm = "dep%d_%d.emb" % (i, j)
            files[nm] = gen_module(r, "D%dx%d" % (i, j), r.choice([0, 1, 2]), [])
            imps.append(nm)
        files["m.emb"] = gen_module(r, "M%d" % i, k, imps)
        out.append({"name": "gen:valid%d" % i, "files": files, "main": "m.emb", "why": "generated valid"})
    # malformed stream: delete / duplicate / swap a token-ish chunk of a testdata file
    names = sorted(k for k in td_files if os.path.dirname(k) == "testdata")
    for i in range(n_mutants):
        nm = r.choice(names)
        text = td_files[nm]
        toks = re.split(r"(\s+)", text)
        idx = [j for j, t in enumerate(toks) if t.strip() and not t.startswith("#")]
        if not idx:
            continue
        j = r.choice(idx)
        op = r.choice(["del", "dup", "swap", "junk"])
        if op == "del":
            toks[j] = ""
        elif op == "dup":
            toks[j] = toks[j] + " " + toks[j]
        elif op == "swap" and j + 2 < len(toks):
            toks[j], toks[j + 2] = toks[j + 2], toks[j]
        else:
            toks[j] = r.choice([":", "[", "]", "(", "+", "=", "struct", "$", "0x", ","])
        files = dict(td_files)
        files[nm] = "".join(toks)
        out.append({"name": "gen:mutant%d:%s:%s" % (i, os.path.basename(nm), op), "files": files,
                    "main": nm, "why": "token mutation of testdata"})
    return out


def set_digest(s):
    h = hashlib.sha256(json.dumps([s["main"], s["files"]], sort_keys=True).encode()).hexdigest()
    return h[:16]


# ------------------------------------------------------------- hash-seed sweep
def first_difference(a, b):
    """First differing line of two texts (for the violation record)."""
    if a is None or b is None or a == b:
        return None
    la, lb = a.split("\n"), b.split("\n")
    for i, (x, y) in enumerate(zip(la, lb)):
        if x != y:
            return {"line": i + 1, "first": x[:300], "second": y[:300]}
    return {"line": min(len(la), len(lb)) + 1, "first": "<%d lines>" % len(la), "second": "<%d lines>" % len(lb)}


def sweep(chk, sets, seeds, label, full=False):
    """Same batch, fresh interpreter per seed; every observable of every set must be
    byte-identical across seeds.  Returns number of violations.  `full`: the workers return
    the texts (not only their hashes) so that the record can show the first differing line."""
    job = {"sets": [{"name": s["name"], "files": s["files"], "main": s["main"], "full": full} for s in sets]}
    results = pool_map(lambda sd: run_worker(sd, job), seeds)
    before = len(chk.violations)
    kinds = chk.extra.setdefault("outcome_kinds", {})
    for i, s in enumerate(sets):
        recs = [res["records"][i] for res in results]
        chk.count(len(seeds))
        r0 = recs[0]
        kind = "crash" if r0["exc"] else ("rejected" if r0["err_sha"] != EMPTY_SHA else "accepted")
        kinds[kind] = kinds.get(kind, 0) + 1
        if s.get("feature"):
            st = chk.extra.setdefault("rich_sets", {}).setdefault(s["feature"], {
                "sets": 0, "accepted": 0, "rejected": 0, "crash": 0, "max_diagnostic_lines": 0, "max_modules": 0})
            st["sets"] += 1
            st[kind] += 1
            st["max_diagnostic_lines"] = max(st["max_diagnostic_lines"], len((r0.get("errors") or "").split("\n")) - 1)
            st["max_modules"] = max(st["max_modules"], len(r0["mods"]))
        if kind == "rejected":
            first = (r0.get("errors") or "").split("\n")[0]
            m = re.search(r"(error|warning|note): (.{0,40})", first)
            ek = chk.extra.setdefault("error_kinds_hit", {})
            tag = re.sub(r"'[^']*'|\"[^\"]*\"|\d+", "_", m.group(2) if m else first[:40])
            ek[tag] = ek.get(tag, 0) + 1
        if (kind == "rejected" and (r0.get("errors") or "").count("\n") >= 1) or \
                (kind == "accepted" and (any(m[1] for m in r0["mods"]) or len(r0["mods"]) > 2)):
            chk.nontrivial(set_digest(s))
        for ob in OBS:
            vals = [json.dumps(r[ob]) for r in recs]
            if len(set(vals)) > 1 and len(chk.violations) - before >= 12:
                chk.extra["further_seed_dependent_sets_not_written"] = chk.extra.get("further_seed_dependent_sets_not_written", 0) + 1
                break
            if len(set(vals)) > 1:
                by_seed = {str(sd): r[ob] for sd, r in zip(seeds, recs)}
                detail = {"input": {"files": minimal_files(s), "main": s["main"], "set": s["name"]},
                          "observable": ob, "by_seed": by_seed, "seeds": list(seeds),
                          "errors_by_seed": {str(sd): r.get("errors") for sd, r in zip(seeds, recs)},
                          "expected": "byte-identical across PYTHONHASHSEED values", "where": label}
                txt = {"ir_sha": "ir", "header_sha": "header", "err_sha": "errors", "err_src_sha": "errors_src"}.get(ob)
                if full and txt:
                    other = [r for r in recs if r[ob] != r0[ob]][0]
                    detail["first_difference"] = first_difference(r0.get(txt), other.get(txt))
                if s.get("feature"):
                    detail["generator_feature"] = {"feature": s["feature"], "size": s.get("size")}
                chk.violation("input", detail, key="hashseed:" + s["name"])
                break
        if i < 3:
            chk.sample({"set": s["name"], "kind": kind, "ir_sha": r0["ir_sha"], "errors": (r0.get("errors") or "")[:160]})
    return len(chk.violations) - before


EMPTY_SHA = hashlib.sha256(b"").hexdigest()[:24]


def minimal_files(s):
    """Only the files the compilation can reach (main + transitive imports by text)."""
    files, todo, out = s["files"], [s["main"]], {}
    while todo:
        f = todo.pop()
        if f in out or f not in files:
            continue
        out[f] = files[f]
        todo.extend(re.findall(r'^\s*import\s+"([^"]*)"', files[f], re.M))
    return out


# --------------------------------------------------------------------- the CLI
def write_files(root, files):
    for k, v in files.items():
        p = os.path.join(root, k)
        os.makedirs(os.path.dirname(p), exist_ok=True)
        with open(p, "w") as f:
            f.write(v)


def cli_sweep(chk, sets, seeds):
    """embossc in fresh processes: rc, stdout, stderr and the generated header must not
    depend on the seed."""
    embossc = os.path.join(common.REPO, "embossc")
    tasks = []
    for i, s in enumerate(sets):
        root = os.path.join(common.scratch(), "cli%d" % i)
        write_files(root, minimal_files(s))
        for sd in seeds:
            tasks.append((i, s, root, sd))

    def go(t):
        i, s, root, sd = t
        out = os.path.join(root, "out-%s" % sd)
        r = run_cli(sd, [embossc, "--color-output", "never", "--output-path", out, s["main"]], root)
        hp = os.path.join(out, s["main"] + ".h")
        r["header"] = open(hp).read() if os.path.exists(hp) else None
        # the output path appears nowhere in stdout/stderr
        return r
    res = pool_map(go, tasks)
    chk.extra["cli_runs"] = len(tasks)
    for i, s in enumerate(sets):
        rs = [(t[3], r) for t, r in zip(tasks, res) if t[0] == i]
        chk.count(len(rs))
        for ob in ("rc", "stdout", "stderr", "header"):
            vals = set(json.dumps(r[ob]) for _, r in rs)
            if len(vals) > 1:
                chk.violation("input", {
                    "input": {"files": minimal_files(s), "main": s["main"], "set": s["name"]},
                    "observable": "embossc " + ob, "by_seed": {str(sd): (r[ob] or "")[:1500] if isinstance(r[ob], str) else r[ob] for sd, r in rs},
                    "seeds": list(seeds), "expected": "byte-identical across PYTHONHASHSEED values",
                    "where": "embossc"}, key="hashseed:" + s["name"])
                break
    out = {}
    for i, s in enumerate(sets):
        out[s["name"]] = dict([r for t, r in zip(tasks, res) if t[0] == i][0],
                              root=os.path.join(common.scratch(), "cli%d" % i))
    return out


def two_process(chk, sets, embossc_results):
    """front end → JSON file → back end, two interpreters, vs embossc in one."""
    fe = os.path.join(common.REPO, "compiler", "front_end", "emboss_front_end.py")
    be = os.path.join(common.REPO, "compiler", "back_end", "cpp", "emboss_codegen_cpp.py")

    def go(s):
        root = embossc_results[s["name"]]["root"]
        irp, hp = os.path.join(root, "two.ir.json"), os.path.join(root, "two.h")
        a = run_cli(7, [fe, "--color-output", "never", "--output-file", irp, s["main"]], root)
        if a["rc"] != 0:
            return {"fe": a, "header": None}
        b = run_cli(11, [be, "--color-output", "never", "--input-file", irp, "--output-file", hp], root)
        return {"fe": a, "be": b, "header": open(hp).read() if os.path.exists(hp) else None}
    res = pool_map(go, sets)
    n = 0
    for s, r in zip(sets, res):
        one = embossc_results[s["name"]]
        chk.count()
        n += 1
        if r["header"] != one["header"] or (one["rc"] != 0) != (r["fe"]["rc"] != 0 or r.get("be", {}).get("rc", 0) != 0):
            chk.violation("input", {
                "input": {"files": minimal_files(s), "main": s["main"], "set": s["name"]},
                "observable": "header: one process (embossc) vs two (front end, back end)",
                "one_process": {"rc": one["rc"], "header_sha": sha(one["header"]), "stderr": one["stderr"][:800]},
                "two_process": {"fe_rc": r["fe"]["rc"], "be_rc": r.get("be", {}).get("rc"),
                                "header_sha": sha(r["header"]), "stderr": r["fe"]["stderr"][:800]},
                "expected": "identical header / identical accept-reject"}, key="twoproc:" + s["name"])
        elif one["rc"] != 0 and r["fe"]["stderr"] + r.get("be", {}).get("stderr", "") != one["stderr"]:
            # (a module rejected by the back end passes the front end silently: its
            # diagnostics come from the second process)
            chk.violation("input", {
                "input": {"files": minimal_files(s), "main": s["main"], "set": s["name"]},
                "observable": "diagnostics: embossc vs emboss_front_end + emboss_codegen_cpp",
                "one_process": one["stderr"][:1500],
                "two_process": (r["fe"]["stderr"] + r.get("be", {}).get("stderr", ""))[:1500],
                "expected": "identical stderr"}, key="twoproc:" + s["name"])
    chk.extra["two_process_compared"] = n


def sha(s):
    return hashlib.sha256(s.encode()).hexdigest()[:24] if s is not None else None


def import_dir_permutations(chk, r):
    """Identical copies of the imported files in several -I directories, every order."""
    fe = os.path.join(common.REPO, "compiler", "front_end", "emboss_front_end.py")
    root = os.path.join(common.scratch(), "idirs")
    dep = "struct Alpha:\n  0 [+1] bits:\n    0 [+4] UInt q\n"
    dep2 = 'import "a.emb" as a\nstruct Beta:\n  0 [+1] a.Alpha x\n'
    main = 'import "a.emb" as a\nimport "b.emb" as b\nstruct Main:\n  0 [+1] a.Alpha x\n  1 [+1] b.Beta y\n  let t = x.q + y.x.q\n'
    write_files(root, {"m.emb": main, "d1/a.emb": dep, "d2/a.emb": dep, "d3/a.emb": dep,
                       "d2/b.emb": dep2, "d3/b.emb": dep2, "d4/unrelated.emb": dep})
    perms = list(itertools.permutations(["d1", "d2", "d3", "d4"]))
    r.shuffle(perms)
    perms = perms[:3 if chk.tier == "quick" else 12]

    def go(p):
        argv = [fe, "--color-output", "never", "--output-ir-to-stdout"]
        for d in p:
            argv += ["--import-dir", d]
        return run_cli(0, argv + ["m.emb"], root)
    res = pool_map(go, perms)
    chk.count(len(perms))
    outs = set((x["rc"], x["stdout"], x["stderr"]) for x in res)
    if len(outs) > 1 or res[0]["rc"] != 0:
        chk.violation("input", {"input": {"layout": "a.emb in d1,d2,d3; b.emb in d2,d3 (identical copies)",
                                          "orders": [list(p) for p in perms]},
                                "observed": [{"rc": x["rc"], "stdout_sha": sha(x["stdout"]), "stderr": x["stderr"][:500]} for x in res],
                                "expected": "identical IR for every order of the import directories"},
                      key="importdirs")
    chk.extra["import_dir_orders"] = len(perms)


# ------------------------------------------------- repetition and history
def renaming_problem(fresh, hist):
    """None if `hist` is `fresh` up to an injective renaming of anonymous numbers."""
    if (fresh is None) != (hist is None):
        return "one is missing"
    if fresh is None:
        return None
    if ANON_RE.sub(r"\1#", fresh) != ANON_RE.sub(r"\1#", hist):
        return "texts differ beyond the anonymous numbers"
    fwd, bwd = {}, {}
    for a, b in zip(ANON_RE.findall(fresh), ANON_RE.findall(hist)):
        a, b = int(a[1]), int(b[1])
        if fwd.setdefault(a, b) != b:
            return "renaming is not a function: %d -> %d and %d" % (a, fwd[a], b)
        if bwd.setdefault(b, a) != a:
            return "renaming is not injective: %d and %d -> %d" % (bwd[b], a, b)
    return None


def per_module_translation_problem(fresh_ir, hist_ir):
    if fresh_ir is None or hist_ir is None:
        return None
    for mf, mh in zip(json.loads(fresh_ir).get("module", []), json.loads(hist_ir).get("module", [])):
        a = [int(x[1]) for x in ANON_RE.findall(json.dumps(mf))]
        b = [int(x[1]) for x in ANON_RE.findall(json.dumps(mh))]
        if len(a) != len(b) or len(set(y - x for x, y in zip(a, b))) > 1:
            return "module %r: numbering is not a translation" % mf.get("source_file_name")
    return None


def history_check(chk, sets, r):
    """M alone in a fresh process; elsewhere N1 … Nk, M, more N, M: the two later M's are
    identical to each other, and equal to the fresh one up to the renaming."""
    targets = [s for s in sets if s["name"] in ("anon-12", "anon-imports", "anon-cond-enum",
                                                "F6-expected-token-order", "F7-cycle-group-order",
                                                "import-cycles", "cpp-enum-case-bad", "empty")]
    targets += [s for s in sets if s["name"].startswith("gen:valid")][: 4 if chk.tier == "quick" else 20]
    others = [s for s in sets if s["name"].startswith(("gen:valid", "anon-") if chk.tier == "quick" else
                                                      ("gen:valid", "anon-", "testdata:"))]
    jobs = []
    for t in targets:
        pre = r.sample(others, min(len(others), r.randint(1, 4)))
        mid = r.sample(others, min(len(others), r.randint(0, 2)))
        seq = pre + [t] + mid + [t]
        jobs.append((t, [{"name": "x", "files": t["files"], "main": t["main"], "full": True}],
                     [dict(name=s["name"], files=s["files"], main=s["main"], full=(s is t)) for s in seq]))
    fresh = pool_map(lambda j: run_worker(3, {"sets": j[1]}), jobs)
    hist = pool_map(lambda j: run_worker(3, {"sets": j[2]}), jobs)
    shifted = 0
    for (t, _a, seq), fr, hi in zip(jobs, fresh, hist):
        f0 = fr["records"][0]
        hs = [rec for rec, s in zip(hi["records"], seq) if s["full"]]
        chk.count(2)
        base = {"input": {"files": minimal_files(t), "main": t["main"], "set": t["name"],
                          "history": [s["name"] for s in seq]}}
        # (1) repetition within one process: exact
        for ob in ("exc", "ir", "header", "errors", "errors_src", "prod_sha"):
            if hs[0].get(ob) != hs[1].get(ob):
                chk.violation("input", dict(base, observable=ob, expected="second compilation in the same process identical to the first",
                                            first=str(hs[0].get(ob))[:600], second=str(hs[1].get(ob))[:600]),
                              key="repeat:" + t["name"])
                break
        # (2) history: equal up to renaming; diagnostics exactly
        for ob in ("exc", "errors", "errors_src", "prod_sha"):
            if f0.get(ob) != hs[0].get(ob):
                chk.violation("input", dict(base, observable=ob, expected="diagnostics independent of earlier compilations",
                                            fresh=str(f0.get(ob))[:600], after_history=str(hs[0].get(ob))[:600]),
                              key="history:" + t["name"])
                break
        else:
            why = renaming_problem(f0.get("ir"), hs[0].get("ir")) or \
                renaming_problem(f0.get("header"), hs[0].get("header")) or \
                per_module_translation_problem(f0.get("ir"), hs[0].get("ir"))
            # the header's renaming must be the IR's
            if why is None and f0.get("ir") and f0.get("header"):
                why = renaming_problem(f0["ir"] + f0["header"], hs[0]["ir"] + hs[0]["header"])
            if why:
                chk.violation("input", dict(base, observable="IR/header vs fresh process",
                                            expected="identical up to an injective renaming of emboss_reserved_anonymous_field_N",
                                            observed=why), key="history:" + t["name"])
            elif f0.get("ir") != hs[0].get("ir"):
                shifted += 1
                chk.nontrivial("shifted:" + set_digest(t))
    chk.extra["history_cases"] = len(jobs)
    chk.extra["history_cases_with_shifted_numbers"] = shifted


# ------------------------------------------------ state machine vs the model
def text_of(tid, k, imports, ok):
    if not ok:
        return "-- %s\nstruct Str%s:\n  0 [+1] UInt\n" % (tid, tid)
    lines = ["-- %s" % tid] + ['import "%s" as i%d' % (f, i) for i, f in enumerate(imports)]
    lines.append("struct Str%s:" % tid)
    for i in range(k):
        lines += ["  %d [+1] bits:" % i, "    0 [+4] UInt a%d" % i]
    lines.append("  %d [+1] UInt z" % k)
    return "\n".join(lines) + "\n"


def gen_scenario(r, n_jobs):
    fnames = ["f%d.emb" % i for i in range(6)]
    texts = {}
    for i in range(14):
        ok = r.random() > 0.12
        imps = r.sample(fnames, r.choice([0, 0, 1, 1, 2, 3]))
        texts["T%d" % i] = {"ok": ok, "k": r.choice([0, 0, 1, 2, 3, 10]), "imports": imps}
    binding = {f: r.choice(sorted(texts)) for f in fnames}
    jobs = []
    for _ in range(n_jobs):
        if r.random() < 0.35:
            binding[r.choice(fnames)] = r.choice(sorted(texts))      # a file was edited
        b = dict(binding)
        if r.random() < 0.1:
            del b[r.choice(fnames)]                                   # a file is missing
        jobs.append((r.choice(fnames), b))
    return texts, jobs


def scenario_check(chk, tag, n_jobs, model_ok, only_job=None):
    r = common.rng(tag)
    texts, jobs = gen_scenario(r, n_jobs)
    sc_input = {"scenario_tag": tag, "n_jobs": n_jobs, "verif_seed": common.seed(), "jobs": [j[0] for j in jobs][:40]}
    real_text = {t: text_of(t, v["k"], v["imports"], v["ok"]) for t, v in texts.items()}
    sets = [{"name": "job%d" % i, "main": main, "files": {f: real_text[t] for f, t in b.items()}, "parse_only": True}
            for i, (main, b) in enumerate(jobs)]
    res = run_worker(5, {"sets": sets})
    real_lines = []
    for rec in res["records"]:
        if rec["exc"]:
            real_lines.append("exc " + rec["exc"])
        elif rec["err_sha"] != EMPTY_SHA:
            real_lines.append("err")
        else:
            parts = []
            for f, nums in rec["mods"]:
                if nums and nums != list(range(nums[0], nums[0] + len(nums))):
                    parts.append("%s@noncontiguous%s" % (f or "PRELUDE", nums))
                else:
                    parts.append("%s@%s+%d" % (f or "PRELUDE", nums[0] - 1 if nums else "?", len(nums)))
            real_lines.append("ok " + ",".join(parts))
    chk.count(len(jobs))
    # spec oracle, model-free: a sample of the jobs is also compiled alone in a fresh
    # interpreter; what the sequence produced must equal that up to an injective renaming
    def spec_problem(i):
        full = [dict(x, full=(j == i)) for j, x in enumerate(sets[: i + 1])]
        seq = run_worker(5, {"sets": full})["records"][i]
        fresh = run_worker(5, {"sets": [dict(sets[i], full=True)]})["records"][0]
        if seq.get("errors") != fresh.get("errors") or seq.get("exc") != fresh.get("exc"):
            return "diagnostics differ from a fresh process"
        return renaming_problem(fresh.get("ir"), seq.get("ir")) or per_module_translation_problem(fresh.get("ir"), seq.get("ir"))
    sample = r.sample(range(len(jobs)), 3 if chk.tier == "quick" else 6)
    if only_job is not None:
        sample = [only_job]
    for i in sample:
        why = spec_problem(i)
        chk.count()
        if why:
            chk.violation("input", {"input": dict(sc_input, job=i), "observed": why,
                                    "expected": "job result equal to a fresh-process compilation up to an injective renaming of anonymous numbers"},
                          key="scenario-history")
    if not model_ok:
        return
    ttab = ["PT:ok:0:PRELUDE"] + ["%s:%s:%d:%s" % (t, "ok" if v["ok"] else "err", v["k"], ",".join(["PRELUDE"] + v["imports"]))
                                  for t, v in sorted(texts.items())]
    jtab = ["%s~%s" % (main, ",".join(["PRELUDE=PT"] + ["%s=%s" % (f, t) for f, t in sorted(b.items())])) for main, b in jobs]
    line = "RUN %s;%s" % ("|".join(ttab), "/".join(jtab))
    ans = common.Model("model_c17").ask([line])[0]
    model_lines = []
    for part in ans.split(" / "):
        part = re.sub(r" ctr=\d+$", "", part)
        if part.startswith("err"):
            part = "err"
        model_lines.append(re.sub(r"@\d+\+0\b", "@?+0", part))
    chk.extra["traces_validated_against_impl"] = chk.extra.get("traces_validated_against_impl", 0) + len(jobs)
    for i, (a, b) in enumerate(zip(model_lines, real_lines)):
        if a != b:
            chk.extra["disagreements"] = chk.extra.get("disagreements", 0) + 1
            why = spec_problem(i)
            chk.violation("input" if why else "correspondence", {
                "input": dict(sc_input, job=i), "op": line[:3000], "job": i, "model": a, "observed": b,
                "theorem_or_correspondence": "model_c17 RUN vs glue.parse_emboss_file numbering over a job sequence",
                "expected": why or "the job's result equals a fresh-process compilation up to an injective renaming; only the model differs"},
                found_input=bool(why))
            break
    kinds = chk.extra.setdefault("scenario_job_kinds", {})
    for ln in real_lines:
        k = ln.split(" ")[0]
        kinds[k] = kinds.get(k, 0) + 1
    if any("+10" in ln for ln in real_lines):
        chk.nontrivial("scenario:%s" % hashlib.sha256(line.encode()).hexdigest()[:12])


def small_models_check(chk, r, model_ok):
    """FIND vs the real directory search; SORT/MIN/MAX/ONLY/KEYS vs Python's builtins."""
    root = os.path.join(common.scratch(), "find")
    dirs = ["e0", "e1", "e2", "e3"]
    queries, lines = [], []
    n = 12 if chk.tier == "quick" else 60
    for q in range(n):
        fname = "q%d.emb" % q
        present = [d for d in dirs if r.random() < 0.5]
        identical = r.random() < 0.6
        binds = {}
        for d in present:
            binds[d] = "T" if identical else r.choice(["T", "U", "V"])
            write_files(root, {os.path.join(d, fname): binds[d]})
        order = dirs[:]
        r.shuffle(order)
        order = order[: r.randint(1, 4)]
        queries.append({"dirs": [os.path.join(root, d) for d in order], "file": fname,
                        "order": order, "binds": binds, "identical": identical})
        lines.append("FIND %s;%s;%s" % (fname, ",".join(order), ",".join("%s=%s" % kv for kv in sorted(binds.items()))))
    for d in dirs:
        os.makedirs(os.path.join(root, d), exist_ok=True)
    res = run_worker(0, {"sets": [], "finddirs": [{"dirs": q["dirs"], "file": q["file"]} for q in queries]})
    real = ["some " + x["text"] if x.get("text") is not None else "none" for x in res["finddirs"]]
    for q, got in zip(queries, real):
        chk.count()
        have = [q["binds"][d] for d in q["order"] if d in q["binds"]]
        want = ("some " + have[0]) if have else "none"          # spec: first directory that has it
        if q["identical"] and have and got != "some T":
            want = "some T"
        if got != want:
            chk.violation("input", {"input": {"order": q["order"], "present": q["binds"]}, "observed": got,
                                    "expected": want}, key="finddirs")
    py = []
    pl = []
    for _ in range(40 if chk.tier == "quick" else 400):
        l = [r.randint(0, 30) for _ in range(r.randint(0, 7))]
        s = ",".join(map(str, l))
        pl += ["SORT " + s, "MIN " + s, "MAX " + s, "ONLY " + s, "KEYS " + s]
        py += ["sorted " + ",".join(map(str, sorted(l))),
               "some %d" % min(l) if l else "none", "some %d" % max(l) if l else "none",
               "some %d" % l[0] if len(l) == 1 else "none",
               "keys " + ",".join(map(str, dict.fromkeys(l)))]
    if model_ok:
        ans = common.Model("model_c17").ask(lines + pl)
        for op, a, b in zip(lines + pl, ans, real + py):
            chk.count()
            if a != b:
                chk.extra["disagreements"] = chk.extra.get("disagreements", 0) + 1
                chk.violation("correspondence", {"op": op, "model": a, "observed": b,
                                                 "theorem_or_correspondence": "model_c17 small models vs real code / Python builtins",
                                                 "expected": "real behaviour matches the spec; the model differs"}, found_input=False)


# ------------------------------------------------------- generator purity
def generator_purity(chk, seeds):
    """The parser generator (lr1 over sets) must emit the same tables for every seed, and
    the checked-in tables must be those (otherwise the 'stale cached parser' warning —
    listed in set order — becomes reachable)."""
    mod = os.path.join(common.REPO, "compiler", "front_end", "generate_cached_parser.py")
    if not os.path.exists(mod):
        chk.extra["generator_purity"] = "skipped: generate_cached_parser.py not found"
        return []

    def go(sd):
        return run_cli(sd, ["-m", "compiler.front_end.generate_cached_parser"], common.REPO, timeout=1500)
    return [(sd, concurrent.futures.ThreadPoolExecutor(max_workers=1).submit(go, sd)) for sd in seeds]


def finish_generator_purity(chk, futs):
    if not futs:
        return
    res = [(sd, f.result()) for sd, f in futs]
    chk.count(len(res))
    outs = set(r["stdout"] for _, r in res)
    if any(r["rc"] != 0 for _, r in res):
        chk.extra["generator_purity"] = "generator failed: " + res[0][1]["stderr"][-300:]
        return
    if len(outs) > 1:
        chk.violation("input", {"input": "python -m compiler.front_end.generate_cached_parser", "seeds": [sd for sd, _ in res],
                                "observed": {str(sd): sha(r["stdout"]) for sd, r in res},
                                "expected": "identical generated parser for every PYTHONHASHSEED"}, key="generator-hashseed")
        return
    try:
        with open(os.path.join(common.REPO, "compiler", "front_end", "generated", "cached_parser.py")) as f:
            shipped = f.read()
    except OSError:
        shipped = None
    chk.extra["generator_purity"] = {"seeds": [sd for sd, _ in res], "sha": sha(res[0][1]["stdout"]),
                                     "equals_checked_in_tables": shipped == res[0][1]["stdout"]}


# --------------------------------------------------------------------- entry
def all_sets(tier, r):
    corpus = load_corpus()
    td, td_files = testdata_sets()
    gen = gen_sets(r, 8 if tier == "quick" else 40, 16 if tier == "quick" else 120, td_files)
    if tier == "quick":
        td = r.sample(td, min(len(td), 14))      # the whole directory in the thorough tier
    # large-collection sets, every feature of harness/corr/c17_gen.py
    gen += c17_gen.rich_sets(r, None, rounds=1 if tier == "quick" else 3,
                             size=(6, 16) if tier == "quick" else (8, 24))
    return corpus, td, gen


def stale_parser_run(seeds):
    """The compiler with a STALE cached parser (grammar of module_ir.py and the checked-in
    tables disagree): a scratch copy of $VERIF_REPO/compiler whose module_ir.py has a few more
    productions (unreachable non-terminals) and whose cached tables list a few productions
    module_ir.py does not have — nothing regenerated.  embossc then warns, lists the new and the
    missing productions, builds the parser on the fly (lr1 over sets) and compiles.  rc, stdout,
    stderr and header must not depend on PYTHONHASHSEED.  Returns (info, violation detail or None)."""
    import shutil
    root = os.path.join(common.scratch(), "stale")
    if os.path.exists(root):
        shutil.rmtree(root)
    shutil.copytree(os.path.join(common.REPO, "compiler"), os.path.join(root, "compiler"),
                    ignore=shutil.ignore_patterns("*_test.py", "__pycache__", "testdata"))
    shutil.copy(os.path.join(common.REPO, "embossc"), os.path.join(root, "embossc"))
    new_words = ["orchid", "basalt", "quiver", "tundra", "marble"]
    gone_words = ["falcon", "cobalt", "meadow", "spruce"]
    mp = os.path.join(root, "compiler", "front_end", "module_ir.py")
    src = open(mp).read()
    marker = "\n_finalize_grammar()\n"
    cp = os.path.join(root, "compiler", "front_end", "generated", "cached_parser.py")
    csrc = open(cp).read()
    if marker not in src or "  productions=prods," not in csrc:
        return "skipped: module_ir.py / cached_parser.py do not have the expected shape", None
    add = "".join('\n@_handles(\'verif-%s -> "$verif_%s" verif-%s-tail*\')\ndef _verif_%s(a, b):\n    return a\n'
                  '\n@_handles(\'verif-%s-tail -> "$verif_%s_tail"\')\ndef _verif_%s_tail(a):\n    return a\n' % ((w,) * 7)
                  for w in new_words)
    with open(mp, "w") as f:
        f.write(src.replace(marker, "\n" + add + marker, 1))
    gone = ", ".join('P("verif-%s", (\'"$gone_%s"\',))' % (w, w) for w in gone_words)
    with open(cp, "w") as f:
        f.write(csrc.replace("  productions=prods,", "  productions=prods | {%s}," % gone, 1))
    work = os.path.join(root, "work")
    files = {"t.emb": '[$default byte_order: "LittleEndian"]\nenum Kind:\n  AA = 1\n  BB = 2\nstruct Tt:\n'
                      '  0 [+1]  bits:\n    0 [+4]  UInt  lo\n    4 [+4]  UInt  hi\n  1 [+1]  Kind  kind\n'
                      '  if kind == Kind.AA:\n    2 [+2]  UInt  extra\n  let total = lo + hi\n'}
    write_files(work, files)

    def go(sd):
        env = env_for(sd)
        env["PYTHONPATH"] = root
        out = os.path.join(work, "out-%s" % sd)
        p = subprocess.run([sys.executable, os.path.join(root, "embossc"), "--color-output", "never", "--output-path", out,
                            "t.emb"], env=env, cwd=work, stdout=subprocess.PIPE, stderr=subprocess.PIPE, timeout=3000)
        hp = os.path.join(out, "t.emb.h")
        return {"rc": p.returncode, "stdout": p.stdout.decode(errors="replace"), "stderr": p.stderr.decode(errors="replace"),
                "header": open(hp).read() if os.path.exists(hp) else None}
    first = go(seeds[0])                       # also fills the byte-code cache for the copy
    res = [first] + pool_map(go, seeds[1:])
    took = "Cached parser does not match" in first["stderr"]
    info = {"seeds": list(seeds), "warning_shown": took, "rc": first["rc"],
                                 "new_productions_listed": first["stderr"].count("New production"),
            "missing_productions_listed": first["stderr"].count("Missing production"),
                                 "stderr_lines": first["stderr"].count("\n")}
    for ob in ("rc", "stdout", "stderr", "header"):
        if len(set(json.dumps(x[ob]) for x in res)) > 1:
            other = [x for x in res if x[ob] != first[ob]][0]
            return info, {
                "input": {"files": files, "main": "t.emb", "set": "stale-cached-parser",
                          "compiler_edit": {"compiler/front_end/module_ir.py": "inserted before the call `_finalize_grammar()`:" + add,
                                            "compiler/front_end/generated/cached_parser.py":
                                                "first `productions=prods,` -> `productions=prods | {%s},`" % gone}},
                "observable": "embossc " + ob, "seeds": list(seeds),
                "by_seed": {str(sd): (x[ob] or "")[:3000] if isinstance(x[ob], str) else x[ob] for sd, x in zip(seeds, res)},
                "first_difference": first_difference(first[ob], other[ob]) if isinstance(first[ob], str) else None,
                "expected": "byte-identical across PYTHONHASHSEED values (compiler whose cached parser is stale)",
                "where": "stale cached parser"}
    return info, None


def stale_parser_check(chk, seeds):
    info, bad = stale_parser_run(seeds)
    chk.extra["stale_parser"] = info
    chk.count(len(seeds))
    if isinstance(info, dict) and info.get("warning_shown"):
        chk.nontrivial("stale-cached-parser")
    if bad:
        chk.violation("input", bad, key="hashseed:stale-cached-parser")
        return 1
    return 0


def site_targets(keys):
    """(file suffix, innermost function name) of each site key, for the worker's call trace."""
    out = []
    for k in keys:
        f, fn = k.split(":")[:2]
        t = [f, fn.split(".")[-1]]
        if t not in out:
            out.append(t)
    return out


def search(chk):
    """Lean obligations broken (typically: a new unmatched iteration site).  Model-free.
    (1) AIMED: every unmatched site names a file:function; harness/corr/c17_gen.AIM maps it to the
        generator features whose collections that function consumes.  Large source sets of those
        features are generated, one traced worker (sys.setprofile) tells which of them really CALL
        the function, and those are swept over the hash seeds first (texts kept, so the record
        shows the first differing line).  Sites on the parser-generation path are aimed at with a
        compiler whose cached parser is stale.
    (2) BROAD (if (1) found nothing): the former search — corpus, testdata, generated and
        malformed sets over the seeds, then embossc on the pinned inputs."""
    r = common.rng("C17-search")
    run_worker(0, {"sets": []})          # warm the byte-code cache
    seeds = list(range(8)) if chk.tier == "quick" else list(range(24))
    sites, _stale = itersites.analyse()
    unmatched = [s["key"] for s in sites if s["pattern"] == "unmatched"]
    found = 0
    if unmatched:
        feats = []
        for k in unmatched:
            for f in c17_gen.features_for_site(k):
                if f not in feats:
                    feats.append(f)
        targets = site_targets(unmatched)
        aim = {"unmatched_sites": unmatched, "features": feats, "targets": targets}
        chk.extra["search_aim"] = aim
        gen_feats = [f for f in feats if f in c17_gen.GEN]
        if feats[:1] == ["stale-parser"]:       # the site is on the parser-generation path: that scenario first
            found = stale_parser_check(chk, seeds[:4])
        if gen_feats and not found:
            rounds = max(1, (6 if chk.tier == "quick" else 30) // len(gen_feats))
            aimed = c17_gen.rich_sets(r, gen_feats, rounds=rounds, size=(8, 20) if chk.tier == "quick" else (10, 30),
                                      prefix="aim")
            live = [t for t in targets if t[1] != "<module>"]
            if live:
                tr = run_worker(0, {"sets": [dict(name=s["name"], files=s["files"], main=s["main"]) for s in aimed],
                                    "trace": live})
                reach = [any(rec.get("reached") or []) for rec in tr["records"]]
            else:
                reach = [True] * len(aimed)
            aim["aimed_sets"] = len(aimed)
            aim["aimed_sets_calling_the_function"] = sum(reach)
            hot = [s for s, h in zip(aimed, reach) if h]
            cold = [s for s, h in zip(aimed, reach) if not h]
            # a collection of k >= 3 strings keeps one order over s seeds with probability ~(1/k!)^(s-1):
            # four seeds (one wave of workers) first, the other seeds only if nothing showed
            for sds in (seeds[:4], seeds[4:]):
                if hot and not found:
                    found = sweep(chk, hot, sds, "search aimed at " + ", ".join(":".join(t) for t in targets)[:300], full=True)
            if not found and cold:
                found = sweep(chk, cold[:24], seeds[:4], "search (aimed features, function not called)", full=True)
        if not found and "stale-parser" in feats[1:]:
            found = stale_parser_check(chk, seeds[:4])
    if found:
        return found
    corpus, td, gen = all_sets(chk.tier, r)
    found = sweep(chk, corpus + td + gen, seeds, "search")
    if not found:
        before = len(chk.violations)
        cli_sweep(chk, corpus[:10], seeds[:6])
        found = len(chk.violations) - before
    return found


def run(tier):
    global JOBS
    JOBS = int(os.environ.get("VERIF_JOBS", "4"))
    chk = common.Check(PROP, tier, exes=["model_c17"])
    chk.cov["rule"] = ("distinct source sets (by content) that are rejected with a multi-line diagnostic, or accepted "
                       "with anonymous fields or ≥2 imported modules; plus history cases whose numbering was really "
                       "shifted and job sequences that reached two-digit numbering")
    chk.trusted += [
        "CPython: set/dict iteration order is a function of PYTHONHASHSEED and insertion history; dicts iterate in insertion order",
        "harness/translate/itersites.py: the may-be-a-set inference and the site classifier (over-approximating, not proved complete)",
        "harness/translate/itersites_allow.json: reviewed exceptions (pattern `allowed`)",
        "byte-code cache (PYTHONPYCACHEPREFIX in scratch) gives the same code as compiling the sources",
    ]
    chk.assumptions += [
        "later stages (process_ir passes, JSON serialiser, header generator, error formatter) are functions of the parsed modules that commute with injective renamings of the anonymous names; sampled by the history runs, not proved",
        "the hash-seed sweep samples seeds; an order dependence among k elements is missed with probability ≤ (1/k!)^(seeds-1) per site reached",
    ]
    # Tie T
    sites, stale, changed = itersites.regenerate()
    pats = {}
    for s in sites:
        pats[s["pattern"]] = pats.get(s["pattern"], 0) + 1
    chk.extra["iteration_sites"] = {"total": len(sites), "by_pattern": pats, "table_changed": changed,
                                    "unmatched": [s["key"] for s in sites if s["pattern"] == "unmatched"],
                                    "allowed_on_compile_path": [s["key"] for s in sites if s["pattern"] == "allowed" and
                                                                s["on_compile_path"]],
                                    "allowed_off_compile_path": sum(1 for s in sites if s["pattern"] == "allowed" and
                                                                    not s["on_compile_path"]),
                                    "stale_allow_entries": stale}
    model_ok = common.proof_gate(chk, search)
    r = common.rng("C17")
    corpus, td, gen = all_sets(tier, r)
    chk.extra["source_sets"] = {"corpus": len(corpus), "testdata": len(td), "generated": len(gen)}
    gen_futs = generator_purity(chk, [0, 1] if tier == "quick" else [0, 1, 2, 3])
    run_worker(0, {"sets": []})          # warm the byte-code cache before going parallel
    # pinned inputs of open findings
    for k in chk.known:
        if k.get("property") == PROP and k.get("status") == "open":
            pass    # none at present; violations route through chk.violation(key=...)
    seeds = [0, 1, 2, 3, 4, 5] if tier == "quick" else list(range(24))
    chk.extra["hash_seeds"] = seeds
    tm = chk.extra.setdefault("phase_seconds", {})
    t0 = time.time()

    def lap(name):
        nonlocal t0
        tm[name] = round(time.time() - t0, 1)
        t0 = time.time()
    sweep(chk, corpus + td + gen, seeds, "in-process batch")
    lap("sweep")
    cli_sets = [s for s in corpus if s["name"] in (
        "F6-expected-token-order", "F7-cycle-group-order", "anon-imports", "import-missing", "cpp-enum-case-bad")]
    # one large generated set per accepted-feature through the real CLI as well
    cli_sets += [s for s in gen if s["name"] in ("rich:imports:0.0",)]
    if tier == "thorough":
        cli_sets = corpus + td[:6] + [s for s in gen if s["name"].startswith("rich:") and s["name"].endswith(":0.0")]
    cli_seeds = [0, 1, 2] if tier == "quick" else list(range(6))
    cli_res = cli_sweep(chk, cli_sets, cli_seeds)
    lap("cli_sweep")
    two_process(chk, cli_sets if tier == "thorough" else cli_sets[1:5], cli_res)
    lap("two_process")
    import_dir_permutations(chk, r)
    lap("import_dirs")
    history_check(chk, corpus + td + gen, r)
    lap("history")
    for i in range(1 if tier == "quick" else 5):
        scenario_check(chk, "C17-scenario-%d" % i, 60 if tier == "quick" else 150, model_ok)
    lap("scenarios")
    small_models_check(chk, r, model_ok)
    lap("small_models")
    if tier == "thorough":
        stale_parser_check(chk, [0, 1, 2])
        lap("stale_parser")
    finish_generator_purity(chk, gen_futs)
    lap("generator_wait")
    return chk.finish()


def replay(path):
    with open(path) as f:
        rec = json.load(f)
    inp = rec.get("input")
    if isinstance(inp, dict) and "scenario_tag" in inp:
        os.environ["VERIF_SEED"] = str(inp.get("verif_seed", 0))
        chk = common.Check(PROP, "quick")
        scenario_check(chk, inp["scenario_tag"], inp["n_jobs"], False, only_job=inp.get("job"))
        print("job sequence %s (%d jobs) re-executed: %d violation(s) of the fresh-process oracle" % (
            inp["scenario_tag"], inp["n_jobs"], len(chk.violations)))
        return 1 if chk.violations else 0
    if isinstance(inp, dict) and "files" in inp and str(rec.get("key", "")).startswith(("repeat:", "history:")):
        me = {"name": "replay", "files": inp["files"], "main": inp["main"], "full": True}
        pre = [s for s in load_corpus() if s["name"] == "anon-12"]
        fresh = run_worker(3, {"sets": [me]})["records"][0]
        hist = [x for x in run_worker(3, {"sets": [dict(p, full=False) for p in pre] + [me, me]})["records"] if x["name"] == "replay"]
        same = all(hist[0].get(k) == hist[1].get(k) for k in ("exc", "ir", "header", "errors", "errors_src"))
        why = renaming_problem(fresh.get("ir"), hist[0].get("ir")) or renaming_problem(fresh.get("header"), hist[0].get("header")) \
            or (None if fresh.get("errors") == hist[0].get("errors") else "diagnostics differ")
        print("second compilation in the same process identical to the first:", same)
        print("after history (anon-12 first) vs fresh process:", why or "equal up to an injective renaming")
        return 0 if same and not why else 1
    if isinstance(inp, dict) and inp.get("set") == "stale-cached-parser":
        info, bad = stale_parser_run(rec.get("seeds") or [0, 1, 2, 3])
        print("compiler with a stale cached parser (scratch copy of %s, edits as recorded), embossc t.emb under seeds %s: %s" % (
            common.REPO, rec.get("seeds"), json.dumps(info)))
        if bad:
            print("differs in %s: %s" % (bad["observable"], json.dumps(bad["first_difference"])[:800]))
        print("identical across seeds:", bad is None)
        return 1 if bad else 0
    if not isinstance(inp, dict) or "files" not in inp:
        print("nothing to re-execute for this record kind:", rec.get("kind"), json.dumps(inp)[:400])
        return 0
    seeds = rec.get("seeds") or [0, 1, 2, 3, 4, 5]
    job = {"sets": [{"name": "replay", "files": inp["files"], "main": inp["main"], "full": True}]}
    if inp.get("history"):
        print("history of the recorded case:", inp["history"])
    outs = {}
    for sd in seeds:
        rr = run_worker(sd, job)["records"][0]
        outs[sd] = rr
        print("PYTHONHASHSEED=%s exc=%s ir=%s header=%s errors=%r" % (
            sd, rr["exc"], sha(rr.get("ir")), sha(rr.get("header")), (rr.get("errors") or "")[:400]))
    same = len(set(json.dumps([o.get("exc"), o.get("ir"), o.get("header"), o.get("errors"), o.get("errors_src")])
                   for o in outs.values())) == 1
    print("identical across seeds:", same)
    return 0 if same else 1
