"""C06: the repository's own testdata/*.emb through the text round trip.

No generator knowledge here: for every struct (structs with runtime parameters of integer or
enum type included: a few parameter tuples each) a generic driver tries a set of buffers (zero /
pattern / random fill, many sizes); for those whose view is Ok it does WriteToString,
UpdateFromText into a zeroed buffer of the same size (same parameters), and WriteToString again.
Oracle (statement): UpdateFromText returns true and the second text equals the first (all emitted
fields read back equal ⇒ same text); every field name in the text stands after the names it
depends on, the dependencies being read off the parsed source (c06_deps, transitively through
virtual fields) — at every struct level.  Multi-line texts containing an array with two or more
elements are only counted (open finding `multiline-array-elements-not-comma-separated`).
`corpus/C06/*.emb` (hand-written dependency shapes, pinned inputs of repaired findings) run in
both tiers.

`# C06-PARTIAL struct=… buffer=… unreadable=… text=…` lines of a corpus file pin a buffer whose
view is not Ok by content together with the hand-written expectation for
WriteToString(view, options.WithAllowPartialOutput(true)): see run_partial_annotations.
"""
import os
import re

from harness.lib import common, cppbuild, emb
from harness.corr import c06_int as I
from harness.corr import c06_txt as T
from harness.corr import c06_deps as D

QUICK_FILES = ["text_format.emb", "dynamic_size.emb", "anonymous_bits.emb"]
SKIP_FILES = {"importer.emb", "importer2.emb", "no_enum_traits.emb", "no_cpp_namespace.emb",
              "absolute_cpp_namespace.emb"}

RUN = r"""
template <class Make>
static void RunCorpus(Make make, int multiline, int comments, int base, int grouping, const std::string &bytes,
                      bool partial) {
  size_t n = bytes.size();
  std::unique_ptr<unsigned char[]> b1(new unsigned char[n]);
  std::unique_ptr<unsigned char[]> b2(new unsigned char[n]);
  std::memcpy(b1.get(), bytes.data(), n);
  std::memset(b2.get(), 0, n);
  auto v = make(b1.get(), n);
  bool ok = v.Ok();
  std::cout << "ok=" << ok;
  ::emboss::TextOutputOptions o;
  o = o.Multiline(multiline != 0).WithComments(comments != 0).WithNumericBase(static_cast<uint8_t>(base))
       .WithDigitGrouping(grouping != 0);
  if (multiline) o = o.WithIndent("  ");
  if (partial) {
    // allow_partial_output on a pinned buffer (`P!` lines); WriteToString without the flag is
    // documented to CHECK-fail on a view that is not Ok and is never called on one
    std::cout << " ptext=" << Hex(::emboss::WriteToString(v, o.WithAllowPartialOutput(true))) << "\n";
    return;
  }
  if (!ok) { std::cout << "\n"; return; }
  std::string text = ::emboss::WriteToString(v, o);
  std::cout << " text=" << Hex(text) << std::flush;
  auto w = make(b2.get(), n);
  bool upd = ::emboss::UpdateFromText(w, text);
  std::string text2 = ::emboss::WriteToString(w, o);
  std::cout << " upd=" << upd << " text2=" << Hex(text2) << "\n";
}
"""


def candidates(r, tier):
    sizes = list(range(0, 41)) + [48, 64, 100, 128, 256, 1024]
    out = []
    for n in sizes:
        out.append(bytes(n))
        if n and n <= 64:
            out.append(bytes([1]) * n)
            out.append(bytes([n & 0xff]) + bytes(n - 1))
        if n and n <= 16:
            out.append(bytes([0xff]) * n)          # sign bits set: negative Int / signed enum values
            out.append(bytes([0x80]) * n)
            out.append(bytes([1]) + bytes([0xfb, 0xff] * n)[:n - 1])
    for _ in range(30 if tier == "quick" else 300):
        n = r.choice(sizes[:48])
        out.append(bytes(r.randrange(256) if r.random() < 0.5 else r.choice([0, 1, 2, 3]) for _ in range(n)))
    return out


PARAM_VALUES = [0, 1, 2, 3, 10, 23, -1]
_BOUNDS = {}      # (namespace, struct) -> [None | (min, max) per parameter]: declared range of integer parameters


def param_kinds(t, ns):
    """[(kind, C++ cast)] for the runtime parameters of a type, None if some parameter is of a kind
    the generic driver cannot supply."""
    out = []
    bounds = _BOUNDS.setdefault((ns, t["name"]["name"]["text"]), [])
    del bounds[:]
    for prm in t.get("runtime_parameter", []):
        ty = prm.get("type", {})
        if "enumeration" in ty:
            path = ty["enumeration"]["name"]["canonical_name"]["object_path"]
            out.append("static_cast<::%s::%s>" % (ns, "::".join(path)))
            bounds.append(None)
        elif "integer" in ty:
            out.append("static_cast<long long>")
            try:
                bounds.append((int(ty["integer"]["minimum_value"]), int(ty["integer"]["maximum_value"])))
            except (KeyError, ValueError):
                bounds.append(None)
            continue
        else:
            return None
    return out


def param_tuples(n, r, bounds=None):
    """A few parameter tuples; integer parameters stay inside their declared range."""
    if n == 0:
        return [()]
    bounds = bounds or [None] * n

    def fit(v, b):
        return v if b is None or b[0] <= v <= b[1] else max(b[0], min(b[1], v))
    out = [tuple(fit(v, b) for b in bounds) for v in PARAM_VALUES]
    for _ in range(6):
        out.append(tuple(fit(r.choice(PARAM_VALUES), b) for b in bounds))
    seen, uniq = set(), []
    for t in out:
        if t not in seen:
            seen.add(t)
            uniq.append(t)
    return uniq


def partial_annotations(text):
    """`# C06-PARTIAL struct=… buffer=… unreadable=… text=…` lines of a corpus file: hand-written
    expectations for allow_partial_output on a buffer whose view is not Ok by content."""
    out = []
    for m in re.finditer(r"^# C06-PARTIAL struct=(\S+) buffer=([0-9a-f]*) unreadable=(\S+) text=(.*)$", text, re.M):
        labels = []
        for lab in ([] if m.group(3) == "-" else m.group(3).split(",")):
            mi = re.match(r"^\[(\d+)\]$", lab)
            labels.append(("idx", int(mi.group(1))) if mi else lab)
        out.append({"struct": m.group(1), "buffer": m.group(2), "unreadable": labels, "text": m.group(4).strip()})
    return out


def normal_form(parsed):
    """Parsed text with numbers by value (any base / digit grouping), `{ }` as an aggregate
    without members, array elements as (index, value)."""
    if parsed[0] == "tok":
        v = I.ref_value(parsed[1])
        return ("tok", parsed[1] if v is None else v)
    if parsed[0] == "empty":
        return ("aggregate", ())
    if parsed[0] == "array":
        return ("aggregate", tuple((i, normal_form(x)) for i, x in parsed[1]))
    return ("aggregate", tuple((n, normal_form(x)) for n, x in parsed[1]))


def run_partial_annotations(chk, stats, origin, text, table, binary, annotations, known_structs):
    """The pinned not-Ok-by-content buffers of a corpus file under the PARTIAL_OPTS option sets."""
    lines, meta = [], []
    for a in annotations:
        if a["struct"] not in known_structs:
            raise common.InfraError("%s: C06-PARTIAL names an unknown struct %s" % (origin, a["struct"]))
        try:
            want = normal_form(T.parse_text(a["text"])[0])
        except T.ParseError as e:
            raise common.InfraError("%s: C06-PARTIAL expectation does not parse (%s): %s" % (origin, e, a["text"]))
        for opt in T.PARTIAL_OPTS:
            lines.append("P!%s %d %d %d %d %s" % ((a["struct"],) + opt + (a["buffer"] or "-",)))
            meta.append((a, opt, want))
    if not lines:
        return
    res = cppbuild.run(binary, "\n".join(lines) + "\n", timeout=900)
    if res.kind != "ok":
        out = crash_records(chk, binary, lines, res, origin, text, table)
    else:
        out = res.out.split("\n")[:-1]
    reported = set()
    for ln, (a, opt, want), ans in zip(lines, meta, out):
        if ans is None:
            continue
        chk.count()
        stats["partial_by_content_pinned_cases"] = stats.get("partial_by_content_pinned_cases", 0) + 1
        chk.nontrivial("td/%s/%s/not-ok-by-content/%s/%r" % (origin, a["struct"], a["buffer"], opt))
        kv = dict(x.split("=", 1) for x in ans.split(" ") if "=" in x)
        m, c, _b, _g = opt
        got_text = I.unhex(kv.get("ptext", ""))
        problems = []
        if kv.get("ok") != "0":
            problems.append("the view is Ok(), the annotation says it is not")
        if "ptext" not in kv:
            problems.append("no text produced")
        cnt = got_text.count("UNREADABLE")
        if not c and cnt:
            problems.append("UNREADABLE mentioned although comments are off")
        if c and cnt != len(a["unreadable"]):
            problems.append("comments are on: %d UNREADABLE comments, %d unreadable atomic fields %r" % (
                cnt, len(a["unreadable"]), a["unreadable"]))
        if c and m and sorted(map(repr, T.unreadable_labels(got_text))) != sorted(map(repr, a["unreadable"])):
            problems.append("UNREADABLE comments name %r, expected %r" % (T.unreadable_labels(got_text), a["unreadable"]))
        if cnt:
            stats["partial_by_content_pinned_unreadable_comment"] = \
                stats.get("partial_by_content_pinned_unreadable_comment", 0) + 1
        if (m, c) != T.LAYOUT_NOT_RR and "ptext" in kv:
            try:
                parsed, _ = T.parse_text(got_text)
            except T.ParseError as e:
                parsed = None
                problems.append("text does not parse: %s" % e)
            if parsed is not None:
                if normal_form(parsed) != want:
                    problems.append("the text denotes %r, expected %r" % (normal_form(parsed), want))
                D.check_text(table, D.find_struct(table, a["struct"]), parsed, "", problems, stats)
        if not problems:
            continue
        sig = (a["struct"], problems[0][:40])
        if sig in reported:
            continue
        reported.add(sig)
        chk.violation("input", {
            "part": "TXT", "origin": origin, "emb": text, "struct": a["struct"], "buffer": a["buffer"], "parameters": [],
            "options": dict(zip(("multiline", "comments", "base", "grouping"), opt)), "allow_partial_output": True,
            "text": got_text, "observed": ["PARTIAL-CONTENT (pinned): " + p for p in problems[:6]],
            "expected": "allow_partial_output on a view that is not Ok by content: " + a["text"] +
                        " ; UNREADABLE comments (iff comments are on) for " + repr(a["unreadable"])})


def corpus_files(tier):
    d = os.path.join(common.REPO, "testdata")
    names = QUICK_FILES if tier == "quick" else sorted(f for f in os.listdir(d) if f.endswith(".emb"))
    out = [("testdata/" + fn, os.path.join(d, fn)) for fn in names if fn not in SKIP_FILES]
    cd = os.path.join(common.VERIF, "corpus", "C06")
    if os.path.isdir(cd):
        out += [("corpus/C06/" + fn, os.path.join(cd, fn)) for fn in sorted(os.listdir(cd)) if fn.endswith(".emb")]
    return out


def crash_records(chk, binary, lines, res, origin, text, table):
    """Locates the failing line(s) of an abnormally ended driver run, reports each with the
    module, struct, buffer, parameters, options and the text written so far (judged for emission
    order).  Returns the per-line answers of the structs that ran cleanly."""
    answers, crashes = T.isolate_crashes(binary, lines, res)
    for bad, one in crashes:
        rec = {"part": "TXT", "origin": origin, "emb": text,
               "observed": ["%s: %s" % (one.kind, one.err[-1500:])],
               "expected": "no sanitizer report / failed CHECK; every field after the fields it depends on"}
        rec.update(T.line_fields(bad))
        if str(rec.get("struct", "")).startswith("P!"):
            rec["struct"], rec["allow_partial_output"] = rec["struct"][2:], True      # pinned not-Ok buffer
        if bad:
            rec["parameters"] = [int(x) for x in bad.split(" ")[6:]]
            import re as _re
            m = _re.search(r"text=([0-9a-f]*)", one.out or "")
            if m:
                rec["text"] = I.unhex(m.group(1))
                try:
                    parsed, _ = T.parse_text(rec["text"])
                    D.check_text(table, D.find_struct(table, rec["struct"]), parsed, "", rec["observed"])
                except T.ParseError:
                    rec["observed"].append("text does not parse")
        chk.violation("input", rec)
    return answers


def run_corpus(chk, tier):
    r = common.rng("C06-corpus")
    stats = chk.extra.setdefault("testdata_corpus", {})
    scratch = os.path.join(common.scratch(), "c06corpus")
    os.makedirs(scratch, exist_ok=True)
    jobs, metas = [], []
    ns_of, annotations = {}, {}
    for origin, path in corpus_files(tier):
        fn = os.path.basename(path)
        with open(path) as f:
            text = f.read()
        m = re.search(r'\[\(cpp\) namespace:\s*"([^"]+)"\]', text)
        if not m:
            continue
        ns = m.group(1).strip(":")
        ns_of[origin] = ns
        ir, errors, exc = emb.compile_text({"m.emb": text})
        if ir is None or errors or exc:
            stats["not_compiled"] = stats.get("not_compiled", 0) + 1
            continue
        header, herr = emb.generate_header(ir)
        if header is None or herr:
            continue
        dct = emb.ir_to_dict(ir)
        table = D.module_table(dct)
        structs = []          # (name, [casts])
        for t in dct["module"][0]["type"]:
            if "structure" not in t or t.get("addressable_unit") not in ("BYTE", 8):
                continue
            casts = param_kinds(t, ns)
            if casts is None:
                stats["structs_with_unsupported_parameters"] = stats.get("structs_with_unsupported_parameters", 0) + 1
                continue
            structs.append((t["name"]["name"]["text"], casts))
        if not structs:
            continue
        tag = re.sub(r"[^A-Za-z0-9_]", "_", origin[:-4])
        hname = "td_%s.h" % tag
        with open(os.path.join(scratch, hname), "w") as f:
            f.write(header)
        src = [cppbuild.CHECK_PRELUDE, '#include "%s"' % hname, T.DRIVER_PRELUDE, RUN,
               "int main() {\n  std::string line;\n  while (std::getline(std::cin, line)) {\n"
               "    std::istringstream in(line);\n    std::string name, hex; int m, c, b, g;\n"
               "    in >> name >> m >> c >> b >> g >> hex;\n    std::string bytes = Unhex(hex);\n"
               "    long long P[8] = {0, 0, 0, 0, 0, 0, 0, 0};\n    for (int i = 0; i < 8; ++i) { if (!(in >> P[i])) break; }\n"
               "    (void)P;\n    bool partial = name.rfind(\"P!\", 0) == 0;\n    if (partial) name = name.substr(2);\n"
               "    if (false) {}"]
        for s_name, casts in structs:
            args = "".join("%s(P[%d]), " % (c, i) for i, c in enumerate(casts))
            src.append('    else if (name == "%s") RunCorpus([&](unsigned char *d, size_t n) { return ::%s::Make%sView(%sd, n); },'
                       ' m, c, b, g, bytes, partial);' % (s_name, ns, s_name, args))
        src.append('    else std::cout << "bad-op\\n";\n  }\n  return 0;\n}')
        jobs.append({"src_text": "\n".join(src), "name": "c06td_" + tag, "extra": ["-I" + scratch],
                     "compiler": "clang++", "opt": "-O0"})
        metas.append((origin, text, structs, table))
        annotations[origin] = partial_annotations(text)
    bins = cppbuild.compile_many(jobs, workers=8)
    cands = candidates(r, tier)
    # first pass: which buffers (and parameter tuples) are Ok (single option set)
    items, idx = [], []
    for (origin, text, structs, table), (binary, log) in zip(metas, bins):
        if binary is None:
            stats.setdefault("driver_compile_failed", []).append(origin)
            hname = "td_%s.h" % re.sub(r"[^A-Za-z0-9_]", "_", origin[:-4])
            probe, _plog = cppbuild.compile_one(cppbuild.CHECK_PRELUDE + '#include "%s"\nint main() { return 0; }\n' % hname,
                                                name="c06td_probe", extra=["-I" + scratch], compiler="clang++", opt="-O0")
            if probe is None:
                if origin.startswith("corpus/"):
                    raise common.InfraError("driver for %s does not compile (nor does the bare header):\n%s" % (
                        origin, log[-3000:]))
                continue
            chk.violation("input", {
                "part": "TXT", "origin": origin, "emb": text, "kind_of_failure": "text-io-does-not-compile",
                "observed": ["the generated header compiles, WriteToString / UpdateFromText of its structs does not"] +
                            [ln for ln in log.split("\n") if "error" in ln][:6],
                "compiler_log_tail": log[-3000:],
                "expected": "for every accepted module WriteToString and UpdateFromText of every struct compile and "
                            "round-trip"})
            continue
        lines = []
        for s_name, casts in structs:
            tuples = param_tuples(len(casts), r, _BOUNDS.get((ns_of[origin], s_name)))
            bufs = cands if not casts else cands[:: max(1, len(cands) // 60)]
            for pt in tuples:
                for b in bufs:
                    lines.append("%s 0 0 10 0 %s%s" % (s_name, b.hex() or "-", "".join(" %d" % v for v in pt)))
        items.append((binary, "\n".join(lines) + "\n"))
        idx.append((origin, text, structs, table, lines))
        if annotations.get(origin):
            run_partial_annotations(chk, stats, origin, text, table, binary, annotations[origin],
                                    set(n for n, _ in structs))
    res1 = T.run_many_long(items, workers=6)
    items2, idx2 = [], []
    opts = [(m, c, b, g) for (m, c) in T.LAYOUTS_RR for b in T.BASES for g in (0, 1)]
    for (origin, text, structs, table, lines), (binary, _), res in zip(idx, items, res1):
        if res.kind != "ok":
            out = crash_records(chk, binary, lines, res, origin, text, table)
        else:
            out = res.out.split("\n")[:-1]
        ok_lines = [ln for ln, a in zip(lines, out) if a is not None and a.startswith("ok=1")]
        stats["ok_buffers"] = stats.get("ok_buffers", 0) + len(ok_lines)
        stats["structs"] = stats.get("structs", 0) + len(structs)
        stats["structs_with_parameters"] = stats.get("structs_with_parameters", 0) + sum(1 for _, c in structs if c)
        seen_per_struct, seen_per_call = {}, {}
        lines2 = []
        corpus_file = origin.startswith("corpus/")
        # a spread over the candidate buffers (zero / pattern / random fill, all sizes) rather than
        # the first few: deterministic shuffle, the all-zero buffers stay in
        zero_first = [ln for ln in ok_lines if set(ln.split(" ")[5]) <= set("0-")][:2 * len(structs)]
        rest = [ln for ln in ok_lines if ln not in set(zero_first)]
        r.shuffle(rest)
        for ln in zero_first + rest:
            p = ln.split(" ")
            s, call = p[0], (p[0],) + tuple(p[6:])
            seen_per_call[call] = seen_per_call.get(call, 0) + 1
            if seen_per_call[call] > (4 if tier == "quick" else 20):
                continue
            seen_per_struct[s] = seen_per_struct.get(s, 0) + 1
            # files about pinned not-Ok buffers: their ordinary round trips run in the thorough tier only
            # (structs with [requires] / Bcd on Ok buffers are covered by the generated modules)
            cap_quick = 0 if annotations.get(origin) else (16 if corpus_file else 8)
            if seen_per_struct[s] > (cap_quick if tier == "quick" else 60):
                continue
            for o in opts:
                lines2.append("%s %d %d %d %d %s" % ((s,) + o + (" ".join(p[5:]),)))
        stats["structs_with_ok_buffer"] = stats.get("structs_with_ok_buffer", 0) + len(seen_per_struct)
        stats["parameterized_structs_with_ok_buffer"] = stats.get("parameterized_structs_with_ok_buffer", 0) + \
            sum(1 for s, c in structs if c and s in seen_per_struct)
        if lines2:
            items2.append((binary, "\n".join(lines2) + "\n"))
            idx2.append((origin, text, table, lines2))
    for (origin, text, table, lines2), res, (binary2, _) in zip(idx2, T.run_many_long(items2, workers=6), items2):
        if res.kind != "ok":
            out2 = crash_records(chk, binary2, lines2, res, origin, text, table)
        else:
            out2 = res.out.split("\n")[:-1]
        reported = set()
        for ln, a in zip(lines2, out2):
            if a is None:
                continue
            chk.count()
            kv = dict(x.split("=", 1) for x in a.split(" ") if "=" in x)
            parts = ln.split(" ")
            sname, opt, hexbuf, params = parts[0], tuple(int(x) for x in parts[1:5]), parts[5], [int(x) for x in parts[6:]]
            t1, t2 = I.unhex(kv.get("text", "")), I.unhex(kv.get("text2", ""))
            chk.nontrivial("td/%s/%s%r/%s/%r" % (origin, sname, params, hexbuf, opt))
            stats["cases"] = stats.get("cases", 0) + 1
            if params:
                stats["cases_with_parameters"] = stats.get("cases_with_parameters", 0) + 1
            try:
                parsed, _ = T.parse_text(t1)
            except T.ParseError:
                parsed = None
            problems = []
            if parsed is None:
                problems.append("text does not parse")
            else:
                D.check_text(table, D.find_struct(table, sname), parsed, "", problems, stats)
            rt_failed = not (kv.get("upd") == "1" and t1 == t2)
            if not rt_failed and not problems:
                continue
            key = None
            if (rt_failed and not problems and opt[0] == 1 and kv.get("upd") != "1" and T.has_long_array(parsed)):
                key = T.FINDING_ARRAY_KEY
                stats["routed_" + key] = stats.get("routed_" + key, 0) + 1
            sig = (sname, key, (problems or ["rt"])[0][:40])
            if sig in reported:
                continue
            reported.add(sig)
            chk.violation("input", {
                "part": "TXT", "origin": origin, "emb": text, "struct": sname, "buffer": "" if hexbuf == "-" else hexbuf,
                "parameters": params,
                "options": dict(zip(("multiline", "comments", "base", "grouping"), opt)), "text": t1,
                "observed": problems + (["UpdateFromText=%s" % kv.get("upd"), "text after: %s" % t2[:500]] if rt_failed else []),
                "expected": "UpdateFromText true and the same text from the updated buffer; every field after "
                            "the fields it depends on"}, key=key)
