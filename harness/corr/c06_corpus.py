"""C06: the repository's own testdata/*.emb through the text round trip.

No generator knowledge here: for every struct without runtime parameters a generic driver tries
a set of buffers (zero / pattern / random fill, many sizes); for those whose view is Ok it does
WriteToString, UpdateFromText into a zeroed buffer of the same size, and WriteToString again.
Oracle (statement): UpdateFromText returns true and the second text equals the first (all emitted
fields read back equal ⇒ same text).  Multi-line texts containing an array with two or more
elements are only counted (open finding `multiline-array-elements-not-comma-separated`).
"""
import os
import re

from harness.lib import common, cppbuild, emb
from harness.corr import c06_int as I
from harness.corr import c06_txt as T

QUICK_FILES = ["text_format.emb", "dynamic_size.emb", "anonymous_bits.emb"]
SKIP_FILES = {"importer.emb", "importer2.emb", "no_enum_traits.emb", "no_cpp_namespace.emb",
              "absolute_cpp_namespace.emb"}

RUN = r"""
template <class Make>
static void RunCorpus(Make make, int multiline, int comments, int base, int grouping, const std::string &bytes) {
  size_t n = bytes.size();
  std::unique_ptr<unsigned char[]> b1(new unsigned char[n]);
  std::unique_ptr<unsigned char[]> b2(new unsigned char[n]);
  std::memcpy(b1.get(), bytes.data(), n);
  std::memset(b2.get(), 0, n);
  auto v = make(b1.get(), n);
  bool ok = v.Ok();
  std::cout << "ok=" << ok;
  if (!ok) { std::cout << "\n"; return; }
  ::emboss::TextOutputOptions o;
  o = o.Multiline(multiline != 0).WithComments(comments != 0).WithNumericBase(static_cast<uint8_t>(base))
       .WithDigitGrouping(grouping != 0);
  if (multiline) o = o.WithIndent("  ");
  std::string text = ::emboss::WriteToString(v, o);
  auto w = make(b2.get(), n);
  bool upd = ::emboss::UpdateFromText(w, text);
  std::string text2 = ::emboss::WriteToString(w, o);
  std::cout << " upd=" << upd << " text=" << Hex(text) << " text2=" << Hex(text2) << "\n";
}
"""


def candidates(r, tier):
    sizes = list(range(0, 41)) + [48, 64, 100, 128, 256, 1024]
    out = []
    for n in sizes:
        out.append(bytes(n))
        if n and n <= 64:
            out.append(bytes([1]) * n)
            out.append(bytes([n & 0xff]) + bytes(n - 1))
    for _ in range(30 if tier == "quick" else 300):
        n = r.choice(sizes[:48])
        out.append(bytes(r.randrange(256) if r.random() < 0.5 else r.choice([0, 1, 2, 3]) for _ in range(n)))
    return out


def run_corpus(chk, tier):
    r = common.rng("C06-corpus")
    stats = chk.extra.setdefault("testdata_corpus", {})
    d = os.path.join(common.REPO, "testdata")
    files = QUICK_FILES if tier == "quick" else sorted(f for f in os.listdir(d) if f.endswith(".emb"))
    scratch = os.path.join(common.scratch(), "c06corpus")
    os.makedirs(scratch, exist_ok=True)
    jobs, metas = [], []
    for fn in files:
        if fn in SKIP_FILES:
            continue
        with open(os.path.join(d, fn)) as f:
            text = f.read()
        m = re.search(r'\[\(cpp\) namespace:\s*"([^"]+)"\]', text)
        if not m:
            continue
        ns = m.group(1)
        ir, errors, exc = emb.compile_text({"m.emb": text})
        if ir is None or errors or exc:
            stats["not_compiled"] = stats.get("not_compiled", 0) + 1
            continue
        header, herr = emb.generate_header(ir)
        if header is None or herr:
            continue
        dct = emb.ir_to_dict(ir)
        structs = [t["name"]["name"]["text"] for t in dct["module"][0]["type"]
                   if "structure" in t and not t.get("runtime_parameter") and t.get("addressable_unit") in ("BYTE", 8)]
        if not structs:
            continue
        hname = "td_%s.h" % fn[:-4]
        with open(os.path.join(scratch, hname), "w") as f:
            f.write(header)
        src = [cppbuild.CHECK_PRELUDE, '#include "%s"' % hname, T.DRIVER_PRELUDE, RUN,
               "int main() {\n  std::string line;\n  while (std::getline(std::cin, line)) {\n"
               "    std::istringstream in(line);\n    std::string name, hex; int m, c, b, g;\n"
               "    in >> name >> m >> c >> b >> g >> hex;\n    std::string bytes = Unhex(hex);\n    if (false) {}"]
        for s in structs:
            src.append('    else if (name == "%s") RunCorpus([](unsigned char *d, size_t n) { return ::%s::Make%sView(d, n); },'
                       ' m, c, b, g, bytes);' % (s, ns, s))
        src.append('    else std::cout << "bad-op\\n";\n  }\n  return 0;\n}')
        jobs.append({"src_text": "\n".join(src), "name": "c06td_" + fn[:-4], "extra": ["-I" + scratch],
                     "compiler": "clang++", "opt": "-O0"})
        metas.append((fn, text, structs))
    bins = cppbuild.compile_many(jobs, workers=8)
    cands = candidates(r, tier)
    # first pass: which buffers are Ok (single option set)
    items, idx = [], []
    for (fn, text, structs), (binary, log) in zip(metas, bins):
        if binary is None:
            stats.setdefault("driver_compile_failed", []).append(fn)
            continue
        lines = ["%s 0 0 10 0 %s" % (s, b.hex() or "-") for s in structs for b in cands]
        items.append((binary, "\n".join(lines) + "\n"))
        idx.append((fn, text, structs, lines))
    res1 = T.run_many_long(items, workers=6)
    items2, idx2 = [], []
    opts = [(m, c, b, g) for (m, c) in T.LAYOUTS_RR for b in T.BASES for g in (0, 1)]
    for (fn, text, structs, lines), (binary, _), res in zip(idx, items, res1):
        if res.kind != "ok":
            chk.violation("input", {"part": "TXT-testdata", "file": fn, "observed": "%s: %s" % (res.kind, res.err[-1500:]),
                                    "expected": "no sanitizer report / failed CHECK"})
            continue
        out = res.out.split("\n")[:-1]
        ok_lines = [ln for ln, a in zip(lines, out) if a.startswith("ok=1")]
        stats["ok_buffers"] = stats.get("ok_buffers", 0) + len(ok_lines)
        stats["structs"] = stats.get("structs", 0) + len(structs)
        seen_per_struct = {}
        lines2 = []
        for ln in ok_lines:
            s = ln.split(" ")[0]
            seen_per_struct[s] = seen_per_struct.get(s, 0) + 1
            if seen_per_struct[s] > (4 if tier == "quick" else 20):
                continue
            hexbuf = ln.split(" ")[-1]
            for o in opts:
                lines2.append("%s %d %d %d %d %s" % ((s,) + o + (hexbuf,)))
        stats["structs_with_ok_buffer"] = stats.get("structs_with_ok_buffer", 0) + len(seen_per_struct)
        if lines2:
            items2.append((binary, "\n".join(lines2) + "\n"))
            idx2.append((fn, text, lines2))
    for (fn, text, lines2), res, (binary2, _) in zip(idx2, T.run_many_long(items2, workers=6), items2):
        if res.kind != "ok":
            bad = None
            for ln in lines2:
                if cppbuild.run(binary2, ln + "\n").kind != "ok":
                    bad = ln
                    break
            rec = {"part": "TXT", "origin": "testdata/" + fn, "emb": text,
                   "observed": "%s: %s" % (res.kind, res.err[-1500:]), "expected": "no sanitizer report / failed CHECK"}
            rec.update(T.line_fields(bad))
            chk.violation("input", rec)
            continue
        reported = set()
        for ln, a in zip(lines2, res.out.split("\n")[:-1]):
            chk.count()
            kv = dict(x.split("=", 1) for x in a.split(" ") if "=" in x)
            parts = ln.split(" ")
            sname, opt, hexbuf = parts[0], tuple(int(x) for x in parts[1:5]), parts[5]
            t1, t2 = I.unhex(kv.get("text", "")), I.unhex(kv.get("text2", ""))
            chk.nontrivial("td/%s/%s/%s/%r" % (fn, sname, hexbuf, opt))
            stats["cases"] = stats.get("cases", 0) + 1
            if kv.get("upd") == "1" and t1 == t2:
                continue
            try:
                parsed, _ = T.parse_text(t1)
            except T.ParseError:
                parsed = None
            key = None
            if opt[0] == 1 and kv.get("upd") != "1" and T.has_long_array(parsed):
                key = T.FINDING_ARRAY_KEY
                stats["routed_" + key] = stats.get("routed_" + key, 0) + 1
            sig = (sname, key)
            if sig in reported:
                continue
            reported.add(sig)
            chk.violation("input", {
                "part": "TXT", "origin": "testdata/" + fn, "emb": text, "struct": sname, "buffer": "" if hexbuf == "-" else hexbuf,
                "options": dict(zip(("multiline", "comments", "base", "grouping"), opt)), "text": t1,
                "observed": ["UpdateFromText=%s" % kv.get("upd"), "text after: %s" % t2[:500]],
                "expected": "UpdateFromText true and the same text from the updated buffer"}, key=key)
