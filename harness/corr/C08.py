"""C08 — the LR(1) generator builds a parser for exactly the grammar's language.

Tie (translation validation + correspondence), per grammar G (random small CFGs incl. directed
families, a hand corpus, and the two Emboss grammars):
  (o)   level B: the Lean model `gen G` of Grammar.parser() must produce exactly the real item
        sets, state numbering, conflict flag and (conflict-free) ACTION/GOTO tables (`GEN`);
        every conflict-free table passes the termination analysis (`LRTERM`, C08_terminates);
  (i)   real `lr1.Grammar(start, prods).parser()` either reports conflicts or its dumped
        tables + item sets pass the *proved* validator (`LRVALID`, Lean `Valid`), for which
        soundness / completeness / unambiguity / safety / error position are theorems;
  (ii)  real `Parser.parse` vs the Lean `run` over the same tables on all strings up to a
        length bound (small G) / sampled token streams and mutations (Emboss): same tree,
        same error index, state, code and expected set;
  (iii) an independent Earley oracle + derivation checker (harness/lib/cfg.py) judges the
        real results directly: accept iff derivable, the tree is a derivation of the input,
        ambiguous grammars must have conflicts, the error index is the first non-viable
        prefix (for grammars whose nonterminals are all productive).
Any Python exception from lr1 is a violation.
"""
import itertools
import json
import os
import signal
import time

from harness.lib import cfg, common, lr1dump
from harness.translate import lr1_examples, lr1_emboss_runs

PROP = "C08"
F10_KEY = "error-position-with-unproductive-nonterminal"
EOI_KEY = "end-of-input-symbol-inside-token-list"

CORPUS = [
    # (name, start, productions)   — "A -> x y" text, parsed by Production.parse
    ("F9-accept-reduce", "S", ["S -> S", "S -> a"]),
    ("F10-unproductive", "S", ["S -> a B", "S -> a c", "B -> b B"]),
    ("alsu-4.55", "S", ["S -> C C", "C -> c C", "C -> d"]),
    ("alsu-expr", "E", ["E -> E a T", "E -> T", "T -> T b F", "T -> F", "F -> c E d", "F -> d"]),
    ("not-lalr", "S", ["S -> a E a", "S -> a F b", "S -> b F a", "S -> b E b", "E -> c", "F -> c"]),
    ("eps-chain", "S", ["S -> A B c", "A -> a", "A ->", "B -> b", "B ->"]),
    ("dangling-else", "S", ["S -> a S", "S -> a S b S", "S -> c"]),
    ("empty", "S", ["S -> A", "A -> B", "B -> A"]),
    ("only-eps", "S", ["S ->"]),
    ("start-is-terminal", "a", []),
    ("lr2", "S", ["S -> A b c", "S -> B b d", "A -> a", "B -> a"]),
    ("left-right", "S", ["S -> S a", "S -> b A", "A -> c A", "A ->"]),
    # indirect / mutual left recursion (cycles of length > 1 in the LR(1) item graph)
    ("indirect-leftrec-2", "S", ["S -> A a", "S -> b", "A -> S c", "A -> d"]),
    ("indirect-leftrec-3", "S", ["S -> A a", "A -> B b", "B -> S c", "B -> d"]),
    ("mutual-leftrec-nullable", "S", ["S -> A b", "A -> B S a", "A ->", "B -> A c", "B -> d"]),
    ("mutual-leftrec-shared", "S", ["S -> A a", "S -> b B", "A -> B c", "A ->", "B -> S d", "B -> A b b"]),
    ("leftrec-via-second-member", "S", ["S -> A B a", "S -> c", "A -> S b", "A ->", "B -> A d", "B -> b"]),
    ("unit-chain-4", "S", ["S -> A", "A -> B", "A -> B a", "B -> C", "C -> D", "C -> b D", "D -> c", "D ->"]),
    ("expr-3-level", "E", ["E -> E a T", "E -> T", "T -> T b F", "T -> F", "F -> c E c", "F -> d", "F -> a F"]),
]


# grammars per run drawn from each directed family, on top of the mixed random stream
DIRECTED = [("mutual-leftrec", 260), ("hidden-leftrec", 20), ("rec-mix", 20), ("shared-closure", 20),
            ("unit-chain", 15)]


class Alarm(Exception):
    pass


def _alarm(signum, frame):
    raise Alarm()


def build_real(start, prods):
    """(parser | None, grammar | None, exception | None)"""
    lr1 = lr1dump.lr1mod()
    try:
        g = lr1.Grammar(start, list(prods))
        return g.parser(), g, None
    except Alarm:
        raise
    except Exception as e:
        return None, None, e


def prods_of(texts):
    pt = lr1dump.ptypes()
    return [pt.Production.parse(t) for t in texts]


def strings_for(alphabet, tier):
    k = len(alphabet)
    if tier == "quick":
        L = {0: 6, 1: 6, 2: 6, 3: 6, 4: 5}.get(k, 4)
    else:
        L = {0: 8, 1: 8, 2: 8, 3: 7, 4: 6}.get(k, 5)
    out = []
    for n in range(L + 1):
        out.extend(itertools.product(alphabet, repeat=n))
    return L, out


def deep_bound(n_terminals, tier):
    """Length bound for the real-code-vs-Earley comparison of the directed families."""
    if tier == "quick":
        return {0: 0, 1: 10, 2: 9, 3: 7, 4: 6}.get(n_terminals, 5)
    return {0: 0, 1: 12, 2: 10, 3: 8, 4: 7}.get(n_terminals, 6)


class Case(object):
    """One conflict-free grammar under examination."""

    def __init__(self, name, start, prods, tags):
        self.name, self.start, self.prods, self.tags = name, start, prods, tags
        self.lines = []          # ops for the model
        self.checks = []         # (line index, kind, payload)
        self.real = {}           # string -> canonical real result line
        self.bad = []            # (string, why) real code vs oracle
        self.parser = None
        self.oracle = None
        self.conflicts = False
        self.looping = False

    def grammar_text(self):
        return "start %s; " % self.start + "; ".join(str(p) for p in self.prods)


def examine(chk, name, start, prods, tags, tier, stats):
    """Runs the real generator + parser on one grammar, judges it with the oracle, and returns
    a Case with the model ops (or None when the grammar has conflicts / crashed)."""
    lr1 = lr1dump.lr1mod()
    chk.count()
    for t in tags:
        stats["tags"][t] = stats["tags"].get(t, 0) + 1
    gtext = "start %s; " % start + "; ".join(str(p) for p in prods)
    oracle = cfg.Oracle(start, [(p.lhs, p.rhs) for p in prods])
    signal.setitimer(signal.ITIMER_REAL, 120)
    try:
        parser, g, exc = build_real(start, prods)
        signal.setitimer(signal.ITIMER_REAL, 0)      # the alarm guards table generation; parses have their own
        signal.signal(signal.SIGALRM, _alarm)
        if exc is not None:
            stats["crash"] += 1
            if too_many(chk):
                return None
            chk.violation("input", {"input": gtext, "observed": "exception %r from Grammar(...).parser()" % exc,
                                    "expected": "a parser or a non-empty conflict set"},
                          key="crash:lr1.py:Grammar.parser:%s" % type(exc).__name__)
            return None
        # level B: the model generator must produce exactly these item sets / tables
        case = Case(name, start, prods, tags)
        uprods = list(dict.fromkeys(prods))
        allp = uprods + [g.productions[-1]]
        sym = lr1dump.ordered_interner([start, lr1.START_PRIME, lr1.END_OF_INPUT] +
                                       [x for p in prods for x in (p.lhs,) + tuple(p.rhs)])
        code = lr1dump.Interner()
        case.lines.append(lr1dump.gen_line(start, uprods, sym))
        case.checks.append((0, "gen", lr1dump.gen_expected(parser, allp, sym)))
        case.parser, case.oracle = parser, oracle
        if parser.conflicts:
            stats["conflicts"] += 1
            chk.nontrivial("conflict:" + gtext)
            case.conflicts = True
            return case
        stats["conflict_free"] += 1
        if not oracle.reduced:
            # since the repair of F10 a nonterminal that derives nothing is reported with the conflicts
            stats["unproductive_not_reported"] = stats.get("unproductive_not_reported", 0) + 1
            if not too_many(chk):
                chk.violation("input", {"input": gtext, "observed": "no conflicts / diagnostics reported",
                                        "expected": "the unproductive nonterminal(s) %s reported" % sorted(
                                            oracle.nonterminals - oracle.productive)}, key=F10_KEY)
            return None
        for t in tags:
            stats["tags_conflict_free"][t] = stats["tags_conflict_free"].get(t, 0) + 1
        amb = oracle.ambiguous_witness(5 if tier == "quick" else 6)
        if amb is not None:
            stats["ambiguous_silently_accepted"] += 1
            if too_many(chk):
                return None
            chk.violation("input", {"input": gtext, "sentence": list(amb),
                                    "observed": "no conflicts reported",
                                    "expected": "conflicts: the sentence has >= 2 parse trees"})
            return None
        # duplicate productions collapse (Production is a value type): the model grammar is
        # the production list without repetitions, seed production last
        aut, plist = lr1dump.dump_automaton(parser, "g", False, sym, code, prod_list=allp)
        case.lines += [aut, lr1dump.gram_line(start, uprods, sym),
                       lr1dump.cert_line(parser, allp, sym), "LRVALID g", "LRTERM g",
                       "GENV" + lr1dump.gen_line(start, uprods, sym)[3:], "REDUCED"]
        case.checks.append((4, "valid", None))
        case.checks.append((5, "term", None))
        case.checks.append((6, "genv", None))
        case.checks.append((7, "reduced", oracle.reduced))
        alphabet = list(oracle.terminals)
        if len(alphabet) <= 3 and "z" not in alphabet:
            alphabet.append("z")          # a token the grammar does not know
        L, strings = strings_for(alphabet, tier)
        truth = oracle.scan_all(L, alphabet)
        extra = []
        if oracle.terminals:
            t0 = oracle.terminals[0]
            extra = [(start,), (t0, start), (lr1.START_PRIME,), (t0, lr1.START_PRIME),
                     (lr1.END_OF_INPUT,), (t0, lr1.END_OF_INPUT, t0)]
            short = [w for w in strings if truth[w] is None][:2]
            extra += [w + (lr1.END_OF_INPUT, t0) for w in short]      # `$` symbol inside the list
        # longer sampled sentences and their one-token mutations (accept paths beyond the bound)
        rs = common.rng("C08-sent-" + gtext)
        sampled = set()
        for _ in range(12 if tier == "quick" else 30):
            sw = oracle.sample_sentence(rs, 12)
            if sw is None or len(sw) <= L:
                continue
            i = rs.randrange(len(sw))
            sampled.update([sw, sw[:i] + sw[i + 1:], sw[:i] + (rs.choice(alphabet),) + sw[i:],
                            sw[:i] + (rs.choice(alphabet),) + sw[i + 1:]])
        stats["sampled_long"] = stats.get("sampled_long", 0) + len(sampled)
        extra += sorted(sampled)
        for w in strings + extra:
            line = judge(case, w, truth[w] if w in truth else oracle.first_error_index(w), stats, sym, code)
            case.real[w] = line
            case.lines.append("RUN g %d %s" % (40 * len(w) + 200, lr1dump.fld(",".join(str(sym(x)) for x in w))))
            case.checks.append((len(case.lines) - 1, "run", w))
        # directed families: real code vs the Earley oracle on all longer strings over the
        # terminals (no model run: `Valid` + the theorems speak for the model)
        if any(t in cfg.DEEP_FAMILIES or t == "corpus" for t in tags) and oracle.terminals:
            Ld = deep_bound(len(oracle.terminals), tier)
            if Ld > L:
                deep = oracle.scan_all(Ld, oracle.terminals)
                for w, want in deep.items():
                    if len(w) > L:
                        judge(case, w, want, stats, sym, code)
                        stats["deep_strings"] += 1
        stats["sentences"] += sum(1 for w in strings if truth[w] is None)
        chk.nontrivial("free:" + gtext)
        return case
    except Alarm:
        chk.violation("input", {"input": gtext, "observed": "Grammar(...).parser(): no result within 120 s",
                                "expected": "termination"}, key="timeout:" + name)
        return None
    finally:
        signal.setitimer(signal.ITIMER_REAL, 0)


def judge(case, w, want, stats, sym, code):
    """Real `Parser.parse` on `w` judged by the spec oracle (`want` = None for a sentence, else
    the index of the first token no sentence can continue with).  Returns the canonical line."""
    lr1 = lr1dump.lr1mod()
    parser, oracle = case.parser, case.oracle
    toks = lr1dump.make_tokens(w)
    if case.looping:
        return "internal ParseTimeout"       # one non-terminating input per grammar is enough
    line, res, pexc = lr1dump.real_parse(parser, toks, sym, code, limit=PARSE_LIMIT)
    stats["strings"] += 1
    if isinstance(pexc, lr1dump.ParseTimeout):
        case.looping = True
        stats["parse_timeouts"] = stats.get("parse_timeouts", 0) + 1
        case.bad.append((w, "no result within %d s: Parser.parse does not terminate on this input" % PARSE_LIMIT,
                         "timeout:parse"))
    elif pexc is not None:
        case.bad.append((w, "exception %r" % pexc, "crash:lr1.py:Parser.parse:%s" % type(pexc).__name__))
    elif res.error is None:
        stats["accepted"] += 1
        if want is not None:
            case.bad.append((w, "accepted, but not a sentence", EOI_KEY if lr1.END_OF_INPUT in w else None))
        else:
            index_of = dict((id(t), i) for i, t in enumerate(toks))
            try:
                why = oracle.check_tree(lr1dump.tree_tuple(res.parse_tree, index_of), w)
            except ValueError as e:
                why = str(e)
            if why:
                case.bad.append((w, "parse tree is not a derivation: " + why, None))
    else:
        stats["rejected"] += 1
        if want is None:
            case.bad.append((w, "rejected, but it is a sentence", None))
        elif res.error.index != want:
            if res.error.index > want and not oracle.reduced:
                stats["late_error_unproductive"] += 1
                case.bad.append((w, "error at %d, first non-viable prefix ends at %d" % (
                    res.error.index, want), F10_KEY))
            else:
                case.bad.append((w, "error at %d, first non-viable prefix ends at %d" % (
                    res.error.index, want), None))
        elif res.error.token is not (toks[want] if want < len(toks) else res.error.token) or (
                want == len(toks) and res.error.token.symbol != lr1.END_OF_INPUT):
            case.bad.append((w, "error token is not the token at the error index", None))
    return line


def deep_search(chk, case, tier, stats):
    """The validator rejected the tables of a conflict-free parser but the bounded comparison
    found no failing string: look further — every *sentence* up to a larger bound must be
    accepted with a derivation (the usual effect of an incomplete state is a rejected sentence)."""
    o = case.oracle
    k = len(o.terminals)
    L = {0: 0, 1: 16, 2: 12, 3: 9, 4: 8}.get(k, 6) + (0 if tier == "quick" else 1)
    sym, code = lr1dump.Interner(), lr1dump.Interner()
    t0 = time.time()
    n = 0
    for w, want in sorted(o.scan_all(L, o.terminals).items(), key=lambda kv: (len(kv[0]), kv[0])):
        if want is None or len(w) <= 2:
            judge(case, w, want, stats, sym, code)
            n += 1
            if case.bad:
                break
    stats["deep_search_sentences"] = stats.get("deep_search_sentences", 0) + n
    stats["deep_search_s"] = round(stats.get("deep_search_s", 0) + time.time() - t0, 1)
    return bool(case.bad)


PARSE_LIMIT = 5       # seconds per real parse of a short token list (normally microseconds)
MAX_REPLAYS = 12      # one defect shows on many grammars: further failures are only counted


def too_many(chk):
    if len(chk.violations) >= MAX_REPLAYS:
        chk.extra["violations_not_written"] = chk.extra.get("violations_not_written", 0) + 1
        return True
    return False


def report_bad(chk, case):
    """Real code vs spec oracle: each distinct failure kind of a grammar is reported once."""
    seen = set()
    for w, why, key in case.bad:
        kind = (key, "".join(ch for ch in why.split(",")[0][:30] if not ch.isdigit()))
        if kind in seen:
            continue
        seen.add(kind)
        if chk.known_finding(key) is None and too_many(chk):
            continue
        chk.violation("input", {"input": case.grammar_text(), "tokens": list(w), "observed": why,
                                "expected": "behaviour of a parser for exactly L(G) (Earley oracle)"},
                      key=key)


def compare_model(chk, case, answers, stats):
    """answers: model lines for case.lines."""
    disagreements = 0
    for idx, kind, w in case.checks:
        ans = answers[idx]
        if kind == "valid":
            if ans == "valid":
                stats["validated"] += 1
                continue
            stats["invalid"] += 1
            disagreements += 1
            if not case.bad and case.oracle is not None and stats["invalid"] <= 6:
                if deep_search(chk, case, stats.get("tier", "quick"), stats):
                    report_bad(chk, case)
            if case.bad or too_many(chk):
                continue   # the oracle already produced a failing input for this grammar
            chk.violation("correspondence", {
                "input": case.grammar_text(), "model": ans,
                "theorem_or_correspondence": "LRVALID (Lean `Valid`) rejects the tables of a conflict-free "
                                             "Grammar.parser(); the oracle found no failing string",
                "expected": "valid"}, found_input=False)
        elif kind == "gen":
            # level B: model generator `gen G` vs the real Grammar.parser(): item sets, state
            # numbering, conflict flag, and (conflict-free) ACTION / GOTO tables
            if ans == w:
                stats["gen_equal"] = stats.get("gen_equal", 0) + 1
                continue
            stats["gen_differs"] = stats.get("gen_differs", 0) + 1
            disagreements += 1
            if not case.conflicts and not case.bad and stats["gen_differs"] <= 6:
                if deep_search(chk, case, stats.get("tier", "quick"), stats):
                    report_bad(chk, case)
            if case.bad or too_many(chk):
                continue
            chk.violation("correspondence", {
                "input": case.grammar_text(), "model": ans[:2000], "observed": w[:2000],
                "theorem_or_correspondence": "GEN (Lean model of Grammar.parser(), level B) vs the real item "
                                             "sets / tables; the oracle found no failing string",
                "expected": "identical item sets, state numbering, conflict flag and tables"}, found_input=False)
        elif kind == "reduced":
            # the proved productivity check `Gen.reducedB` (hypothesis `Reduced G` of C08_error_position,
            # theorem C08_reduced_check_sound) against the harness's own marking loop (cfg.Oracle.reduced)
            if ans == ("reduced=1" if w else "reduced=0"):
                stats["reduced_agree"] = stats.get("reduced_agree", 0) + 1
                if w:
                    stats["reduced_true"] = stats.get("reduced_true", 0) + 1
                continue
            disagreements += 1
            if case.bad or too_many(chk):
                continue
            chk.violation("correspondence", {
                "input": case.grammar_text(), "model": ans,
                "theorem_or_correspondence": "REDUCED (Lean `Gen.reducedB`) vs the oracle's productivity marking",
                "expected": "reduced=%d" % (1 if w else 0)}, found_input=False)
        elif kind == "genv":
            # the model generator's *own* tables and certificate through the compiled validator and
            # the termination analysis: what theorem C08_gen_valid proves for every grammar (a
            # failure here is a defect of the model / the theorem's hypotheses, never of emboss)
            if ans == "genv wf=1 conflicts=0 valid=ok term=1":
                stats["genv_ok"] = stats.get("genv_ok", 0) + 1
                continue
            if ans.startswith("genv ") and "conflicts=1" in ans and "valid=ok" not in ans:
                continue        # GEN already reported the difference in the conflict flag
            disagreements += 1
            if case.bad or too_many(chk):
                continue
            chk.violation("correspondence", {
                "input": case.grammar_text(), "model": ans,
                "theorem_or_correspondence": "GENV: the output of the Lean generator model `gen G` does not pass "
                                             "the Lean validator / termination analysis (C08_gen_valid)",
                "expected": "genv wf=1 conflicts=0 valid=ok term=1"}, found_input=False)
        elif kind == "term":
            # termination analysis (TermOK, theorem C08_terminates): a real loop on a short input
            # would have hit the per-grammar alarm; here the table as a whole is analysed
            if ans == "terminates":
                stats["terminates"] = stats.get("terminates", 0) + 1
                continue
            disagreements += 1
            if case.bad or too_many(chk):
                continue
            chk.violation("correspondence", {
                "input": case.grammar_text(), "model": ans,
                "theorem_or_correspondence": "LRTERM (Lean `TermOK`) finds a chain of reductions that does not "
                                             "come to an end in the tables of a conflict-free Grammar.parser()",
                "expected": "terminates"}, found_input=False)
        else:
            if ans == case.real[w]:
                continue
            if ans.startswith("internal") and case.real[w].startswith("internal"):
                continue
            disagreements += 1
            bad = [b for b in case.bad if b[0] == w]
            if bad or too_many(chk):
                continue
            chk.violation("correspondence", {
                "input": case.grammar_text(), "tokens": list(w), "model": ans, "observed": case.real[w],
                "theorem_or_correspondence": "model_c08 RUN vs Parser.parse",
                "expected": "real code satisfies the oracle here; the model differs"}, found_input=False)
    return disagreements


# ----------------------------------------------------------------- pinned inputs
def pinned(chk):
    """Open findings of C08 are re-executed on every run."""
    lr1 = lr1dump.lr1mod()
    # F10: unproductive nonterminal delays the error
    k = chk.known_finding(F10_KEY)
    prods = prods_of(["S -> a B", "S -> a c", "B -> b B"])
    parser, _, exc = build_real("S", prods)
    if exc is None and not parser.conflicts:
        res = parser.parse(lr1dump.make_tokens(["a", "b"]))
        o = cfg.Oracle("S", [(p.lhs, p.rhs) for p in prods])
        if res.error is not None and res.error.index == 2 and o.first_error_index(("a", "b")) == 1:
            if k:
                chk.report_known(k)
            else:
                chk.violation("input", {"input": "start S; S -> a B; S -> a c; B -> b B", "tokens": ["a", "b"],
                                        "observed": "error at index 2", "expected": "error at index 1"}, key=F10_KEY)
    # end-of-input symbol inside the token list
    k = chk.known_finding(EOI_KEY)
    parser, _, exc = build_real("S", prods_of(["S -> a"]))
    if exc is None:
        try:
            res = parser.parse(lr1dump.make_tokens(["a", lr1.END_OF_INPUT, "a"]))
            if res.error is None:
                if k:
                    chk.report_known(k)
                else:
                    chk.violation("input", {"input": "start S; S -> a", "tokens": ["a", "$", "a"],
                                            "observed": "accepted", "expected": "rejected"}, key=EOI_KEY)
        except Exception as e:
            chk.violation("input", {"input": "start S; S -> a", "tokens": ["a", "$", "a"],
                                    "observed": repr(e), "expected": "rejected"},
                          key="crash:lr1.py:Parser.parse:%s" % type(e).__name__)
    # F9 (fixed): must report conflicts, not raise
    parser, _, exc = build_real("S", prods_of(["S -> S", "S -> a"]))
    if exc is not None or not parser.conflicts:
        chk.violation("input", {"input": "start S; S -> S; S -> a",
                                "observed": repr(exc) if exc else "no conflicts",
                                "expected": "conflicts reported"}, key="F9-accept-reduce-assert")


# ------------------------------------------------------------------ Emboss part
def emboss_cases(chk, tier, stats, model_ok):
    """Fresh Emboss module/expression parsers: LRVALID + RUN on token streams."""
    from compiler.front_end import make_parser, module_ir, tokenizer
    lr1 = lr1dump.lr1mod()
    r = common.rng("C08-emboss")
    out = []
    user = sorted(module_ir.PRODUCTIONS)
    for slot, start, build in (("expr", module_ir.EXPRESSION_START_SYMBOL, make_parser.build_expression_parser),
                               ("module", module_ir.START_SYMBOL, make_parser.build_module_parser)):
        t0 = time.time()
        try:
            parser = build()
        except Exception as e:
            chk.violation("input", {"input": "Emboss %s grammar" % slot, "observed": repr(e),
                                    "expected": "a conflict-free parser"}, key="emboss-build:" + slot)
            continue
        stats["emboss_build_s"] = stats.get("emboss_build_s", 0) + round(time.time() - t0, 2)
        sym, code = lr1dump.Interner(), lr1dump.Interner()
        all_prods = user + [parser_seed(start)]
        if list(parser.productions) != all_prods:
            raise common.InfraError("unexpected production list of the fresh %s parser" % slot)
        aut, _ = lr1dump.dump_automaton(parser, slot, False, sym, code)
        path = os.path.join(common.scratch(), "c08-%s.ops" % slot)
        with open(path, "w") as f:
            f.write(aut + "\n" + lr1dump.gram_line(start, user, sym) + "\n" +
                    lr1dump.cert_line(parser, all_prods, sym) + "\n")
        stats["emboss_all_nonterminals_productive_" + slot] = emboss_oracle(start, user).reduced
        case = Case("emboss-" + slot, start, user, ["emboss"])
        case.lines += ["LOADF " + path, "LRVALID " + slot, "LRTERM " + slot, "REDUCED"]
        case.checks.append((1, "valid", None))
        case.checks.append((2, "term", None))
        case.checks.append((3, "reduced", stats["emboss_all_nonterminals_productive_" + slot]))
        case.grammar_text = lambda slot=slot: "Emboss %s grammar (module_ir.PRODUCTIONS)" % slot
        # token streams
        streams = []
        if slot == "module":
            tdir = os.path.join(common.REPO, "testdata")
            names = sorted(n for n in os.listdir(tdir) if n.endswith(".emb"))
            if tier == "quick":
                names = names[:: max(1, len(names) // 10)]
            for n in names:
                toks, errs = tokenizer.tokenize(open(os.path.join(tdir, n)).read(), n)
                if not errs:
                    streams.append(toks)
            toks, _ = tokenizer.tokenize(open(os.path.join(common.REPO, "compiler/front_end/prelude.emb")).read(), "")
            streams.append(toks)
        else:
            exprs = ["1", "a+b*c", "(a+1)*2 == 4 && b", "a ? b : c", "$max(1, 2, x.y)", "a < b <= c",
                     "a.b.c[1]", "-x + +y", "a || b || c", "$upper_bound(x)", "1 + ", "a b", "(a", "a ? b"]
            for e in exprs:
                toks, errs = tokenizer.tokenize(e, "")
                # the tokenizer appends an end-of-line token: expressions are parsed without it
                toks = [t for t in toks if t.symbol not in ('"\\n"',)]
                if not errs:
                    streams.append(toks)
        muts = []
        n_mut = (60 if tier == "quick" else 600)
        for _ in range(n_mut):
            base = list(r.choice(streams))
            if not base:
                continue
            if len(base) > 400:
                a = r.randrange(0, len(base) - 200)
                base = base[:a + 200]          # a truncated file is itself a mutation
            op = r.choice(["del", "dup", "swap", "repl", "trunc"])
            i = r.randrange(len(base))
            if op == "del":
                del base[i]
            elif op == "dup":
                base.insert(i, base[i])
            elif op == "swap" and i + 1 < len(base):
                base[i], base[i + 1] = base[i + 1], base[i]
            elif op == "repl":
                base[i] = r.choice(r.choice(streams) or base)
            else:
                base = base[:i]
            muts.append(base)
        pt = lr1dump.ptypes()
        for k, toks in enumerate(streams + muts):
            # fresh identities; mutated streams carry no locations (shuffled locations would
            # trip SourceLocation's start <= end assertion, which real token lists never do)
            toks = [pt.Token(t.symbol, t.text, t.source_location if k < len(streams) else None) for t in toks]
            line, res, pexc = lr1dump.real_parse(parser, toks, sym, code, limit=60)
            w = tuple(t.symbol for t in toks)
            key = (len(case.real), w)
            case.real[key] = line
            # only symbols known to the dump can be sent; others get fresh codes (unknown to tables)
            case.lines.append("RUN %s %d %s" % (slot, 60 * len(w) + 1000,
                                                lr1dump.fld(",".join(str(sym(x)) for x in w))))
            case.checks.append((len(case.lines) - 1, "run", key))
            stats["emboss_streams"] += 1
            if pexc is not None:
                case.bad.append((w[:50], "exception %r" % pexc, "crash:lr1.py:Parser.parse:%s" % type(pexc).__name__))
            elif res.error is None:
                stats["emboss_accepted"] += 1
                index_of = dict((id(t), i) for i, t in enumerate(toks))
                o = emboss_oracle(start, user)
                try:
                    why = o.check_tree(lr1dump.tree_tuple(res.parse_tree, index_of), w)
                except ValueError as e:
                    why = str(e)
                if why:
                    case.bad.append((w[:50], "parse tree is not a derivation: " + why, None))
            else:
                stats["emboss_rejected"] += 1
                # Earley on the prefix up to the error (short inputs only: pure Python)
                if res.error.index <= (25 if tier == "quick" else 60):
                    o = emboss_oracle(start, user)
                    i = res.error.index
                    pre = w[:i]
                    stats["emboss_earley"] += 1
                    if not o.viable_prefix(pre):
                        case.bad.append((w[:i + 1], "error at %d but w[:%d] is already not a viable prefix" % (i, i), None))
                    elif i < len(w) and o.viable_prefix(w[:i + 1]):
                        case.bad.append((w[:i + 1], "error at %d but w[:%d] is a viable prefix" % (i, i + 1), None))
                    elif i == len(w) and o.recognize(w):
                        case.bad.append((w, "rejected at end of input, but it is a sentence", None))
        chk.nontrivial("emboss:" + slot)
        out.append(case)
    return out


_EO = {}


def emboss_oracle(start, user):
    if start not in _EO:
        _EO[start] = cfg.Oracle(start, [(p.lhs, p.rhs) for p in user])
    return _EO[start]


def parser_seed(start):
    lr1 = lr1dump.lr1mod()
    return lr1dump.ptypes().Production(lr1.START_PRIME, (start,))


# ------------------------------------------------------------------------- run
def new_stats():
    return {"tags": {}, "tags_conflict_free": {}, "deep_strings": 0, "conflicts": 0, "conflict_free": 0, "crash": 0, "strings": 0, "accepted": 0,
            "rejected": 0, "sentences": 0, "validated": 0, "invalid": 0, "ambiguous_silently_accepted": 0,
            "late_error_unproductive": 0, "emboss_streams": 0, "emboss_accepted": 0, "emboss_rejected": 0,
            "emboss_earley": 0}


def all_cases(chk, tier, stats, n_random, tag):
    signal.signal(signal.SIGALRM, _alarm)
    cases = []
    for name, start, texts in CORPUS:
        c = examine(chk, name, start, prods_of(texts), ["corpus"], tier, stats)
        if c:
            cases.append(c)
    cdir = os.path.join(common.VERIF, "corpus", PROP)
    if os.path.isdir(cdir):
        for n in sorted(os.listdir(cdir)):
            rec = json.load(open(os.path.join(cdir, n)))
            c = examine(chk, n, rec["start"], prods_of(rec["productions"]), ["corpus"], tier, stats)
            if c:
                cases.append(c)
    r = common.rng(tag)
    pt = lr1dump.ptypes()
    for i in range(n_random):
        start, prods, tags = cfg.random_grammar(r)
        c = examine(chk, "rnd%d" % i, start, [pt.Production(l, tuple(rr)) for l, rr in prods], tags, tier, stats)
        if c:
            cases.append(c)
    # directed families (most of these grammars have conflicts, which is cheap to establish; the
    # conflict-free ones exercise closure memoisation over cyclic item graphs, goto sharing, ...)
    r = common.rng(tag + "-directed")
    scale = max(1, n_random // 150)
    for fam, count in DIRECTED:
        for i in range(count * (1 if scale == 1 else 4)):
            start, prods, tags = cfg.random_grammar(r, fam)
            c = examine(chk, "%s%d" % (fam, i), start, [pt.Production(l, tuple(rr)) for l, rr in prods],
                        tags, tier, stats)
            if c:
                cases.append(c)
    return cases


def search(chk):
    """Model-free: real code vs the Earley oracle only."""
    stats = new_stats()
    before = len(chk.violations)
    pinned(chk)
    for c in all_cases(chk, "quick", stats, 150, "C08-search"):
        report_bad(chk, c)
    return len(chk.violations) - before


def run(tier):
    chk = common.Check(PROP, tier, exes=["model_c08"])
    chk.cov["rule"] = ("one evaluation = one grammar through the real Grammar(...).parser(); non-trivial = "
                       "distinct grammar text that either reports conflicts or is conflict-free and then "
                       "validated + exhaustively compared on all strings up to the length bound")
    lr1_examples.regenerate()      # tie T: example tables from the real lr1.py
    lr1_emboss_runs.regenerate()   # tie T: `run` equations on the shipped Emboss rows vs the real Parser.parse
    model_ok = common.proof_gate(chk, search)
    stats = new_stats()
    stats["tier"] = tier
    pinned(chk)
    n = 150 if tier == "quick" else 2500
    cases = all_cases(chk, tier, stats, n, "C08")
    cases += emboss_cases(chk, tier, stats, model_ok)
    for c in cases:
        report_bad(chk, c)
    if model_ok:
        lines = []
        offs = []
        for c in cases:
            offs.append(len(lines))
            lines += c.lines
        t0 = time.time()
        answers = common.Model("model_c08").ask(lines, timeout=3000)
        stats["model_s"] = round(time.time() - t0, 1)
        dis = 0
        for c, o in zip(cases, offs):
            dis += compare_model(chk, c, answers[o:o + len(c.lines)], stats)
        chk.extra["traces_validated_against_impl"] = sum(
            1 for c in cases for ch in c.checks if ch[1] == "run")
        chk.extra["disagreements"] = dis
    for c in [c for c in cases if not c.conflicts][:3]:
        chk.sample({"grammar": c.grammar_text(), "strings": len(c.real)}, limit=4)
    chk.extra["distribution"] = stats
    chk.trusted += [
        "compiled Lean validator (validFast, proved to imply Valid), termination analysis (termOK = decide TermOK) "
        "and generator model (gen) run on each dumped table / grammar: that they returned what the driver printed "
        "is trusted to the Lean compiler/runtime",
        "harness/lib/lr1dump.py: transcription of lr1.Parser tables, item sets and results into the protocol",
        "harness/lib/cfg.py: Earley oracle (self-tested against brute-force enumeration)",
    ]
    return chk.finish()


def replay(path):
    rec = json.load(open(path))
    text = rec.get("input", "")
    print("input:", text, "tokens:", rec.get("tokens"))
    if not text.startswith("start "):
        print("(not a grammar replay: %s)" % rec.get("theorem_or_correspondence"))
        return 0
    parts = [p.strip() for p in text.split(";")]
    start = parts[0].split()[1]
    prods = prods_of([p if "->" in p else p for p in parts[1:] if p])
    parser, g, exc = build_real(start, prods)
    print("exception:", repr(exc))
    if parser is None:
        return 0
    print("conflicts:", sorted(str(c) for c in parser.conflicts))
    o = cfg.Oracle(start, [(p.lhs, p.rhs) for p in prods])
    if "sentence" in rec:
        print("oracle: trees(%r) >= %d" % (rec["sentence"], o.count_trees(rec["sentence"], 2)))
    if rec.get("tokens") is not None:
        w = rec["tokens"]
        sym, code = lr1dump.Interner(), lr1dump.Interner()
        try:
            res = parser.parse(lr1dump.make_tokens(w))
            print("real parse:", "accept" if res.error is None else "error index=%d state=%d code=%r expected=%r" % (
                res.error.index, res.error.state, res.error.code, sorted(res.error.expected_tokens)))
            if res.error is None:
                print("tree:", res.parse_tree)
        except Exception as e:
            print("real parse raised:", repr(e))
        print("oracle: sentence=%s first_error_index=%r" % (o.recognize(w), o.first_error_index(w)))
    return 0
