"""C06, structure half (TXT): generated modules -> real header (real front end + real C++ back
end, in-process) -> C++ driver (ASan+UBSan, EMBOSS_CHECK live) doing, for every Ok buffer and
every option set, WriteToString(view, options) and UpdateFromText into a zeroed buffer of the
same size.  Judged by the property statement itself:

  * the text parses (independent parser written from doc/text-format.md);
  * at every struct level the field names appear exactly in `fields_in_dependency_order`
    restricted to {exists, not Skip, not read-only}: Skip => absent, Emit / no attribute =>
    present, every field after the fields it depends on (intended dependencies of the generator);
  * every value in the text denotes the intended value;
  * for every re-readable option set UpdateFromText returns true, every emitted leaf reads back
    equal, bytes covered by emitted fields are equal, bytes no emitted field covers stay zero.

The Lean model is compared at the token level (`TOK`) and the integer level (`DINT`) on the real
texts.
"""
import json
import os

from harness.lib import common, cppbuild, emb
from harness.corr import c06_gen as G
from harness.corr import c06_int as I
from harness.corr import c06_read as R
from harness.corr import c06_deps as D
from harness.corr import c06_srt as S

# (multiline, comments); single-line with comments is NOT documented as re-readable: a `#`
# comment swallows the rest of the line (it is still written and parsed, never alarmed on).
LAYOUTS_RR = [(0, 0), (1, 0), (1, 1)]
LAYOUT_NOT_RR = (0, 1)
BASES = (10, 16, 2)
PARTIAL_OPTS = [(0, 0, 10, 0), (1, 1, 16, 1), (1, 0, 2, 0), (0, 1, 10, 1)]
# what the k-th poisoned variant of a buffer goes for first (if the struct has such a leaf)
POISON_PREFER = ["array", "array_of_structs", "bcd", "requires", "nested", "struct_requires", "bits"]
FINDING_SKIP_KEY = "skip-field-determines-layout-of-emitted-field"
FINDING_ARRAY_KEY = "multiline-array-elements-not-comma-separated"
# fixed in /repo (f572d62, b3c9cb3): the pinned inputs stay in the run, nothing is routed to them
FIXED_ENUM_KEY = "negative-signed-enum-in-wider-bits-container"
FIXED_ANON_KEY = "skip-on-anonymous-bits-subfield-ignored"

DRIVER_PRELUDE = r"""
#include <cstdint>
#include <cstring>
#include <iostream>
#include <memory>
#include <sstream>
#include <string>
#include <type_traits>
#include "runtime/cpp/emboss_text_util.h"

static std::string Hex(const std::string &s) {
  static const char *d = "0123456789abcdef";
  std::string r;
  for (unsigned char c : s) { r.push_back(d[c >> 4]); r.push_back(d[c & 15]); }
  return r;
}
static std::string Unhex(const std::string &h) {
  std::string r;
  auto v = [](char c) { return c <= '9' ? c - '0' : c - 'a' + 10; };
  for (size_t i = 0; i + 1 < h.size(); i += 2) r.push_back(static_cast<char>(v(h[i]) * 16 + v(h[i + 1])));
  return r;
}
static std::string Show(bool b) { return b ? "true" : "false"; }
static std::string Show(float f) {
  uint32_t b; std::memcpy(&b, &f, 4); char buf[32]; std::snprintf(buf, sizeof buf, "f:%08x", b); return buf;
}
static std::string Show(double f) {
  uint64_t b; std::memcpy(&b, &f, 8); char buf[32];
  std::snprintf(buf, sizeof buf, "d:%016llx", static_cast<unsigned long long>(b)); return buf;
}
template <class T>
static typename std::enable_if<std::is_integral<T>::value && !std::is_same<T, bool>::value &&
                               std::is_signed<T>::value, std::string>::type Show(T v) {
  return std::to_string(static_cast<long long>(v));
}
template <class T>
static typename std::enable_if<std::is_integral<T>::value && !std::is_same<T, bool>::value &&
                               !std::is_signed<T>::value, std::string>::type Show(T v) {
  return std::to_string(static_cast<unsigned long long>(v));
}
template <class T>
static typename std::enable_if<std::is_enum<T>::value, std::string>::type Show(T v) {
  return Show(static_cast<typename std::underlying_type<T>::type>(v));
}
template <class F>
static std::string ShowField(F f) {
  if (!f.Ok()) return "!ok";
  return Show(f.Read());
}
"""

DRIVER_RUN = r"""
template <class Make, class Dump>
static void RunOne(Make make, Dump dump, int multiline, int comments, int base, int grouping,
                   const std::string &bytes, bool have_text, const std::string &text_override,
                   bool want_dump = false) {
  size_t n = bytes.size();
  std::unique_ptr<unsigned char[]> b1(new unsigned char[n]);
  std::unique_ptr<unsigned char[]> b2(new unsigned char[n]);
  std::memcpy(b1.get(), bytes.data(), n);
  std::memset(b2.get(), 0, n);
  auto v = make(b1.get(), n);
  bool ok = v.Ok();
  std::cout << "ok=" << ok;
  ::emboss::TextOutputOptions o;
  o = o.Multiline(multiline != 0).WithComments(comments != 0).WithNumericBase(static_cast<uint8_t>(base))
       .WithDigitGrouping(grouping != 0);
  if (multiline) o = o.WithIndent("  ");
  if (!ok) {
    // allow_partial_output: "WriteToString() should never CHECK-fail"; readable atomic fields only
    // (WriteToString WITHOUT the flag is documented to CHECK-fail on such a view: never called)
    std::cout << " ptext=" << Hex(::emboss::WriteToString(v, o.WithAllowPartialOutput(true))) << std::flush;
    if (want_dump) {
      // which leaves the real accessors can read (`!ok` otherwise): the buffer has its full size
      std::string d;
      dump(v, "", &d);
      std::cout << " d1=" << Hex(d) << std::flush;
      // the partial text read back into a zeroed buffer (compared with the reader model only:
      // the statement makes no claim about re-reading the text of a view that is not Ok)
      auto w = make(b2.get(), n);
      bool upd = ::emboss::UpdateFromText(w, ::emboss::WriteToString(v, o.WithAllowPartialOutput(true)));
      std::string d2;
      dump(w, "", &d2);
      std::cout << " upd=" << upd << " d2=" << Hex(d2);
    }
    std::cout << "\n";
    return;
  }
  std::string text = have_text ? text_override : ::emboss::WriteToString(v, o);
  if (!have_text) std::cout << " pa=" << (::emboss::WriteToString(v, o.WithAllowPartialOutput(true)) == text);
  // the text is on stdout before the reader runs: a failed CHECK / sanitizer report in
  // UpdateFromText still leaves it for the oracles
  std::cout << " text=" << Hex(text) << std::flush;
  auto w = make(b2.get(), n);
  bool upd = ::emboss::UpdateFromText(w, text);
  std::string d1, d2;
  dump(v, "", &d1);
  dump(w, "", &d2);
  std::cout << " upd=" << upd << " ok2=" << w.Ok() << " buf2="
            << Hex(std::string(reinterpret_cast<char *>(b2.get()), n)) << " d1=" << Hex(d1) << " d2=" << Hex(d2)
            << " same=" << (std::memcmp(b1.get(), bytes.data(), n) == 0) << "\n";
}
"""


# --------------------------------------------------------------------- C++ driver generation
def dump_code(ft, expr, path_expr, depth):
    """C++ statements appending `path=value;` for every leaf below a value of type ft."""
    if ft[0] == "scalar":
        return ["*o += %s + \"=\" + ShowField(%s) + \";\";" % (path_expr, expr)]
    if ft[0] == "struct":
        return ["Dump_%s(%s, %s + \".\", o);" % (ft[1].name, expr, path_expr)]
    _, elem, _count = ft
    i = "i%d" % depth
    body = dump_code(elem, "%s[%s]" % (expr, i), "%s + \"[\" + std::to_string(%s) + \"]\"" % (path_expr, i), depth + 1)
    return ["for (size_t %s = 0; %s < %s.ElementCount(); ++%s) {" % (i, i, expr, i)] + ["  " + b for b in body] + ["}"]


def dump_fn(st):
    out = ["template <class V> static void Dump_%s(const V &v, const std::string &p, std::string *o) {" % st.name,
           "  (void)v; (void)p; (void)o;"]
    for f in st.fields:
        if f.virtual:
            continue
        if f.anonymous_bits is not None:
            for g in f.anonymous_bits.fields:
                out.append("  if (v.has_%s().ValueOr(false)) { *o += p + \"%s=\" + ShowField(v.%s()) + \";\"; }"
                           " else { *o += p + \"%s=absent;\"; }" % (g.name, g.name, g.name, g.name))
            continue
        body = dump_code(f.ftype, "v.%s()" % f.name, "(p + \"%s\")" % f.name, 0)
        out.append("  if (v.has_%s().ValueOr(false)) {" % f.name)
        out.extend("    " + b for b in body)
        out.append("  } else { *o += p + \"%s=absent;\"; }" % f.name)
    out.append("}")
    return "\n".join(out)


def driver_source(mod, header_name, tops):
    src = [cppbuild.CHECK_PRELUDE, '#include "%s"' % header_name,
           DRIVER_PRELUDE]
    for t in mod.types:
        src.append(dump_fn(t))
    src.append(DRIVER_RUN)
    src.append("int main() {\n  std::string line;\n  while (std::getline(std::cin, line)) {\n"
               "    std::istringstream in(line);\n    std::string name, hex; int m, c, b, g;\n"
               "    in >> name >> m >> c >> b >> g >> hex;\n    std::string bytes = Unhex(hex);\n"
               "    std::string thex; bool have_text = static_cast<bool>(in >> thex);\n"
               "    bool want_dump = have_text && thex == \"+dump\";\n    if (want_dump) have_text = false;\n"
               "    std::string text_override = have_text ? Unhex(thex) : std::string();\n    if (false) {}")
    for st in tops:
        src.append('    else if (name == "%s") RunOne([](unsigned char *d, size_t n) { return ::c06::%s::Make%sView(d, n); },\n'
                   '        [](const auto &v, const std::string &p, std::string *o) { Dump_%s(v, p, o); }, m, c, b, g, bytes, have_text, text_override, want_dump);'
                   % (st.name, mod.name, st.name, st.name))
    src.append('    else std::cout << "bad-op\\n";\n  }\n  return 0;\n}')
    return "\n".join(src)


# --------------------------------------------------------------------- independent text parser
class ParseError(Exception):
    pass


def parse_text(text):
    """doc/text-format.md: struct = '{' (name ':' value ','?)* '}', array = '{' (('[' n ']' ':')? value
    ','?)* '}', scalar = one token.  `{}` alone is returned as ('empty',)."""
    toks = I.ref_tokens(text)
    pos = [0]

    def peek(k=0):
        return toks[pos[0] + k] if pos[0] + k < len(toks) else None

    def take():
        t = peek()
        if t is None:
            raise ParseError("unexpected end")
        pos[0] += 1
        return t

    def value():
        t = take()
        if t != "{":
            if t in ":}[],":
                raise ParseError("unexpected %r" % t)
            return ("tok", t)
        if peek() == "}":
            take()
            return ("empty",)
        if peek() == "[" or peek(1) != ":":
            items, idx = [], 0
            while True:
                if peek() == "}":
                    take()
                    return ("array", items)
                if peek() == "[":
                    take()
                    n = I.ref_value(take())
                    if n is None or n < 0:
                        raise ParseError("bad index")
                    idx = n
                    if take() != "]" or take() != ":":
                        raise ParseError("bad index marker")
                items.append((idx, value()))
                idx += 1
                if peek() == ",":
                    take()
        fields = []
        while True:
            if peek() == "}":
                take()
                return ("struct", fields)
            name = take()
            if take() != ":":
                raise ParseError("expected ':' after %r" % name)
            fields.append((name, value()))
            if peek() == ",":
                take()

    v = value()
    if peek() is not None:
        raise ParseError("trailing tokens")
    return v, toks


# --------------------------------------------------------------------- expectations
def order_names(ir_struct):
    """[field name] in the real fields_in_dependency_order."""
    fields = ir_struct["field"]
    return [fields[int(i)]["name"]["name"]["text"] for i in ir_struct.get("fields_in_dependency_order", [])]


def compare_tree(node, parsed, orders, where, problems, int_checks, partial=False):
    """node: expected (from the generator); parsed: from the real text."""
    kind = node[0]
    if kind == "scalar":
        sc, v = node[1], node[2]
        if parsed[0] != "tok":
            problems.append("%s: expected a scalar, got %s" % (where, parsed[0]))
            return
        t = parsed[1]
        if sc.kind == "flag":
            if t != ("true" if v else "false"):
                problems.append("%s: flag text %r for %r" % (where, t, v))
        elif sc.kind == "enum":
            name = sc.enum.name_of(v)
            if name is not None:
                if t != name:
                    problems.append("%s: enum text %r, expected name %s" % (where, t, name))
            elif I.ref_value(t) != v:
                problems.append("%s: enum text %r for unnamed value %d" % (where, t, v))
        elif sc.kind == "float":
            pass        # snprintf/sscanf are not modelled: floats are judged by the bit-exact read-back only
        else:
            if I.ref_value(t) != v:
                problems.append("%s: number text %r denotes %r, field value is %d" % (where, t, I.ref_value(t), v))
            ty = sc.cpp_int_type()
            if ty:
                int_checks.append((ty, t, v))
        return
    if kind == "array":
        items = node[1]
        if parsed[0] == "empty":
            got = []
        elif parsed[0] == "array":
            got = parsed[1]
        else:
            problems.append("%s: expected an array, got %s" % (where, parsed[0]))
            return
        idxs = [i for i, _ in got]
        if partial == "content":
            # allow_partial_output on a full-size buffer: exactly the readable elements, each at its
            # own index (explicit `[i]:` markers and running indices of the text are resolved by the
            # parser: a value read at the wrong index shows up here)
            want_idx = [i for i, it in enumerate(items) if it[0] != "unreadable"]
            if idxs != want_idx:
                problems.append("%s: array elements at indices %r in the text, expected exactly %r (%d elements, "
                                "unreadable: %r)" % (where, idxs[:24], want_idx[:24], len(items),
                                                     [i for i, it in enumerate(items) if it[0] == "unreadable"][:12]))
                return
            for i, p in got:
                compare_tree(items[i], p, orders, "%s[%d]" % (where, i), problems, int_checks, partial)
            return
        if partial:
            # allow_partial_output: unreadable elements are left out; what is there must be right
            if idxs != sorted(set(idxs)) or any(i >= len(items) for i in idxs):
                problems.append("%s: array indices %r in a partial text, array has %d elements" % (
                    where, idxs[:20], len(items)))
                return
            for i, p in got:
                compare_tree(items[i], p, orders, "%s[%d]" % (where, i), problems, int_checks, True)
            return
        if idxs != list(range(len(items))):
            problems.append("%s: array indices %r, expected 0..%d" % (where, idxs[:20], len(items) - 1))
            return
        for (i, p), it in zip(got, items):
            compare_tree(it, p, orders, "%s[%d]" % (where, i), problems, int_checks)
        return
    if kind == "struct":
        compare_struct(node[1], node[2] if len(node) > 2 else None, parsed, orders, where, problems, int_checks,
                       partial)
        return
    raise AssertionError(kind)


def compare_struct(tree, stname, parsed, orders, where, problems, int_checks, partial=False):
    real = [(n, x) for n, x in tree if x[0] not in ("comment", "unreadable")]
    if parsed[0] == "empty":
        got = []
    elif parsed[0] == "struct":
        got = parsed[1]
    elif parsed[0] == "array" and not real:
        got = []
    else:
        problems.append("%s: expected a struct, got %s" % (where, parsed[0]))
        return
    want = [n for n, _ in real]
    if stname is not None and stname in orders:
        pos = {n: i for i, n in enumerate(orders[stname])}
        want = sorted(want, key=lambda n: pos.get(n, 1 << 30))
    names = [n for n, _ in got]
    if partial is True:
        it = iter(want)
        if not all(any(n == w for w in it) for n in names):
            problems.append("%s: field names in a partial text %r are not a subsequence of %r" % (where, names, want))
            return
    elif names != want:
        missing = [n for n in want if n not in names]
        extra = [n for n in names if n not in want]
        problems.append("%s: field names in text %r, expected %r (missing %r, unexpected %r)" % (
            where, names, want, missing, extra))
        return
    exp = dict(real)
    for n, p in got:
        compare_tree(exp[n], p, orders, "%s.%s" % (where, n) if where else n, problems, int_checks, partial)


class NoWval(Exception):
    pass


def wval_tokens(node, parsed, orders):
    """Serialises the expected value tree for the Lean writer model (`WVAL`).  Float texts are
    taken from the real output (snprintf is not modelled); NoWval when that is impossible."""
    kind = node[0]
    if kind == "scalar":
        sc, v = node[1], node[2]
        if sc.kind == "flag":
            return ["b", "1" if v else "0"]
        if sc.kind == "enum":
            name = sc.enum.name_of(v)
            return ["e", I.hexs(name) if name else "-", ("i%d" if sc.enum.signed else "u%d") % sc.enum.bits, str(v)]
        if sc.kind == "float":
            if parsed is None or parsed[0] != "tok":
                raise NoWval()
            return ["f", I.hexs(parsed[1])]
        return ["i", sc.cpp_int_type(), str(v)]
    if kind == "comment":
        if isinstance(node[1], bool):
            return ["b", "1" if node[1] else "0"]
        return ["i", "i64", str(node[1])]
    if kind == "array":
        items = node[1]
        # ("unreadable", scalar): an atomic element that is not Ok (allow_partial_output) = `u`
        written = [it for it in items if it[0] != "unreadable"]
        got = [] if parsed is None or parsed[0] != "array" else [x for _, x in parsed[1]]
        if parsed is not None and len(got) != len(written):
            raise NoWval()
        asc = bool(written) and written[0][0] == "scalar" and written[0][1].kind in ("uint", "int") and written[0][1].bits == 8
        out = ["a", "1" if asc else "0", str(len(items))]
        k = 0
        for it in items:
            if it[0] == "unreadable":
                out.append("u")
                continue
            out += wval_tokens(it, got[k] if parsed is not None else None, orders)
            k += 1
        return out
    if kind == "struct":
        fields = list(node[1])
        stname = node[2] if len(node) > 2 else None
        if stname is not None and stname in orders:
            pos = {n: i for i, n in enumerate(orders[stname])}
            fields.sort(key=lambda nv: pos.get(nv[0], 1 << 30))
        got = {} if parsed is None or parsed[0] != "struct" else dict(parsed[1])
        out = ["s", str(len(fields))]
        for n, x in fields:
            if x[0] == "unreadable":
                out += [I.hexs(n), "u"]
                continue
            out += [I.hexs(n), "1" if x[0] == "comment" else "0"]
            out += wval_tokens(x, got.get(n) if parsed is not None else None, orders)
        return out
    raise AssertionError(kind)


def attach_struct_names(st, tree):
    """Adds the struct type name to ('struct', tree) nodes so that nested levels can be re-ordered."""
    by = {}
    for f in st.fields:
        if f.anonymous_bits is not None:
            continue
        by[f.name] = f
    out = []
    for n, node in tree:
        f = by.get(n)
        out.append((n, _attach(f.ftype if f is not None and f.ftype is not None else None, node)))
    return out


def _attach(ft, node):
    if ft is None:
        return node
    if node[0] == "struct" and ft[0] == "struct":
        sub = attach_struct_names(ft[1], node[1]) if ft[1].kind == "struct" else node[1]
        return ("struct", sub, ft[1].name)
    if node[0] == "array" and ft[0] == "array":
        return ("array", [_attach(ft[1], x) for x in node[1]])
    return node


def check_intended_order(st, names, problems, where):
    """Property statement: fields are emitted after the fields they depend on.  The dependency
    relation is computed from the source text the generator wrote (condition / location / size /
    `let` expression of every field), transitively through fields that are not in the text
    themselves (read-only or skipped virtual fields) — never from the compiler's own ordering."""
    deps = G.transitive_deps(st)
    seen = set()
    for n in names:
        for d in sorted(deps.get(n, ())):
            if d in names and d not in seen:
                problems.append("ORDER: %s: field %s is written before %s, which it depends on" % (where, n, d))
        seen.add(n)


def parse_dump(s):
    out = {}
    for item in s.split(";"):
        if item:
            k, _, v = item.partition("=")
            out[k] = v
    return out


# --------------------------------------------------------------------- running
class Case:
    pass


def prepare_module(mod):
    """Compile with the real front end + back end.  Returns dict or raises InfraError-ish string."""
    text = mod.emb()
    ir, errors, exc = emb.compile_text({"m.emb": text})
    if exc is not None or errors or ir is None:
        return None, "front end: %r %r" % (exc, emb.error_summary(errors)[:2])
    header, herr = emb.generate_header(ir)
    if herr or header is None:
        return None, "back end: %r" % (herr,)
    d = emb.ir_to_dict(ir)
    orders = {}

    def walk(types):
        for t in types:
            if "structure" in t:
                orders[t["name"]["name"]["text"]] = order_names(t["structure"])
            walk(t.get("subtype", []))
    walk(d["module"][0]["type"])
    return {"text": text, "header": header, "orders": orders, "dep_table": D.module_table(d)}, None


def tops_of(mod):
    """Structs driven as top-level views (structs with runtime parameters only as members)."""
    return [t for t in mod.types if t.kind == "struct" and not t.params]


def option_sets(tier, r):
    out = []
    combos = [(10, 0), (16, 1), (2, 1), (10, 1)] if tier == "quick" else [(b, g) for b in BASES for g in (0, 1)]
    for (m, c) in LAYOUTS_RR + [LAYOUT_NOT_RR]:
        for b, g in combos:
            out.append((m, c, b, g))
    return out


run_many_long = I.run_many_long


def first_failing(binary, lines):
    """One line of `lines` that makes the driver fail when run alone-ish (halving)."""
    cand = list(lines)
    last = None
    while len(cand) > 1:
        mid = len(cand) // 2
        a = cppbuild.run(binary, "\n".join(cand[:mid]) + "\n", timeout=900)
        if a.kind != "ok":
            cand, last = cand[:mid], a
        else:
            cand = cand[mid:]
    if not cand:
        return None, last
    one = cppbuild.run(binary, cand[0] + "\n", timeout=900)
    return cand[0], (one if one.kind != "ok" else last)


def isolate_crashes(binary, lines, res):
    """A driver run over `lines` ended abnormally (sanitizer report, failed EMBOSS_CHECK, crash).
    The lines are re-run struct by struct: structs that run cleanly are judged as usual, for each
    of the others the failing line is located.  Returns ([answer or None per line],
    [(failing line, RunResult)])."""
    groups = {}
    for i, ln in enumerate(lines):
        groups.setdefault(ln.split(" ")[0], []).append(i)
    keys = list(groups)
    answers, crashes = [None] * len(lines), []
    results = run_many_long([(binary, "\n".join(lines[i] for i in groups[k]) + "\n") for k in keys], workers=4)
    for k, r in zip(keys, results):
        idx = groups[k]
        if r.kind == "ok":
            out = r.out.split("\n")[:-1]
            if len(out) == len(idx):
                for i, a in zip(idx, out):
                    answers[i] = a
                continue
        bad, one = first_failing(binary, [lines[i] for i in idx])
        crashes.append((bad, one if one is not None else r))
    if not crashes:
        crashes.append((None, res))
    return answers, crashes


def crash_text_order(one, dep_table, st):
    """The driver prints WriteToString's text before it calls UpdateFromText: when the reader
    dies, the emission-order clause can still be judged on what was written."""
    import re
    m = re.search(r"text=([0-9a-f]*)", one.out or "")
    if not m:
        return None, []
    text = I.unhex(m.group(1))
    problems = []
    try:
        parsed, _ = parse_text(text)
    except ParseError:
        return text, ["text does not parse"]
    if st is not None and parsed[0] == "struct":
        check_intended_order(st, [n for n, _ in parsed[1]], problems, st.name)
    D.check_text(dep_table, D.find_struct(dep_table, st.name if st is not None else None), parsed, "", problems)
    return text, problems


def line_fields(ln):
    """struct / buffer / options of a driver command line, for replay files."""
    if not ln:
        return {}
    p = ln.split(" ")
    return {"struct": p[0], "buffer": "" if p[5] == "-" else p[5],
            "options": dict(zip(("multiline", "comments", "base", "grouping"), (int(x) for x in p[1:5])))}


def has_long_array(parsed):
    """Some array with two or more elements occurs in the parsed text."""
    if parsed is None or parsed[0] in ("tok", "empty"):
        return False
    if parsed[0] == "array":
        return len(parsed[1]) >= 2 or any(has_long_array(x) for _, x in parsed[1])
    return any(has_long_array(x) for _, x in parsed[1])


def add_commas(text):
    """Multi-line text with a `,` after every value line / closing brace (before a trailing
    `  # ` comment).  The documented array syntax is comma separated; the struct reader
    accepts one `,` before a field name."""
    out = []
    for ln in text.split("\n"):
        body = ln.strip()
        if not body or body.startswith("#") or body.endswith("{"):
            out.append(ln)
            continue
        k = ln.find("  # ")
        if k >= 0:
            out.append(ln[:k] + "," + ln[k:])
        else:
            out.append(ln + ",")
    return "\n".join(out)


def judge_roundtrip(kv, built, d1, d2):
    """Round-trip clauses of the statement.  Returns problems (prefixed RT:)."""
    problems = []
    if kv.get("upd") != "1":
        problems.append("RT: UpdateFromText returned false on WriteToString's own output")
        return problems
    for pth in sorted(built.emitted_paths):
        if d1.get(pth) != d2.get(pth):
            problems.append("RT: emitted field %s reads %s after the round trip, was %s" % (
                pth, d2.get(pth), d1.get(pth)))
            break
    b2 = bytes.fromhex(kv["buf2"])
    for i, mk in enumerate(built.mask):
        if mk == "E" and b2[i] != built.buf[i]:
            problems.append("RT: byte %d (covered by emitted fields) is %02x after the round trip, was %02x" % (
                i, b2[i], built.buf[i]))
            break
        if mk == "Z" and b2[i] != 0:
            problems.append("RT: byte %d is covered by no emitted field but was written (%02x)" % (i, b2[i]))
            break
    return problems


def judge_partial(prep, st, built, opt, trunc, line, stats):
    """allow_partial_output (doc/cpp-reference.md) on the first `trunc` bytes of an Ok buffer: no
    CHECK failure (the driver would have died), unreadable atomic fields are left out (mentioned
    only in comments), and whatever is written is a field the full text has, with the value the
    full buffer has, after the fields it depends on."""
    kv = dict(x.split("=", 1) for x in line.split(" ") if "=" in x)
    m, c, b, g = opt
    stats["partial_cases"] = stats.get("partial_cases", 0) + 1
    if kv.get("ok") == "1":
        stats["partial_truncated_view_still_ok"] = stats.get("partial_truncated_view_still_ok", 0) + 1
        return []
    if "ptext" not in kv:
        return ["PARTIAL: no text produced"]
    text = I.unhex(kv["ptext"])
    problems = []
    if not c and "UNREADABLE" in text:
        problems.append("PARTIAL: UNREADABLE mentioned although comments are off")
    if (m, c) != LAYOUT_NOT_RR:
        try:
            parsed, _ = parse_text(text)
        except ParseError as e:
            return problems + ["PARTIAL: text does not parse: %s" % e]
        sub = []
        tree = attach_struct_names(st, built.tree)
        compare_struct(tree, st.name, parsed, prep["orders"], "", sub, [], partial=True)
        if parsed[0] == "struct":
            check_intended_order(st, [n for n, _ in parsed[1]], sub, st.name)
            if parsed[1]:
                stats["partial_texts_with_fields"] = stats.get("partial_texts_with_fields", 0) + 1
        D.check_text(prep["dep_table"], D.find_struct(prep["dep_table"], st.name), parsed, "", sub)
        problems += ["PARTIAL: " + p for p in sub]
    if "UNREADABLE" in text:
        stats["partial_texts_with_unreadable_comment"] = stats.get("partial_texts_with_unreadable_comment", 0) + 1
    return problems


def unreadable_labels(text):
    """Labels of the `# <label>: UNREADABLE` comment lines of a multi-line text, in order: a field
    name, or ('idx', i) for `# [i]: UNREADABLE` (the index is a number in the text's base)."""
    import re
    out = []
    for ln in text.split("\n"):
        m = re.match(r"^\s*# (.*): UNREADABLE\s*$", ln)
        if not m:
            if "UNREADABLE" in ln:
                out.append(("?", ln.strip()))
            continue
        lab = m.group(1)
        mi = re.match(r"^\[(.*)\]$", lab)
        out.append(("idx", I.ref_value(mi.group(1))) if mi else lab)
    return out


def expected_unreadable(tree):
    """(labels in tree order — sorted by the caller —, number of single-line arrays positions where
    a written element follows a skipped one at an index that is not a multiple of 8)."""
    labels, markers = [], [0]

    def walk(node, name):
        if node[0] == "unreadable":
            labels.append(name)
        elif node[0] == "struct":
            for n, x in node[1]:
                walk(x, n)
        elif node[0] == "array":
            for i, x in enumerate(node[1]):
                walk(x, ("idx", i))
                if i and node[1][i - 1][0] == "unreadable" and x[0] != "unreadable" and i % 8:
                    markers[0] += 1
    walk(("struct", tree), None)
    return labels, markers[0]


def judge_partial_content(prep, st, pb, opt, line, stats):
    """allow_partial_output (doc/cpp-reference.md "allow_partial_output method"; expectations pinned
    in compiler/back_end/cpp/testcode/requires_test.cc NotOkFieldsAreNotWritten /
    NotOkArrayElementsAreNotWritten) on a full-size buffer whose view is not Ok *by content*
    (pb = c06_gen.poison_buffer): no CHECK failure (the driver would have died); every unreadable
    atomic field / array element is left out — with comments on it is mentioned in exactly one
    `UNREADABLE` comment, with comments off the word never appears —; every other emitted field is
    present, exactly once, at its place (array elements at their own index), with its intended
    value; aggregates are always present; fields still stand after the fields they depend on."""
    kv = dict(x.split("=", 1) for x in line.split(" ") if "=" in x)
    m, c, b, g = opt
    pre = "PARTIAL-CONTENT: "

    def bump(k, n=1):
        stats[k] = stats.get(k, 0) + n
    bump("partial_by_content_cases")
    for _path, kind, _detail, ctx in pb.poison:
        bump("partial_by_content_kind_" + kind)
        for cx in ctx or ["plain_struct_field"]:
            bump("partial_by_content_in_" + cx)
    if not pb.unreadable:
        bump("partial_by_content_all_atomic_fields_readable")
    if kv.get("ok") == "1":
        return [pre + "the view is Ok() although %s" % "; ".join("%s: %s" % (p_, d) for p_, _k, d, _c in pb.poison)]
    if "ptext" not in kv:
        return [pre + "no text produced"]
    text = I.unhex(kv["ptext"])
    problems = []
    if "d1" in kv:
        # precondition of the clauses below, observed on the real accessors: exactly the poisoned
        # leaves are not Ok, every other leaf reads its intended value
        d1, intended = parse_dump(I.unhex(kv["d1"])), dict(pb.dump)
        bad = [(k, intended.get(k), d1.get(k)) for k in sorted(set(intended) | set(d1)) if intended.get(k) != d1.get(k)]
        if bad:
            return [pre + "OKNESS: leaf %s reads %s through its accessor, intended %s" % (k, got, want)
                    for k, want, got in bad[:4]]
    labels, markers = expected_unreadable(pb.tree)
    cnt = text.count("UNREADABLE")
    if not c and cnt:
        problems.append(pre + "UNREADABLE mentioned although comments are off")
    if c and cnt != len(labels):
        problems.append(pre + "comments are on: %d UNREADABLE comments for %d unreadable atomic fields %r" % (
            cnt, len(labels), labels[:8]))
    if c and m:
        got = unreadable_labels(text)
        if sorted(map(repr, got)) != sorted(map(repr, labels)):
            problems.append(pre + "UNREADABLE comments name %r, the unreadable fields / elements are %r" % (
                got[:8], labels[:8]))
    if cnt:
        bump("partial_by_content_unreadable_comment")
    if (m, c) != LAYOUT_NOT_RR:
        try:
            parsed, _ = parse_text(text)
        except ParseError as e:
            return problems + [pre + "text does not parse: %s" % e]
        sub = []
        tree = attach_struct_names(st, pb.tree)
        compare_struct(tree, st.name, parsed, prep["orders"], "", sub, [], partial="content")
        if parsed[0] == "struct":
            check_intended_order(st, [n for n, _ in parsed[1]], sub, st.name)
        D.check_text(prep["dep_table"], D.find_struct(prep["dep_table"], st.name), parsed, "", sub)
        problems += [pre + p_ for p_ in sub]
        bump("partial_by_content_texts_parsed_and_compared")
        if not m and markers:
            bump("partial_by_content_single_line_element_after_skipped_one", markers)
    return problems


def add_partial_model_ops(prep, st, pb, opt, line, stats, wvals, rvals, shapes):
    """Lean models on the text of a view that is not Ok by content (allow_partial_output): the writer
    model (value tree with the unreadable leaves as `skip` nodes) must give the real text exactly
    (`WVAL`), the reader model must accept / reject the text and write the values the real
    UpdateFromText does (`RVAL`; static shapes, re-readable layouts)."""
    kv = dict(x.split("=", 1) for x in line.split(" ") if "=" in x)
    if "ptext" not in kv:
        return
    m, c, b, g = opt
    text = I.unhex(kv["ptext"])
    parsed = None
    if (m, c) != LAYOUT_NOT_RR:
        try:
            parsed, _ = parse_text(text)
        except ParseError:
            return
    try:
        tree = ("struct", attach_struct_names(st, pb.tree), st.name)
        toks = wval_tokens(tree, parsed, prep["orders"])
        wvals.append(("WVAL %d %d %d %d %s %s" % (m, c, b, g, I.hexs("  ") if m else "-", " ".join(toks)), text,
                      st.name, opt))
        stats["partial_by_content_wval"] = stats.get("partial_by_content_wval", 0) + 1
    except NoWval:
        stats["wval_skipped_float"] = stats.get("wval_skipped_float", 0) + 1
    if (m, c) != LAYOUT_NOT_RR and "upd" in kv and "d2" in kv:
        n0 = len(rvals)
        add_rval(rvals, shapes, stats, st, {"text": kv["ptext"], "upd": kv["upd"], "d2": kv["d2"]})
        if len(rvals) > n0:
            stats["partial_by_content_rval"] = stats.get("partial_by_content_rval", 0) + 1
            if kv["upd"] == "1":
                stats["partial_by_content_text_reread_ok"] = stats.get("partial_by_content_text_reread_ok", 0) + 1


def judge(prep, st, built, opt, line, stats, int_checks, tok_texts, wvals=None):
    """Evaluates one driver answer against the property statement.
    Returns (problems, parsed tree or None, kv)."""
    kv = dict(x.split("=", 1) for x in line.split(" ") if "=" in x)
    m, c, b, g = opt
    rr = (m, c) != LAYOUT_NOT_RR
    problems = []
    if kv.get("ok") != "1":
        stats["generator_not_ok"] = stats.get("generator_not_ok", 0) + 1
        return None, None, kv
    text = I.unhex(kv["text"])
    d1, d2 = parse_dump(I.unhex(kv["d1"])), parse_dump(I.unhex(kv["d2"]))
    intended = dict(built.dump)
    if d1 != intended:
        stats["intended_value_mismatch"] = stats.get("intended_value_mismatch", 0) + 1
        bad = [(k, intended.get(k), d1.get(k)) for k in sorted(set(intended) | set(d1)) if intended.get(k) != d1.get(k)]
        stats.setdefault("intended_value_mismatch_examples", [])
        if len(stats["intended_value_mismatch_examples"]) < 3:
            stats["intended_value_mismatch_examples"].append({"struct": st.name, "diff": bad[:4]})
    if kv.get("pa") == "0":
        problems.append("allow_partial_output changes the text of an Ok view")
    parsed = None
    if rr:
        # 1. the text parses and has the expected shape / order / values
        try:
            parsed, _toks = parse_text(text)
        except ParseError as e:
            problems.append("text does not parse: %s" % e)
        if parsed is not None:
            tree = attach_struct_names(st, built.tree)
            compare_struct(tree, st.name, parsed, prep["orders"], "", problems, int_checks)
            if parsed[0] == "struct":
                check_intended_order(st, [n for n, _ in parsed[1]], problems, st.name)
            # the same clause judged from the parsed source of the module (every struct level)
            D.check_text(prep["dep_table"], D.find_struct(prep["dep_table"], st.name), parsed, "", problems, stats)
            tok_texts.append(text)
        # read-only virtual fields are comments: present iff comments are on
        for n, node in built.tree:
            if node[0] == "comment":
                marker = "# %s: " % n
                if (marker in text) != bool(c):
                    problems.append("read-only field %s %s in the text with comments=%d" % (
                        n, "missing" if c else "present", c))
        # 2. round trip
        problems.extend(judge_roundtrip(kv, built, d1, d2))
    if wvals is not None and (not rr or (parsed is not None and not problems)):
        try:
            tree = ("struct", attach_struct_names(st, built.tree), st.name)
            toks = wval_tokens(tree, parsed, prep["orders"])
            wvals.append(("WVAL %d %d %d %d %s %s" % (m, c, b, g, I.hexs("  ") if m else "-", " ".join(toks)), text,
                          st.name, opt))
        except NoWval:
            stats["wval_skipped_float"] = stats.get("wval_skipped_float", 0) + 1
    if not rr:
        stats["single_line_with_comments_total"] = stats.get("single_line_with_comments_total", 0) + 1
        if kv.get("upd") != "1" or any(d1.get(p) != d2.get(p) for p in built.emitted_paths):
            stats["single_line_with_comments_not_reread"] = stats.get("single_line_with_comments_not_reread", 0) + 1
    return problems, parsed, kv


def run_modules(chk, mods, buffers_per_struct, r, model_ok, tier, compiler="clang++", defines=(), opt="-O0"):
    """mods: [(Module, origin tag, None | {struct name: [Built]})].  Compiles all drivers in
    parallel, runs, judges."""
    stats = chk.extra.setdefault("txt_distribution", {})
    cc_opt = opt          # `opt` is re-used for option sets below
    scratch = os.path.join(common.scratch(), "c06txt")
    os.makedirs(scratch, exist_ok=True)
    jobs, preps = [], []
    for mod, origin, fixed in mods:
        prep, err = prepare_module(mod)
        if prep is None:
            stats["modules_rejected_by_compiler"] = stats.get("modules_rejected_by_compiler", 0) + 1
            stats.setdefault("rejected_examples", [])
            if len(stats["rejected_examples"]) < 3:
                stats["rejected_examples"].append({"why": err[:300], "emb": mod.emb()[:1500]})
            continue
        hname = "%s.emb.h" % mod.name
        with open(os.path.join(scratch, hname), "w") as f:
            f.write(prep["header"])
        tops = tops_of(mod)
        jobs.append({"src_text": driver_source(mod, hname, tops), "name": "c06_" + mod.name,
                     "extra": ["-I" + scratch], "compiler": compiler, "opt": opt, "defines": tuple(defines)})
        preps.append((mod, origin, prep, tops, fixed))
    built_bins = cppbuild.compile_many(jobs, workers=8)
    opts = option_sets(tier, r)
    rp = common.rng("C06-txt-poison")      # own stream: the Ok buffers are those of the undecorated run
    n_poison = 1 if tier == "quick" else 2
    run_items, metas = [], []
    for (mod, origin, prep, tops, fixed), (binary, log) in zip(preps, built_bins):
        if binary is None:
            # Does the generated header compile at all?  If it does, it is the text output / input
            # of an accepted module that does not compile: the property cannot hold for that module
            # (a concrete failing input: the module).  Otherwise: C07's business / infrastructure.
            hname = "%s.emb.h" % mod.name
            probe, plog = cppbuild.compile_one(cppbuild.CHECK_PRELUDE + '#include "%s"\nint main() { return 0; }\n' % hname,
                                               name="c06_probe_" + mod.name, extra=["-I" + scratch],
                                               compiler=compiler, opt=cc_opt, defines=tuple(defines))
            if probe is None:
                raise common.InfraError("driver for module %s does not compile (nor does the bare header):\n%s\n%s" % (
                    mod.name, log[-3000:], prep["text"]))
            errs = [ln for ln in log.split("\n") if "error" in ln][:6]
            chk.violation("input", {
                "part": "TXT", "origin": origin, "emb": prep["text"], "kind_of_failure": "text-io-does-not-compile",
                "observed": ["the generated header compiles, WriteToString / UpdateFromText / field access of its "
                             "structs does not"] + errs,
                "compiler_log_tail": log[-3000:],
                "expected": "for every accepted module WriteToString and UpdateFromText of every struct compile and "
                            "round-trip"})
            continue
        lines, meta = [], []
        for st in tops:
            if fixed is not None:
                builts = fixed.get(st.name, [])
            else:
                builts = [G.build_buffer(r, st, mod.default_order) for _ in range(buffers_per_struct)]
            for built in builts:
                for opt in opts:
                    lines.append("%s %d %d %d %d %s" % ((st.name,) + opt + (bytes(built.buf).hex() or "-",)))
                    meta.append((st, built, opt, None))
                # allow_partial_output on views that are not Ok: the same bytes, truncated
                n = len(built.buf)
                for k in sorted({n - 1, n - 2, n // 2, 1, 0}):
                    if 0 <= k < n:
                        for opt in PARTIAL_OPTS:
                            lines.append("%s %d %d %d %d %s" % ((st.name,) + opt + (bytes(built.buf[:k]).hex() or "-",)))
                            meta.append((st, built, opt, k))
                # … and not Ok by content: the same bytes with an invalid BCD digit / a value that
                # violates a `[requires]` in some leaves nothing else depends on
                for pi in range(getattr(built, "poison_variants", n_poison)):
                    pb = G.poison_buffer(rp, built, prefer=POISON_PREFER[pi % len(POISON_PREFER)]) \
                        if getattr(built, "leaves", None) else None
                    if pb is None:
                        break
                    for opt in PARTIAL_OPTS:
                        lines.append("%s %d %d %d %d %s +dump" % ((st.name,) + opt + (bytes(pb.buf).hex() or "-",)))
                        meta.append((st, pb, opt, "content"))
        run_items.append((binary, "\n".join(lines) + "\n"))
        metas.append((mod, origin, prep, meta, lines))
    results = run_many_long(run_items, workers=6)
    int_checks, tok_texts, wvals, rvals = [], [], [], []
    srts, srt_seen = [], set()
    shapes = {}
    second = []      # per module: [(meta index, line)] to run with a comma-repaired text
    for mi, ((mod, origin, prep, meta, lines), res) in enumerate(zip(metas, results)):
        stats["modules"] = stats.get("modules", 0) + 1
        second.append([])
        if res.kind != "ok":
            out, crashes = isolate_crashes(run_items[mi][0], lines, res)
            for bad, one in crashes:
                rec = {"emb": prep["text"], "op": bad, "part": "TXT", "origin": origin,
                       "observed": ["%s: %s" % (one.kind, one.err[-2000:])],
                       "expected": "no sanitizer report / failed CHECK in text output or input"}
                rec.update(line_fields(bad))
                if bad in lines:
                    st_bad, built_bad = meta[lines.index(bad)][:2]
                    if getattr(built_bad, "poison", None):
                        rec["not_ok_by_content"] = [{"leaf": p_, "kind": k_, "how": d_, "context": c_}
                                                    for p_, k_, d_, c_ in built_bad.poison]
                        rec["ok_buffer"] = bytes(built_bad.base.buf).hex()
                        rec["allow_partial_output"] = True
                    rec["text"], order_problems = crash_text_order(one, prep["dep_table"], st_bad)
                    rec["observed"] += order_problems
                    rec["predicate_skip_locates_emitted"] = G.skip_locates_emitted(st_bad)
                chk.violation("input", rec)
            stats["cases_not_judged_after_crash"] = stats.get("cases_not_judged_after_crash", 0) + \
                sum(1 for a in out if a is None)
        else:
            out = res.out.split("\n")[:-1]
            if len(out) != len(lines):
                raise common.InfraError("TXT driver answered %d lines for %d ops" % (len(out), len(lines)))
        reported = set()
        for ci, ((st, built, opt, trunc), ln, ans) in enumerate(zip(meta, lines, out)):
            if ans is None:
                continue
            chk.count()
            if trunc == "content":
                pp = judge_partial_content(prep, st, built, opt, ans, stats)
                chk.nontrivial("%s/%s/not-ok-by-content/%s/%r" % (mod.name, st.name, bytes(built.buf).hex(), opt))
                if model_ok and not pp:
                    add_partial_model_ops(prep, st, built, opt, ans, stats, wvals, rvals, shapes)
                if pp:
                    sig = (st.name, "content", pp[0][:60])
                    if sig not in reported and sum(1 for x in reported if x[:2] == sig[:2]) < 3:
                        reported.add(sig)
                        kvp = dict(x.split("=", 1) for x in ans.split(" ") if "=" in x)
                        chk.violation("input", {
                            "part": "TXT", "origin": origin, "emb": prep["text"], "struct": st.name,
                            "buffer": bytes(built.buf).hex(), "ok_buffer": bytes(built.base.buf).hex(),
                            "not_ok_by_content": [{"leaf": p_, "kind": k_, "how": d_, "context": c_}
                                                  for p_, k_, d_, c_ in built.poison],
                            "options": dict(zip(("multiline", "comments", "base", "grouping"), opt)),
                            "allow_partial_output": True, "text": I.unhex(kvp.get("ptext", "")), "observed": pp[:6],
                            "expected": "with allow_partial_output: no CHECK failure; unreadable atomic fields / "
                                        "array elements are left out (commented `UNREADABLE` iff comments are on); "
                                        "every other field is present at its place with its value"})
                continue
            if trunc is not None:
                pp = judge_partial(prep, st, built, opt, trunc, ans, stats)
                if pp:
                    sig = (st.name, "partial", pp[0][:40])
                    if sig not in reported:
                        reported.add(sig)
                        kvp = dict(x.split("=", 1) for x in ans.split(" ") if "=" in x)
                        chk.violation("input", {
                            "part": "TXT", "origin": origin, "emb": prep["text"], "struct": st.name,
                            "buffer": bytes(built.buf[:trunc]).hex(), "truncated_from": bytes(built.buf).hex(),
                            "options": dict(zip(("multiline", "comments", "base", "grouping"), opt)),
                            "allow_partial_output": True, "text": I.unhex(kvp.get("ptext", "")), "observed": pp[:6],
                            "expected": "with allow_partial_output the text of a view that is not Ok holds only "
                                        "readable fields, with their values, in dependency order"})
                continue
            problems, parsed, kv = judge(prep, st, built, opt, ans, stats, int_checks, tok_texts,
                                         wvals if model_ok else None)
            if problems is None:
                continue
            if model_ok and (opt[0], opt[1]) != LAYOUT_NOT_RR and "text" in kv:
                add_rval(rvals, shapes, stats, st, kv)
            if model_ok and (opt[0], opt[1]) == (0, 0) and "buf2" in kv and id(built) not in srt_seen:
                srt_seen.add(id(built))
                try:
                    srts.append((S.srt_op(st, mod.default_order, prep["orders"], built), kv.get("upd") == "1",
                                 kv["buf2"], st, prep, opt, I.unhex(kv["text"])))
                except S.NoSrt as e:
                    stats["srt_skipped"] = stats.get("srt_skipped", 0) + 1
                    stats.setdefault("srt_skipped_why", {})
                    why = str(e).split(" ")[0]
                    stats["srt_skipped_why"][why] = stats["srt_skipped_why"].get(why, 0) + 1
            for ftag in struct_features(st):
                stats["feature_" + ftag] = stats.get("feature_" + ftag, 0) + 1
            stats["options_m%d_c%d" % opt[:2]] = stats.get("options_m%d_c%d" % opt[:2], 0) + 1
            chk.nontrivial("%s/%s/%s/%r" % (mod.name, st.name, bytes(built.buf).hex(), opt))
            if not problems:
                continue
            report(chk, stats, reported, mod, origin, prep, st, built, opt, kv, problems, parsed, second[mi], ci, ln)
        if len(chk.cov["samples"]) < 5 and out and out[0]:
            kv = dict(x.split("=", 1) for x in out[0].split(" ") if "=" in x)
            if "text" in kv:
                chk.sample({"struct": meta[0][0].name, "options": meta[0][2], "buffer": lines[0].split(" ")[5],
                            "text": I.unhex(kv["text"])[:400]})
    # second pass: multi-line texts hit by the known array finding are re-read with commas added,
    # so that the rest of the round trip is still judged
    items2 = [(run_items[mi][0], "\n".join(l for _, l in sec) + "\n") for mi, sec in enumerate(second) if sec]
    idx2 = [mi for mi, sec in enumerate(second) if sec]
    for mi, res in zip(idx2, run_many_long(items2, workers=6)):
        mod, origin, prep, meta, lines = metas[mi]
        if res.kind != "ok":
            chk.violation("input", {"emb": prep["text"], "part": "TXT", "observed": "%s: %s" % (res.kind, res.err[-2000:]),
                                    "expected": "no sanitizer report reading a comma-separated multi-line text"})
            continue
        out = res.out.split("\n")[:-1]
        reported = set()
        for (ci, ln), ans in zip(second[mi], out):
            st, built, opt, _trunc = meta[ci]
            chk.count()
            stats["second_pass_with_commas"] = stats.get("second_pass_with_commas", 0) + 1
            kv = dict(x.split("=", 1) for x in ans.split(" ") if "=" in x)
            d1, d2 = parse_dump(I.unhex(kv["d1"])), parse_dump(I.unhex(kv["d2"]))
            if model_ok:
                add_rval(rvals, shapes, stats, st, kv)
            problems = judge_roundtrip(kv, built, d1, d2)
            if problems:
                report(chk, stats, reported, mod, origin + "+commas", prep, st, built, opt, kv, problems, None, None, ci, ln)
    # model at the token / integer level on the real texts
    if model_ok and (tok_texts or int_checks):
        uniq_t = sorted(set(t for t in tok_texts if all(ord(ch) < 256 for ch in t)))
        if tier == "quick":
            uniq_t = uniq_t[:1500]
        uniq_i = sorted(set(int_checks))
        ops = ["TOK " + I.hexs(t) for t in uniq_t] + ["DINT %s %s" % (ty, I.hexs(t)) for ty, t, _ in uniq_i]
        ans = common.Model("model_c06").ask(ops)
        dis = 0
        for t, a in zip(uniq_t, ans):
            want = "toks " + ",".join(I.hexs(x) for x in I.ref_tokens(t))
            if a != want:
                dis += 1
                chk.violation("correspondence", {"op": "TOK", "text": t, "model": a, "observed": want,
                                                 "expected": "model tokenization of a real WriteToString output",
                                                 "theorem_or_correspondence": "model_c06 TOK on real texts"},
                              found_input=False)
        for (ty, t, v), a in zip(uniq_i, ans[len(uniq_t):]):
            if a != "ok %d" % v:
                dis += 1
                chk.violation("correspondence", {"op": "DINT %s" % ty, "text": t, "model": a, "observed": "ok %d" % v,
                                                 "expected": "model decodes the real number text to the field value",
                                                 "theorem_or_correspondence": "model_c06 DINT on real texts"},
                              found_input=False)
        # the writer model on the whole value tree: exact text
        seen, wops = set(), []
        for w in wvals:
            if w[0] not in seen:
                seen.add(w[0])
                wops.append(w)
        if tier == "quick":
            wops = wops[:4000]
        wans = common.Model("model_c06").ask([w[0] for w in wops])
        wdis = 0
        for (op, text, stname, opt), a in zip(wops, wans):
            want = "text " + I.hexs(text)
            if a != want:
                wdis += 1
                if wdis <= 3:
                    chk.violation("correspondence", {
                        "op": op, "struct": stname, "options": opt, "observed": text,
                        "model": I.unhex(a[5:]) if a.startswith("text ") else a,
                        "expected": "the real text satisfies the statement's clauses; the writer model differs",
                        "theorem_or_correspondence": "model_c06 WVAL vs WriteToString"}, found_input=False)
        chk.extra["txt_model_writer_ops"] = chk.extra.get("txt_model_writer_ops", 0) + len(wops)
        chk.extra["txt_model_writer_disagreements"] = chk.extra.get("txt_model_writer_disagreements", 0) + wdis
        # the reader model on the real texts (and on the comma-repaired ones)
        seen, rops = set(), []
        for rv in rvals:
            if rv[0] not in seen:
                seen.add(rv[0])
                rops.append(rv)
        if tier == "quick":
            rops = rops[:4000]
        rans = common.Model("model_c06").ask([x[0] for x in rops])
        rdis = 0
        for (op, text, upd, d2, stname), a in zip(rops, rans):
            kind, writes = R.parse_answer(a)
            bad = None
            if kind not in ("ok", "fail"):
                bad = "model answered %r" % a
            elif (kind == "ok") != upd:
                bad = "model %s, real UpdateFromText returned %s" % (kind, upd)
            elif kind == "ok":
                for pth, v in writes.items():
                    if pth in d2 and not v.startswith("tok:") and d2[pth] != v:
                        bad = "model wrote %s=%s, real view reads %s afterwards" % (pth, v, d2[pth])
                        break
            if bad:
                rdis += 1
                if rdis <= 3:
                    chk.violation("correspondence", {
                        "op": op[:2000], "struct": stname, "text": text, "observed": "UpdateFromText=%s" % upd,
                        "model": a[:1000], "expected": bad,
                        "theorem_or_correspondence": "model_c06 RVAL vs UpdateFromText"}, found_input=False)
        chk.extra["txt_model_reader_ops"] = chk.extra.get("txt_model_reader_ops", 0) + len(rops)
        chk.extra["txt_model_reader_disagreements"] = chk.extra.get("txt_model_reader_disagreements", 0) + rdis
        # the abstract structure round trip (update zeroBuf ∘ writeText on leaf descriptions) vs the
        # bytes the real UpdateFromText left in its zeroed buffer
        sans = common.Model("model_c06").ask([x[0] for x in srts]) if srts else []
        sdis = 0
        for (op, upd, buf2, st, prep, opt, text), a in zip(srts, sans):
            skipf = G.skip_locates_emitted(st)
            stats["srt_ops"] = stats.get("srt_ops", 0) + 1
            if skipf:
                stats["srt_ops_on_skip_finding_structs"] = stats.get("srt_ops_on_skip_finding_structs", 0) + 1
            if a == "fail":
                stats["srt_model_predicts_failure"] = stats.get("srt_model_predicts_failure", 0) + 1
            want = ("ok " + (buf2 or "-")) if upd else "fail"
            if a != want:
                sdis += 1
                if sdis <= 3:
                    chk.violation("correspondence", {
                        "op": op[:4000], "struct": st.name, "emb": prep["text"], "text": text,
                        "options": dict(zip(("multiline", "comments", "base", "grouping"), opt)),
                        "buffer": op.split(" ")[1], "observed": want, "model": a,
                        "expected": "the abstract structure round trip (Lean update/writeText on the leaf "
                                    "description) predicts the bytes after the real round trip",
                        "predicate_skip_locates_emitted": skipf,
                        "theorem_or_correspondence": "model_c06 SRT vs UpdateFromText(WriteToString)"},
                        found_input=False)
        chk.extra["txt_model_struct_roundtrip_ops"] = chk.extra.get("txt_model_struct_roundtrip_ops", 0) + len(srts)
        chk.extra["txt_model_struct_roundtrip_disagreements"] = \
            chk.extra.get("txt_model_struct_roundtrip_disagreements", 0) + sdis
        chk.extra["txt_model_ops"] = chk.extra.get("txt_model_ops", 0) + len(ops)
        chk.extra["txt_model_disagreements"] = chk.extra.get("txt_model_disagreements", 0) + dis


def add_rval(rvals, shapes, stats, st, kv):
    if id(st) not in shapes:
        try:
            shapes[id(st)] = R.struct_shape(st)
        except R.NoShape:
            shapes[id(st)] = None
    sh = shapes[id(st)]
    if sh is None:
        stats["rval_skipped_dynamic_shape"] = stats.get("rval_skipped_dynamic_shape", 0) + 1
        return
    text = I.unhex(kv["text"])
    if any(ord(ch) > 255 for ch in text):
        return
    rvals.append(("RVAL %s %s" % (I.hexs(text) or "-", " ".join(sh)), text, kv.get("upd") == "1",
                  parse_dump(I.unhex(kv["d2"])), st.name))


def report(chk, stats, reported, mod, origin, prep, st, built, opt, kv, problems, parsed, second, ci, ln):
    """Routes a failing case.  Every symptom must be explained by an open finding through that
    finding's narrow predicate, otherwise the case is an ordinary violation."""
    skip_pred = G.skip_locates_emitted(st)
    text = I.unhex(kv.get("text", ""))
    keys, unexplained = [], []
    for p in problems:
        if p.startswith("RT:") and skip_pred:
            k = FINDING_SKIP_KEY
        elif (p.startswith("RT:") and second is not None and opt[0] == 1 and kv.get("upd") != "1"
              and has_long_array(parsed)):
            k = FINDING_ARRAY_KEY
        else:
            unexplained.append(p)
            continue
        if k not in keys:
            keys.append(k)
    if unexplained:
        keys = [None]
    elif FINDING_ARRAY_KEY in keys and FINDING_SKIP_KEY not in keys:
        second.append((ci, ln + " " + I.hexs(add_commas(text))))
    for key in keys:
        if key is not None:
            stats["routed_" + key] = stats.get("routed_" + key, 0) + 1
        sig = (st.name, key, (unexplained or problems)[0][:30])
        if sig in reported:
            continue
        reported.add(sig)
        chk.violation("input", {
            "part": "TXT", "origin": origin, "emb": prep["text"], "struct": st.name,
            "buffer": bytes(built.buf).hex(),
            "options": dict(zip(("multiline", "comments", "base", "grouping"), opt)),
            "text": text, "observed": (unexplained or problems)[:6],
            "expected": "property statement (order / presence / values / round trip)",
            "predicate_skip_locates_emitted": skip_pred}, key=key)


def struct_features(st):
    out = set()
    pos = {f.name: i for i, f in enumerate(st.fields)}
    by = G.field_by_name(st)
    for f in st.fields:
        layout_deps = ([f.cond[0]] if f.cond else []) + ([f.dyn_count] if f.dyn_count else []) + \
            ([f.dyn_offset] if f.dyn_offset else [])
        for d in layout_deps:
            if d in by and by[d].virtual:
                out.add("layout_through_virtual")
                if any(pos.get(s, -1) > pos[f.name] for s in G.physical_sources(st, d)):
                    out.add("layout_through_virtual_input_declared_later")
            elif pos.get(d, -1) > pos[f.name]:
                out.add("layout_input_declared_later")
        if f.cond:
            out.add("conditional")
        if f.attr:
            out.add("attr_" + f.attr)
        if f.dyn_count:
            out.add("dynamic_array")
        if f.dyn_offset:
            out.add("dynamic_offset")
        if f.args:
            out.add("member_with_runtime_parameters")
            if any(isinstance(a, str) and a in by and by[a].virtual for a in f.args):
                out.add("runtime_parameter_through_virtual")
        if f.anonymous_bits is not None:
            out.add("anonymous_bits")
        if f.virtual:
            out.add("virtual_" + f.virtual[0])
        elif f.ftype[0] == "array":
            out.add("array_of_" + f.ftype[1][0])
        elif f.ftype[0] == "struct":
            out.add("nested_" + f.ftype[1].kind)
        elif f.ftype[0] == "scalar":
            out.add("scalar_" + f.ftype[1].kind)
    return out


# --------------------------------------------------------------------- pinned inputs
def _u8():
    return G.Scalar("uint", 8)


def fixed_built(buf, mask, dump, emitted, tree):
    b = G.Built(len(buf))
    b.buf, b.mask, b.dump, b.emitted_paths, b.tree = bytearray(buf), list(mask), list(dump), set(emitted), tree
    return b


def pinned_enum():
    """findings.d/C06.json (fixed, f572d62): negative value of a signed enum in a full-width field
    inside a wider bits container; used to be refused by UpdateFromText."""
    e = G.EnumT("Ee", 16, True, [("NEG", -5), ("POS", 7)])
    u8, en = _u8(), G.Scalar("enum", 16, e)
    bt = G.StructT("FooAnon", "bits", [G.Field("a", ("scalar", u8), 0, 8), G.Field("e", ("scalar", en), 8, 16),
                                       G.Field("b", ("scalar", u8), 24, 8)], 32)
    anon = G.Field("anon", ("struct", bt), 0, 4, anonymous_bits=bt)
    st = G.StructT("Foo", "struct", [anon], 4)
    mod = G.Module("pinenum", [e], [st], "LittleEndian")
    built = fixed_built(b"\x01\xfb\xff\x02", "EEEE", [("a", "1"), ("e", "-5"), ("b", "2")], {"a", "e", "b"},
                        [("a", ("scalar", u8, 1)), ("e", ("scalar", en, -5)), ("b", ("scalar", u8, 2))])
    return mod, "pinned:fixed:" + FIXED_ENUM_KEY, {"Foo": [built]}


def pinned_f1():
    """findings.d/_fixed.json F1-text-output-emit: explicit Emit used to drop the field."""
    a = G.Field("a", ("scalar", _u8()), 0, 1, attr="Emit")
    b = G.Field("b", ("scalar", _u8()), 1, 1)
    st = G.StructT("Foo", "struct", [a, b], 2)
    mod = G.Module("pinf1", [], [st], "LittleEndian")
    built = fixed_built(b"\x05\x09", "EE", [("a", "5"), ("b", "9")], {"a", "b"},
                        [("a", ("scalar", _u8(), 5)), ("b", ("scalar", _u8(), 9))])
    return mod, "pinned:F1-text-output-emit", {"Foo": [built]}


def pinned_f13():
    """findings.d/C06.json: a Skip field that locates an emitted field."""
    n = G.Field("n", ("scalar", _u8()), 0, 1, attr="Skip")
    n.small = True
    data = G.Field("data", ("array", ("scalar", _u8()), None), 1, 1, dyn_count="n")
    st = G.StructT("Foo", "struct", [n, data], 1)
    mod = G.Module("pinf13", [], [st], "LittleEndian")
    built = fixed_built(b"\x02\x07\x09", "ZEE", [("n", "2"), ("data[0]", "7"), ("data[1]", "9")],
                        {"data[0]", "data[1]"},
                        [("data", ("array", [("scalar", _u8(), 7), ("scalar", _u8(), 9)]))])
    return mod, "pinned:" + FINDING_SKIP_KEY, {"Foo": [built]}


def pinned_anon_skip():
    """findings.d/C06.json (fixed, b3c9cb3): Skip on a field inside an anonymous `bits` used to be ignored."""
    u4 = G.Scalar("uint", 4)
    lo = G.Field("lo", ("scalar", u4), 0, 4, attr="Skip")
    hi = G.Field("hi", ("scalar", u4), 4, 4)
    bt = G.StructT("FooAnon", "bits", [lo, hi], 8)
    anon = G.Field("anon", ("struct", bt), 0, 1, anonymous_bits=bt)
    z = G.Field("z", ("scalar", _u8()), 1, 1)
    st = G.StructT("Foo", "struct", [anon, z], 2)
    mod = G.Module("pinanon", [], [st], "LittleEndian")
    built = fixed_built(b"\xa5\x07", "UE", [("lo", "5"), ("hi", "10"), ("z", "7")], {"hi", "z"},
                        [("hi", ("scalar", u4, 10)), ("z", ("scalar", _u8(), 7))])
    return mod, "pinned:fixed:" + FIXED_ANON_KEY, {"Foo": [built]}


def pinned_array():
    """findings.d/C06.json: multi-line output of an array with two elements is not re-readable."""
    xs = G.Field("xs", ("array", ("scalar", _u8()), 2), 0, 2)
    st = G.StructT("Foo", "struct", [xs], 2)
    mod = G.Module("pinarr", [], [st], "LittleEndian")
    built = fixed_built(b"\x01\x02", "EE", [("xs[0]", "1"), ("xs[1]", "2")], {"xs[0]", "xs[1]"},
                        [("xs", ("array", [("scalar", _u8(), 1), ("scalar", _u8(), 2)]))])
    return mod, "pinned:" + FINDING_ARRAY_KEY, {"Foo": [built]}
