"""C16 — the compiler is total: any input yields output or well-formed located errors.

Three layers (DESIGN.md section 7, C16):

 1. Proof (Lean, `Emboss/Properties/C16.lean`) about the *model* of the error plumbing:
    process_ir control, split_errors, import work queue, _Message.format/format_errors,
    make_error_from_parse_error.
 2. Tie of that model to the real code on every run (ops of `model_c16`):
      FORMAT      error.format_errors (plain + colour) on synthetic triples and on every
                  error list the exploration obtained from the real compiler
      SPLITLINES  str.splitlines, REPR repr(str) — the two Python primitives the model re-implements
      PARSEERR    error.make_error_from_parse_error
      PROCESS     the real glue.process_ir driven with stub passes (module attributes patched)
      QUEUE       the real glue.only_parse_emboss_file on random import graphs (dict readers)
      (round 2, harness/corr/C16drv.py) FINDREAD / READERR / PATH / EMBOSSC / FRONTEND / CODEGEN /
                  TOKLOC / MERGE: _find_in_dirs_and_read on real directory trees with file-system
                  faults, the unreadable-file group, the three executables' main() in-process with
                  stubbed front end / back end, token locations and merge_source_locations
 3. Exploration (the main engine for the unmodelled passes): generated inputs through
    glue.parse_emboss_file, header_generator.generate_header, IR serialisation,
    error.format_errors with the real sources, and the executables in subprocesses; the
    oracle is the property statement (no exception; IR xor non-empty list of non-empty
    groups; every message in a known file at a position inside it; renders; never a
    synthetic location on user input).
"""
import json
import multiprocessing
import os
import re
import signal
import subprocess
import sys
import time
import traceback

from harness.lib import common, emb
from harness.corr import C16gen as gen
from harness.corr import C16drv as drv

from compiler.front_end import glue
from compiler.util import error
from compiler.util import parser_types
from compiler.util import resources

PROP = "C16"
MODEL = "model_c16"
CORPUS = os.path.join(common.VERIF, "corpus", PROP)
CASE_TIMEOUT = 20
# narrow predicate of the open finding "astronomically large constant field size": `[+N]`, N >= 10^6
HUGE_SIZE = gen.HUGE


# =================================================================== encoding
def enc(t):
    return ".".join(str(ord(c)) for c in t) if t else "-"


def dec(s):
    return "" if s == "-" else "".join(chr(int(x)) for x in s.split("."))


def enc_loc(loc):
    return "%d,%d,%d,%d,%d" % (loc.start.line, loc.start.column, loc.end.line, loc.end.column,
                               1 if loc.is_synthetic else 0)


SEV = {error.ERROR: "e", error.WARNING: "w", error.NOTE: "n"}


def enc_groups(groups):
    if not groups:
        return "-"
    out = []
    for g in groups:
        out.append("g" + "".join(";%s,%s,%s,%s" % (enc(m.source_file), enc_loc(m.location), SEV[m.severity],
                                                   enc(m.message)) for m in g))
    return "/".join(out)


def enc_sources(sources):
    if not sources:
        return "-"
    return "|".join("%s=%s" % (enc(k), enc(v)) for k, v in sources.items())


# =================================================================== oracle
_prelude = None


def prelude_text():
    global _prelude
    if _prelude is None:
        _prelude = resources.load("compiler.front_end", "prelude.emb")
    return _prelude


def crash_key(exc):
    """crash:<file>:<function>:<ExceptionType> of the innermost emboss frame."""
    repo = os.path.realpath(common.REPO) + os.sep
    tb = traceback.extract_tb(exc.__traceback__)
    if isinstance(exc, RecursionError):
        # the innermost frame is arbitrary; name the emboss function that recurses most
        count = {}
        for fr in tb[-400:]:
            fn = os.path.realpath(fr.filename)
            if fn.startswith(repo):
                k = (os.path.basename(fn), fr.name)
                count[k] = count.get(k, 0) + 1
        if count:
            top = max(count.values())
            f, n = sorted(k for k, v in count.items() if v == top)[0]
            return "crash:%s:%s:RecursionError" % (f, n)
        return "crash:?:?:RecursionError"
    for fr in reversed(tb):
        fn = os.path.realpath(fr.filename)
        if fn.startswith(repo):
            return "crash:%s:%s:%s" % (os.path.basename(fn), fr.name, type(exc).__name__)
    return "crash:?:?:%s" % type(exc).__name__


def tb_tail(exc, n=4):
    tb = traceback.extract_tb(exc.__traceback__)
    return ["%s:%d %s" % (os.path.basename(f.filename), f.lineno, f.name) for f in tb[-n:]] + [repr(exc)[:300]]


def position_problem(pos, lines):
    """Spec: a position is inside a file iff 1 <= line <= n and 1 <= column <= len(line)+1,
    or it is the end-of-file position (n+1, 1)."""
    n = len(lines)
    if pos.line < 1 or pos.line > n + 1:
        return "line %d outside 1..%d" % (pos.line, n + 1)
    if pos.line == n + 1:
        if pos.column != 1:
            return "column %d on the end-of-file line" % pos.column
        return None
    if pos.column < 1 or pos.column > len(lines[pos.line - 1]) + 1:
        return "column %d outside 1..%d" % (pos.column, len(lines[pos.line - 1]) + 1)
    return None


_KEYWORD = re.compile(r"\$[a-z_]+$")


def user_keyword_at(loc, text):
    """The `$keyword` the user wrote at exactly this (single-line) span of `text`, or None."""
    if text is None:
        return None
    lines = text.splitlines()
    if loc.start.line != loc.end.line or not (1 <= loc.start.line <= len(lines)):
        return None
    span = lines[loc.start.line - 1][loc.start.column - 1:loc.end.column - 1]
    return span if _KEYWORD.match(span) else None


def span_text(loc, text):
    """The source text covered by an (already validated, in-file) location."""
    lines = text.splitlines() + [""]
    sl, sc, el, ec = loc.start.line, loc.start.column, loc.end.line, loc.end.column
    if sl == el:
        return lines[sl - 1][sc - 1:ec - 1]
    return "\n".join([lines[sl - 1][sc - 1:]] + lines[sl:el - 1] + [lines[el - 1][:ec - 1]])


_QUOTES_NAME = re.compile(r"(?:Duplicate name|Ambiguous name|No candidate for) '([^'\n]+)'$")


def quoted_name_problem(group, m, f, text):
    """Spec (docs: a message points at the construct it talks about): when a message quotes the
    name of a source object, the span it reports in the file it names shows that name; a message
    of an import-cycle group that names a module is located in that module.  None or (key, why)."""
    first = group[0].message if isinstance(group[0].message, str) else ""
    name = None
    if first.startswith("Import dependency cycle\n"):
        module = m.message.split("\n")[-1]
        if module != f:
            return ("message-about-module-located-in-other-file", "the message is about module %r but is located in %r" % (module, f))
        return None
    if first.startswith("Dependency cycle\n"):
        name = m.message.split("\n")[-1]
    else:
        mm = _QUOTES_NAME.match(m.message)
        if mm:
            name = mm.group(1)
    if not name or name.startswith("$"):
        # `$size_in_bytes`, `$next`, ...: implicit objects of a structure, never written as a definition;
        # their position (the structure) is only subject to the inside-the-file clauses
        return None
    shown = span_text(m.location, text)
    ok = re.search(r"(?<![A-Za-z0-9_$])" + re.escape(name) + r"(?![A-Za-z0-9_])", shown)
    if not ok and re.match(r"[A-Z][A-Za-z0-9]*$", name):
        # language reference: the type of an inline `struct`/`enum`/`bits` field is named by
        # CamelCasing the field's snake_case name (`foo_bar1` defines type `FooBar1`)
        ok = name.lower() in shown.replace("_", "").lower()
    if not ok:
        return ("span-does-not-show-quoted-name", "the message quotes the name %r, the text at that span of %r is %.80r" % (name, f, shown))
    return None


def check_errors(errors, files, main, what):
    """Property statement applied to a list of error groups.  Returns list of
    (key, description)."""
    bad = []
    if not isinstance(errors, list) or not errors:
        return [("malformed-errors", "%s: errors is %r (want a non-empty list)" % (what, errors))]
    sources = dict(files)
    sources[""] = prelude_text()
    for gi, g in enumerate(errors):
        if not g:
            bad.append(("empty-error-group", "%s: group %d is empty" % (what, gi)))
            continue
        for m in g:
            loc = m.location
            if not isinstance(m.message, str) or not isinstance(loc, parser_types.SourceLocation):
                bad.append(("malformed-message", "%s: message %.100r / location %.60r" % (what, m.message, loc)))
                continue
            head = m.message.split("\n")[0][:80]
            if loc.is_synthetic:
                # narrow key: when the hidden position is exactly a `$keyword` the user typed (the
                # location of a desugared `$next`, `$size_in_bytes`, …) the key names that keyword;
                # otherwise the position belongs to text the user never wrote (a skeleton of synthetics.py)
                origin = user_keyword_at(loc, sources.get(m.source_file) if isinstance(m.source_file, str) else None)
                bad.append(("synthetic-location-shown%s:%s" % ("@" + origin if origin else "", msg_kind(g[0])[:48]),
                            "%s: message %r has a synthetic location %s (rendered as [compiler bug])%s" % (
                                what, head, loc, " although it is the position of the `%s` the user wrote" % origin
                                if origin else "")))
                continue
            f = m.source_file
            if not isinstance(f, str):
                bad.append(("message-file-not-a-string", "%s: message %r has source_file %.80r (a %s)" % (
                    what, head, f, type(f).__name__)))
                continue
            if f not in sources:
                unreadable = (g[0].message == "Unable to read file." and loc.start == (1, 1) and loc.end == (1, 1))
                if unreadable and f == main:
                    continue        # the file the user named could not be read: nothing to point into
                if unreadable:
                    bad.append(("unreadable-import-located-in-missing-file",
                                "%s: %r is reported at %s:1:1, a file that does not exist, instead of at the "
                                "import statement" % (what, head, f)))
                    continue
                bad.append(("unknown-file", "%s: message %r names unknown file %r" % (what, head, f)))
                continue
            lines = sources[f].splitlines()
            p = position_problem(loc.start, lines) or position_problem(loc.end, lines)
            if p is None and not (loc.start <= loc.end):
                p = "start after end"
            if p:
                # `0:0` = the message has no location at all (location_or_default); a different class
                # of defect than a position that lies outside its file
                nowhere = loc.start == (0, 0) and loc.end == (0, 0)
                bad.append((("no-position(0:0):" if nowhere else "position-outside-file:") + msg_kind(g[0])[:48],
                            "%s: message %r at %s in %r: %s" % (what, head, loc, f, p)))
                continue
            # round 4: the text at the reported span of the NAMED file must be consistent with the
            # name the message quotes (a right-looking position in the wrong file is caught here)
            q = quoted_name_problem(g, m, f, sources[f])
            if q:
                bad.append((q[0] + ":" + msg_kind(g[0])[:48], "%s: message %r at %s in %r: %s" % (what, m.message[:80], loc, f, q[1])))
    return bad


def render_real(errors, sources):
    """(plain, colour) text or the exception."""
    try:
        return error.format_errors(errors, sources), error.format_errors(errors, sources, use_color=True), None
    except Exception as e:  # noqa: BLE001
        return None, None, e


class _Timeout(Exception):
    pass


def _alarm(signum, frame):
    raise _Timeout()


def msg_kind(m):
    s = str(m.message).split("\n")[0]
    s = re.sub(r"'[^']*'|\"[^\"]*\"|`[^`]*`", "Q", s)
    s = re.sub(r"-?\d+", "N", s)
    return s[:70]


def run_case(case, want_model_lines=True):
    """Run one input through every in-process entry point.  Returns a dict; never raises."""
    res = _run_case_budget(case, want_model_lines, case.get("timeout", CASE_TIMEOUT))
    if res["outcome"] == "timeout" and not any(k.startswith("timeout:constant-field-size") for k, _ in res["bad"]):
        # a budget exhaustion is only believed when it repeats with three times the budget
        # (CPU-time accounting on a heavily shared VM is noisy)
        res = _run_case_budget(case, want_model_lines, 3 * case.get("timeout", CASE_TIMEOUT))
    return res


def _run_case_budget(case, want_model_lines, budget):
    files, main = case["files"], case["main"]
    res = {"kind": case["kind"], "outcome": None, "bad": [], "kinds": [], "fmt": None}
    # CPU-time budget (ITIMER_PROF), not wall time: immune to the load of a shared machine
    old = signal.signal(signal.SIGPROF, _alarm)
    signal.setitimer(signal.ITIMER_PROF, budget)
    try:
        _run_case(case, files, main, res, want_model_lines)
    except _Timeout:
        res["outcome"] = "timeout"
        key = "timeout"
        if any(HUGE_SIZE.search(t) for t in files.values()):
            key = "timeout:constant-field-size>=10^6"
        res["bad"].append((key, "no result within %d s of CPU time" % budget))
    except Exception as e:  # noqa: BLE001  (a defect of this harness, or a message so malformed the oracle fails)
        res["outcome"] = "oracle-failure"
        res["bad"].append(("oracle-failure:%s" % type(e).__name__, "the C16 oracle itself raised: " + " | ".join(tb_tail(e))))
    finally:
        signal.setitimer(signal.ITIMER_PROF, 0)
        signal.signal(signal.SIGPROF, old)
    try:
        if len(glue._cached_modules) > 200:     # private speed-up cache; keep memory bounded
            for k in [k for k in glue._cached_modules if k[1] != ""]:
                del glue._cached_modules[k]
    except AttributeError:
        pass
    return res


def _run_case(case, files, main, res, want_model_lines):
    from compiler.util import test_util
    try:
        r = glue.parse_emboss_file(main, test_util.dict_file_reader(files))
        ir, errors = r.ir, r.errors
    except _Timeout:
        raise
    except Exception as e:  # noqa: BLE001
        res["outcome"] = "crash"
        if isinstance(e, RecursionError) and case.get("nesting", 0) > gen.MAX_NEST:
            res["outcome"] = "out-of-scope-recursion"
            return
        res["bad"].append((crash_key(e), "glue.parse_emboss_file raised: " + " | ".join(tb_tail(e))))
        return
    sources = dict(files)
    sources[""] = prelude_text()
    if errors:
        res["outcome"] = "errors"
        if ir is not None:
            res["bad"].append(("ir-and-errors", "both an IR and errors were returned"))
        res["bad"] += check_errors(errors, files, main, "front end")
        try:
            res["multi_file_groups"] = sum(1 for g in errors if len({m.source_file for m in g}) > 1)
            res["messages"] = sum(len(g) for g in errors)
        except Exception:  # noqa: BLE001
            pass
        try:
            res["kinds"] = [msg_kind(g[0]) for g in errors if g]
        except Exception:  # noqa: BLE001
            pass
        plain, colour, e = render_real(errors, sources)
        if e is not None:
            res["bad"].append((crash_key(e), "error.format_errors raised: " + " | ".join(tb_tail(e))))
        elif want_model_lines and all(g for g in errors) and all(isinstance(m.source_file, str) for g in errors for m in g):
            named = {m.source_file for g in errors for m in g}
            used = {k: v for k, v in sources.items() if k in named}
            res["fmt"] = (enc_sources(used), enc_groups(errors), plain, colour)
        return
    if ir is None:
        res["outcome"] = "nothing"
        res["bad"].append(("neither-ir-nor-errors", "parse_emboss_file returned no IR and no errors"))
        return
    res["outcome"] = "ir"
    # back end + serialisation on the accepted IR
    try:
        from compiler.back_end.cpp import header_generator
        header, berrs = header_generator.generate_header(ir)
    except _Timeout:
        raise
    except Exception as e:  # noqa: BLE001
        res["outcome"] = "ir/backend-crash"
        res["bad"].append((crash_key(e), "header_generator.generate_header raised: " + " | ".join(tb_tail(e))))
        return
    if berrs:
        res["outcome"] = "ir/backend-errors"
        res["bad"] += check_errors(berrs, files, main, "back end")
        res["kinds"] = [msg_kind(g[0]) for g in berrs if g]
        plain, colour, e = render_real(berrs, sources)
        if e is not None:
            res["bad"].append((crash_key(e), "error.format_errors (back end) raised: " + " | ".join(tb_tail(e))))
        elif want_model_lines and all(g for g in berrs) and all(isinstance(m.source_file, str) for g in berrs for m in g):
            named = {m.source_file for g in berrs for m in g}
            used = {k: v for k, v in sources.items() if k in named}
            res["fmt"] = (enc_sources(used), enc_groups(berrs), plain, colour)
    elif not isinstance(header, str) or not header:
        res["bad"].append(("no-header", "generate_header returned neither a header nor errors"))
    if case.get("serialize", True):
        try:
            from compiler.util import ir_data, ir_data_utils
            js = ir_data_utils.IrDataSerializer(ir).to_json()
            ir_data_utils.IrDataSerializer.from_json(ir_data.EmbossIr, js)
        except _Timeout:
            raise
        except Exception as e:  # noqa: BLE001
            res["bad"].append((crash_key(e), "IR (de)serialisation raised: " + " | ".join(tb_tail(e))))


# =================================================================== exploration driver
def _worker(case):
    return run_case(case)


def _limit_memory():
    """Pool initializer: cap the address space of a worker (2 GiB) so that an input which
    makes the compiler build astronomically large integers fails fast with MemoryError
    instead of exhausting the shared machine."""
    import resource
    try:
        resource.setrlimit(resource.RLIMIT_AS, (2 << 30, 2 << 30))
    except (ValueError, OSError):
        pass


def run_cases_isolated(cases, procs=4):
    """run_case for every case, in forked, memory-capped workers."""
    if not cases:
        return []
    ctx = multiprocessing.get_context("fork")
    with ctx.Pool(processes=max(1, min(procs, len(cases))), initializer=_limit_memory) as pool:
        return pool.map(_worker, cases, chunksize=max(1, min(8, len(cases) // (procs * 2) or 1)))


class Explorer:
    def __init__(self, chk):
        self.chk = chk
        self.dist = {}
        self.outcomes = {}
        self.kinds = {}
        self.crash_sites = {}
        self.fmt_cases = []
        self.fmt_budget = 0

    def record(self, case, res):
        chk = self.chk
        chk.count()
        k = case["kind"].split("/")[0]
        self.dist[k] = self.dist.get(k, 0) + 1
        self.outcomes[res["outcome"]] = self.outcomes.get(res["outcome"], 0) + 1
        for kd in res["kinds"][:3]:
            self.kinds[kd] = self.kinds.get(kd, 0) + 1
        x = chk.extra.setdefault("message_groups", {"messages_checked": 0, "groups_spanning_several_files": 0,
                                                    "inputs_with_such_a_group": 0})
        x["messages_checked"] += res.get("messages", 0)
        x["groups_spanning_several_files"] += res.get("multi_file_groups", 0)
        x["inputs_with_such_a_group"] += 1 if res.get("multi_file_groups") else 0
        sig = "%s|%s" % (res["outcome"], res["kinds"][0] if res["kinds"] else "")
        chk.nontrivial(sig)
        if res["outcome"] in ("errors", "ir", "ir/backend-errors"):
            chk.sample({"kind": case["kind"], "outcome": res["outcome"],
                        "first_error": res["kinds"][:1],
                        "input_head": case["files"].get(case["main"], "")[:120]})
        seen = set()
        for key, desc in res["bad"]:
            if key in seen:
                continue
            seen.add(key)
            if key.startswith("crash:"):
                self.crash_sites[key] = self.crash_sites.get(key, 0) + 1
            detail = {"input": case["files"].get(case["main"], ""), "files": case["files"], "main": case["main"],
                      "generator": case["kind"], "observed": desc,
                      "expected": "IR + header, or a non-empty list of non-empty error groups, each message at a "
                                  "position inside a known file, no synthetic location, renders"}
            # one replay per distinct key per run is enough
            tag = "reported:" + key
            if tag in self.chk.extra.setdefault("_reported", {}):
                self.chk.extra["_reported"][tag] += 1
                continue
            self.chk.extra["_reported"][tag] = 1
            chk.violation("input", detail, key=key)
        if res["fmt"] is not None and len(self.fmt_cases) < self.fmt_budget:
            self.fmt_cases.append((case, res["fmt"]))

    def run(self, cases, procs=4, batch=240):
        """Batches, with a circuit breaker: when (nearly) every input exhausts its CPU
        budget — e.g. an import queue that no longer terminates — the first such input is
        already reported as a violation; running thousands more would take hours."""
        timeouts = 0
        starts = [0, 16] + list(range(16 + batch, len(cases), batch))
        for i, j in zip(starts, starts[1:] + [len(cases)]):
            part = cases[i:j]
            if not part:
                continue
            for c, res in zip(part, run_cases_isolated(part, procs)):
                self.record(c, res)
                if res["outcome"] == "timeout" and not any(k.startswith("timeout:constant-field-size") for k, _ in res["bad"]):
                    timeouts += 1
            if timeouts >= 8:
                self.chk.extra["exploration_aborted"] = ("%d inputs exhausted the %d s CPU budget within the first %d; "
                                                         "exploration stopped (violation already reported)" % (
                                                             timeouts, CASE_TIMEOUT, i + len(part)))
                break

    def finish(self):
        x = self.chk.extra
        x["generator_distribution"] = self.dist
        x["outcomes"] = self.outcomes
        x["error_kinds_hit"] = len(self.kinds)
        x["top_error_kinds"] = sorted(self.kinds.items(), key=lambda kv: -kv[1])[:25]
        x["crash_sites_seen"] = self.crash_sites
        x.pop("_caret_reported", None)
        rep = x.pop("_reported", {})
        x["violating_keys_seen"] = rep


# =================================================================== corpus
def load_corpus():
    cases = []
    if os.path.isdir(CORPUS):
        for nm in sorted(os.listdir(CORPUS)):
            p = os.path.join(CORPUS, nm)
            if nm.endswith(".json"):
                with open(p) as f:
                    d = json.load(f)
                files = d.get("files") or {"m.emb": d["input"]}
                cases.append({"kind": "corpus/" + nm, "main": d.get("main", "m.emb"), "files": files,
                              "nesting": max(gen.count_nesting(t) for t in files.values())})
            elif nm.endswith(".emb"):
                with open(p, newline="") as f:
                    t = f.read()
                cases.append({"kind": "corpus/" + nm, "main": "m.emb", "files": {"m.emb": t},
                              "nesting": gen.count_nesting(t)})
    return cases


def testdata_cases():
    td = gen.testdata()
    return [{"kind": "testdata/" + os.path.basename(n), "main": n, "files": td,
             "nesting": gen.count_nesting(td[n])} for n in sorted(td)]


def known_cases(chk):
    """Pinned input of every open finding of this property (re-executed on every run)."""
    out = []
    for k in chk.known:
        if k.get("property") == PROP and k.get("status") == "open" and k.get("input") is not None \
                and not k.get("cli_only"):
            files = k.get("files") or {"m.emb": k["input"]}
            c = {"kind": "known/" + k["key"], "main": k.get("main", "m.emb"), "files": files, "nesting": 0}
            c["timeout"] = k.get("timeout") or 40
            out.append((k, c))
    return out


# =================================================================== model ties
def ask(lines):
    return common.Model(MODEL).ask(lines)


class Tie:
    """Collects (op line, expected answer, context) and compares in one driver call."""

    def __init__(self, chk, name):
        self.chk, self.name = chk, name
        self.items = []

    def add(self, line, want, ctx, spec_ok=True, norm=None):
        """`norm`: optional normalisation of the model's answer before the comparison."""
        self.items.append((line, want, ctx, spec_ok, norm))

    def flush(self):
        if not self.items:
            return 0
        answers = ask([i[0] for i in self.items])
        bad = 0
        for (line, want, ctx, spec_ok, norm), got in zip(self.items, answers):
            self.chk.count()
            if norm is not None:
                got = norm(got)
            if got != want or not spec_ok:
                bad += 1
                if bad <= 3:
                    # spec_ok: the real output satisfied the independent spec oracle ⇒ the model differs
                    self.chk.violation("correspondence" if spec_ok else "input",
                                       dict(ctx, op=line[:2000], model=got[:2000], observed=want[:2000],
                                            theorem_or_correspondence="%s: model_c16 vs real code" % self.name,
                                            expected="model and real code agree"),
                                       found_input=not spec_ok)
        n = len(self.items)
        self.chk.extra.setdefault("tie", {})[self.name] = {"compared": n, "disagreements": bad}
        self.items = []
        return bad


def real_format_answer(groups, sources, color):
    try:
        return "ok " + enc(error.format_errors(groups, sources, use_color=color))
    except IndexError:
        return "crash IndexError"
    except AssertionError as e:
        return "crash AssertionError:empty-group" if "empty error_group" in str(e) else "crash AssertionError:?"
    except Exception as e:  # noqa: BLE001
        return "crash %s" % type(e).__name__


def gen_format_cases(r, n):
    """Synthetic (message, location, source) triples: synthetic locations, multi-line
    messages, zero-width, multi-line spans, line n+1, line 0, empty file, missing file,
    prelude name, every line-break character."""
    breaks = ["\n", "\r", "\r\n", "\x0b", "\x0c", "\x1c", "\x1d", "\x1e", "\x85", " ", " "]
    for i in range(n):
        nlines = r.choice([0, 1, 1, 2, 3, 5])
        src = ""
        for j in range(nlines):
            src += "".join(r.choice("abc xyz:[]+é\t") for _ in range(r.choice([0, 1, 4, 9])))
            if j < nlines - 1 or r.random() < 0.6:
                src += r.choice(breaks if r.random() < 0.4 else ["\n"])
        files = {"m.emb": src}
        if r.random() < 0.3:
            files["other.emb"] = "x\ny\n"
        if r.random() < 0.2:
            files[""] = "prelude line\nsecond\n"
        real_lines = src.splitlines()
        groups = []
        for g in range(r.choice([1, 1, 2, 3])):
            grp = []
            for m in range(r.choice([1, 1, 2, 3])):
                k = r.random()
                if k < 0.1:
                    loc = None
                elif k < 0.2:
                    loc = parser_types.SourceLocation((1, 1), (1, 1), is_synthetic=True)
                else:
                    l0 = r.choice([1, 1, 2, len(real_lines), len(real_lines) + 1, len(real_lines) + 2, 7])
                    l0 = max(1, l0)
                    c0 = r.choice([1, 1, 2, 3, 10])
                    if r.random() < 0.7:
                        l1, c1 = l0, c0 + r.choice([0, 0, 1, 2, 5])
                    else:
                        l1, c1 = l0 + r.choice([1, 2]), r.choice([1, 3])
                    loc = parser_types.SourceLocation((l0, c0), (l1, c1), is_synthetic=r.random() < 0.1)
                text = r.choice(["Syntax error", "", "one\ntwo", "one\ntwo\n", "\n", "a\r\nb", "a\x0cb",
                                 "Unrecognized token", "x" * 30, "tab\there", "é"])
                mk = r.choice([error.error, error.error, error.warn, error.note])
                fname = r.choice(["m.emb", "m.emb", "m.emb", "other.emb", "missing.emb", ""])
                grp.append(mk(fname, loc, text))
            groups.append(grp)
        if r.random() < 0.03:
            groups.insert(r.randrange(len(groups) + 1), [])
        if r.random() < 0.02:
            groups = []
        yield files, groups


def spec_caret_ok(groups, files):
    """Spec of the snippet (independent of the code): when a message lies on an existing,
    non-empty line of a known file, the last two pieces are that line and an indicator of
    `column-1` blanks followed by one caret per located character (at least one; exactly one
    for multi-line spans)."""
    for g in groups:
        for m in g:
            loc = m.location
            if loc.is_synthetic or m.source_file not in files:
                continue
            lines = files[m.source_file].splitlines()
            if not (1 <= loc.start.line <= len(lines)) or not lines[loc.start.line - 1]:
                continue
            try:
                pieces = m.format(files)
            except Exception:  # noqa: BLE001
                return False
            width = max(1, loc.end.column - loc.start.column) if loc.start.line == loc.end.line else 1
            if len(pieces) < 2 or pieces[-2][1] != lines[loc.start.line - 1] + "\n" or \
                    pieces[-1][1] != " " * (loc.start.column - 1) + "^" * width:
                return False
    return True


def tie_format(chk, r, n, explored):
    t = Tie(chk, "FORMAT")
    for files, groups in gen_format_cases(r, n):
        caret_ok = spec_caret_ok(groups, files)
        if not caret_ok and not chk.extra.get("_caret_reported"):
            chk.extra["_caret_reported"] = True
            chk.violation("input", {"files": files, "groups": repr(groups)[:1500],
                                    "observed": real_format_answer(groups, files, False)[:600],
                                    "expected": "source line followed by column-1 blanks and max(1, end-start) carets"},
                          key="caret-does-not-mark-span")
        for color in (False, True):
            want = real_format_answer(groups, files, color)
            line = "FORMAT %d %s %s" % (1 if color else 0, enc_sources(files), enc_groups(groups))
            # spec: rendering never fails when every group is non-empty; the caret line marks the span
            spec_ok = not (want.startswith("crash") and all(groups)) and caret_ok
            t.add(line, want, {"files": files, "groups": repr(groups)[:1500]}, spec_ok)
            if want.startswith("ok"):
                chk.nontrivial("fmt:" + want[:60])
    for case, (srcs, grps, plain, colour) in explored:
        t.add("FORMAT 0 %s %s" % (srcs, grps), "ok " + enc(plain), {"files": case["files"], "main": case["main"]})
        t.add("FORMAT 1 %s %s" % (srcs, grps), "ok " + enc(colour), {"files": case["files"], "main": case["main"]})
    return t.flush()


def tie_primitives(chk, r, n):
    t = Tie(chk, "SPLITLINES/REPR")
    alphabet = ["a", "b", " ", "\n", "\r", "\r\n", "\n\r", "\x0b", "\x0c", "\x1c", "\x1d", "\x1e", "\x85",
                " ", " ", "\t", "é", "\x00", "\x1f", "\x7f", "'", '"', "\\"]
    for i in range(n):
        s = "".join(r.choice(alphabet) for _ in range(r.choice([0, 1, 2, 3, 5, 9])))
        t.add("SPLITLINES " + enc(s), ("lines " + "|".join(enc(x) for x in s.splitlines())), {"text": s})
        if all(ord(c) < 128 for c in s):
            t.add("REPR " + enc(s), "repr " + enc(repr(s)), {"text": s})
    return t.flush()


def tie_parse_error(chk, r, n, real_parse_errors):
    from compiler.front_end import lr1
    t = Tie(chk, "PARSEERR")
    symbols = ['"\\n"', "Indent", "Dedent", "SnakeWord", "CamelWord", '"["', '"struct"', "$", "Comment", "Number"]
    items = []
    for i in range(n):
        code = r.choice([None, None, "", "Body of a type definition must be non-empty and indented.", "A\nB"])
        text = r.choice(["", "x", "struct", "\n", "it's", 'say "x"', "both ' and \"", "\\", "\t", "0x_ff"])
        sym = r.choice(symbols)
        k = r.random()
        if k < 0.15:
            loc = None
        elif k < 0.25:
            loc = parser_types.SourceLocation()
        elif k < 0.32:
            # a location that has no position but knows it is synthetic (write_inference,
            # symbol_resolver and synthetics._mark_as_synthetic make such locations)
            loc = parser_types.SourceLocation(is_synthetic=True)
        else:
            a, b = r.randint(1, 9), r.randint(1, 9)
            loc = parser_types.SourceLocation((a, b), (a, b + r.randint(0, 4)), is_synthetic=r.random() < 0.1)
        exp = set(r.sample(symbols, r.randint(0, 6)))
        items.append(("f.emb", lr1.ParseError(code, 0, parser_types.Token(sym, text, loc), 0, exp)))
    items += real_parse_errors
    for fname, pe in items:
        if not (hasattr(pe.token, "text") and hasattr(pe.token, "source_location")):
            continue    # not a Token (the pre-1f5badf end-of-input Symbol): the exploration reports that crash
        if not all(ord(c) < 128 for c in pe.token.text):
            continue
        try:
            g = error.make_error_from_parse_error(fname, pe)
            want = "msg %s %s" % (enc_loc(g[0].location), enc(g[0].message))
            spec_ok = len(g) == 1
        except Exception as e:  # noqa: BLE001
            want, spec_ok = "crash %s" % type(e).__name__, False
        loc = pe.token.source_location
        line = "PARSEERR %s %s %s %s %s %s" % (
            enc(fname), "none" if pe.code is None else enc(pe.code), enc(pe.token.text), enc(pe.token.symbol),
            "none" if loc is None else enc_loc(loc),
            "/".join(enc(x) for x in pe.expected_tokens) if pe.expected_tokens else "-")
        t.add(line, want, {"parse_error": repr(pe)[:600]}, spec_ok)
    return t.flush()


# ---- process_ir with stub passes
def discover_passes():
    """Names of the passes of the real process_ir (from its own assertion message) and the
    module attribute behind each, so that they can be replaced by stubs."""
    try:
        glue.process_ir(None, "\0no-such-step")
    except AssertionError as e:
        m = re.search(r"Valid values: (.*)$", str(e), re.S)
        if not m:
            return None
        names = m.group(1).split()
    except Exception:  # noqa: BLE001
        return None
    else:
        return None
    slots = []
    for nm in names:
        found = [(mod, nm) for mod in vars(glue).values()
                 if type(mod).__name__ == "module" and callable(getattr(mod, nm, None))
                 and getattr(getattr(mod, nm), "__name__", None) == nm
                 and getattr(mod, "__name__", "").startswith("compiler.")]
        if not found:
            return None
        slots.append(found)
    return names, slots


def spec_process(names, stubs, stop):
    """The statement of the property, independently: the first pass (before `stop`) that
    reports a group without synthetic location decides and only such groups are shown;
    synthetic groups surface only if no pass reported a user group and the pipeline ran to
    the end.  Returns the expected answer line."""
    def ids(pi, gi, flags):
        return "e" if flags == "e" else ";".join("%d.%d.%d" % (pi, gi, mi) for mi in range(len(flags)))
    deferred = []
    ran = []
    for pi, (nm, groups) in enumerate(zip(names, stubs)):
        if nm == stop:
            return "ir " + ",".join(ran)
        ran.append(nm)
        user = [ids(pi, gi, g) for gi, g in enumerate(groups) if "s" not in g]
        if user:
            return "errors " + "/".join(user)
        deferred += [ids(pi, gi, g) for gi, g in enumerate(groups) if "s" in g]
    if deferred:
        return "errors " + "/".join(deferred)
    return "ir " + ",".join(ran)


def tie_process(chk, r, n):
    d = discover_passes()
    if d is None:
        chk.violation("correspondence", {"theorem_or_correspondence": "PROCESS: cannot locate the passes of "
                                         "glue.process_ir to drive it with stubs", "expected": "pass list discoverable"},
                      found_input=False)
        return 1
    names, slots = d
    chk.extra["process_ir_passes"] = names
    t = Tie(chk, "PROCESS")
    saved = [(mod, nm, getattr(mod, nm)) for found in slots for mod, nm in found]
    try:
        for i in range(n):
            stubs = []
            p_err = r.choice([0.0, 0.05, 0.15, 0.4])
            for _ in names:
                groups = []
                if r.random() < p_err:
                    for _g in range(r.choice([1, 1, 2, 3])):
                        if r.random() < 0.04:
                            groups.append("e")
                        else:
                            mode = r.choice(["u", "u", "s", "mix"])
                            k = r.choice([1, 1, 2, 3])
                            groups.append("".join(r.choice("us") if mode == "mix" else mode for _m in range(k)))
                stubs.append(groups)
            stop = r.choice([None, None, None, r.choice(names), r.choice(names), "bogus", ""])
            ran = []

            def make(pi, nm, groups):
                def stub(ir):
                    ran.append(nm)
                    out = []
                    for gi, flags in enumerate(groups):
                        if flags == "e":
                            out.append([])
                            continue
                        out.append([error.error("m", parser_types.SourceLocation((1, 1), (1, 1), is_synthetic=(f == "s")),
                                                "%d.%d.%d" % (pi, gi, mi)) for mi, f in enumerate(flags)])
                    return out
                stub.__name__ = nm
                return stub
            for pi, (nm, found) in enumerate(zip(names, slots)):
                for mod, attr in found:
                    setattr(mod, attr, make(pi, nm, stubs[pi]))
            token = object()
            try:
                ir, errs = glue.process_ir(token, stop)
                if errs:
                    want = "errors " + "/".join("e" if not g else ";".join(m.message for m in g) for g in errs)
                    if ir is not None:
                        want += " +ir"
                else:
                    want = "ir " + ",".join(ran) + ("" if ir is token else " (ir replaced)")
            except AssertionError as e:
                want = "crash AssertionError:" + ("bad-stop-step" if "Valid values" in str(e) else "late-stop")
            except Exception as e:  # noqa: BLE001
                want = "crash %s" % type(e).__name__
            # spec oracle on the real result
            spec_ok = True
            if stop is None or stop in names:
                spec_ok = want == spec_process(names, stubs, stop)
            line = "PROCESS %s %s" % ("-" if stop is None else stop,
                                      "/".join("%s:%s" % (nm, "+".join(gs) if gs else "-") for nm, gs in zip(names, stubs)))
            if stop == "" or (stop and " " in stop):
                continue    # not expressible in the line protocol
            t.add(line, want, {"stubs": stubs, "stop": stop}, spec_ok)
            chk.nontrivial("proc:" + want[:40])
    finally:
        for mod, nm, fn in saved:
            setattr(mod, nm, fn)
    return t.flush()


# ---- import queue
def gen_import_graph(r):
    n = r.choice([1, 2, 3, 4, 5, 7, 9])
    names = ["n%d" % i for i in range(n)]
    bad = set(nm for nm in names[1:] if r.random() < 0.08)
    missing = ["gone%d" % i for i in range(2)]
    graph = {}
    for nm in names:
        k = r.choice([0, 1, 1, 2, 3, 4])
        pool = names + (missing if r.random() < 0.1 else []) + ([""] if r.random() < 0.1 else [])
        graph[nm] = [r.choice(pool) for _ in range(k)]
    files = {}
    for nm in names:
        if nm in bad:
            files[nm] = "struct Foo:\n  bad bad\n"
            continue
        lines = ['import "%s" as i%d' % (im, j) for j, im in enumerate(graph[nm])]
        lines += ["struct S:", "  0 [+1]  UInt  a"]
        files[nm] = "\n".join(lines) + "\n"
    root = r.choice(names[:2] + ([""] if r.random() < 0.03 else []) + (["absent"] if r.random() < 0.03 else []))
    return files, root


def tie_queue(chk, r, n):
    from compiler.util import test_util
    t = Tie(chk, "QUEUE")
    pre = glue.get_prelude()
    pre_imports = [i.file_name.text for i in pre.ir.foreign_import]
    show = lambda f: "@" if f == "" else f  # noqa: E731
    for i in range(n):
        files, root = gen_import_graph(r)
        # per-file import lists as the real module_ir produces them
        nodes = []
        for nm, text in sorted(files.items()):
            one = glue.parse_module_text(text, nm)
            if one.errors:
                nodes.append(nm + "!")
            else:
                nodes.append("%s>%s" % (nm, ",".join(show(x.file_name.text) for x in one.ir.foreign_import)))
        nodes.append("@>" + ",".join(show(x) for x in pre_imports))
        calls = []
        base = test_util.dict_file_reader(files)

        def reader(name):
            calls.append(name)
            return base(name)
        old = signal.signal(signal.SIGPROF, _alarm)
        signal.setitimer(signal.ITIMER_PROF, 20)
        try:
            try:
                ir, dbg, errs = glue.only_parse_emboss_file(root, reader)
            finally:
                signal.setitimer(signal.ITIMER_PROF, 0)
                signal.signal(signal.SIGPROF, old)
        except _Timeout:
            chk.violation("input", {"files": files, "main": root, "input": files.get(root, ""),
                                    "observed": "only_parse_emboss_file: no result within 20 s of CPU time "
                                                "(%d reads, %d distinct)" % (len(calls), len(set(calls))),
                                    "expected": "terminates; each file read at most once"}, key="timeout:import-queue")
            break
        except Exception as e:  # noqa: BLE001
            chk.violation("input", {"files": files, "main": root, "input": files.get(root, ""),
                                    "observed": "only_parse_emboss_file raised " + " | ".join(tb_tail(e)),
                                    "expected": "modules or errors"}, key=crash_key(e))
            continue
        spec_ok = len(calls) == len(set(calls)) and "" not in calls     # each file read at most once
        if errs:
            # modules recorded in debug_info: parsed ones (+ the failing one if it was readable)
            parsed = [k for k in dbg.modules]
            failing = calls[-1] if calls else "?"
            if parsed and parsed[-1] == failing:
                parsed = parsed[:-1]
            want = "errors %s parsed=%s" % (show(failing), ",".join(show(k) for k in parsed))
        else:
            mods = [m.source_file_name for m in ir.module]
            want = "done " + ",".join(show(m) for m in mods)
            spec_ok = spec_ok and len(mods) == len(set(mods)) and mods[0] == root and \
                [m for m in mods if m != ""] == calls
            chk.nontrivial("queue:%d:%s" % (len(mods), want[:50]))
        line = "QUEUE %d %s %s" % (len(files) + 3, show(root), "|".join(nodes))
        t.add(line, want, {"files": files, "main": root}, spec_ok)
        if r.random() < 0.05:
            # starve the model of fuel: it must say so, never invent a result
            t.add("QUEUE 0 %s %s" % (show(root), "|".join(nodes)), "fuel", {"files": files, "main": root})
    return t.flush()


# =================================================================== executables
def cli_cases(r, n, pool_cases):
    out = []
    # raw bytes that are not UTF-8, an unreadable path, a directory as input
    out.append({"kind": "cli/raw-bytes", "raw": {"m.emb": b"struct Foo:\n  0 [+1]  UInt  x  # \xff\xfe\n"}, "main": "m.emb"})
    out.append({"kind": "cli/missing", "raw": {}, "main": "m.emb"})
    # names the operating system refuses outright (not an OSError): NUL inside an import name
    out.append({"kind": "cli/nul-in-import-name", "main": "m.emb",
                "raw": {"m.emb": b'import "a\x00b.emb" as x\nstruct Foo:\n  0 [+1]  UInt  x\n'}})
    # file-system level faults: main file / imports that exist but cannot be opened as text,
    # across one or two --import-dir's (quick: a rotating sample, thorough: all of them)
    out += drv.fs_cli_cases(r, 10 if n < 50 else 10 ** 6)
    picks = r.sample(pool_cases, min(n, len(pool_cases)))
    for c in picks:
        if all(_plain_name(k) for k in c["files"]):
            out.append({"kind": "cli/" + c["kind"], "raw": {k: v.encode("utf-8", "surrogatepass") for k, v in c["files"].items()},
                        "main": c["main"], "case": c})
    return out


def _plain_name(k):
    """File names that can be written below a scratch directory as they are."""
    return bool(re.match(r"^[A-Za-z0-9_./-]+$", k)) and not k.startswith("/") and \
        all(part not in ("", ".", "..") for part in k.split("/"))


def run_cli(job):
    idx, c, tool = job
    d = os.path.join(common.scratch(), "cli%d" % idx)
    os.makedirs(d, exist_ok=True)
    for k, v in c["raw"].items():
        p = os.path.join(d, "in", k)
        try:
            os.makedirs(os.path.dirname(p), exist_ok=True)
            with open(p, "wb") as f:
                f.write(v)
        except OSError:
            return idx, [], False       # file set not representable on disk (a/b next to a): skip
    os.makedirs(os.path.join(d, "in"), exist_ok=True)
    env = dict(os.environ, PYTHONPATH=common.REPO)
    py = sys.executable
    steps = []
    import_dirs = [os.path.join(d, "in")]
    if "fs" in c:
        import_dirs = drv.build_fs_case(os.path.join(d, "in"), c)
        if import_dirs is None:
            return idx, [], False       # layout not representable on this file system: skip
    dir_args = [x for i in import_dirs for x in ("--import-dir", i)]
    if tool == "embossc":
        cmd = [py, os.path.join(common.REPO, "embossc")] + dir_args + [
            "--output-path", os.path.join(d, "out"), "--color-output", "always" if idx % 2 else "never", c["main"]]
        steps.append(("embossc", cmd, None))
    else:
        irf = os.path.join(d, "ir.json")
        steps.append(("emboss_front_end", [py, "-m", "compiler.front_end.emboss_front_end"] + dir_args + [
            "--output-file", irf, c["main"]], None))
        steps.append(("emboss_codegen_cpp", [py, "-m", "compiler.back_end.cpp.emboss_codegen_cpp",
                                             "--input-file", irf, "--output-file", os.path.join(d, "out.h")], irf))
    res = []
    for name, cmd, needs in steps:
        if needs and not os.path.exists(needs):
            break
        try:
            p = subprocess.run(cmd, cwd=d, env=env, stdout=subprocess.PIPE, stderr=subprocess.PIPE, timeout=180)
        except subprocess.TimeoutExpired:
            res.append((name, "timeout", "", ""))
            break
        res.append((name, p.returncode, p.stderr.decode(errors="replace"), " ".join(cmd[1:])))
        if p.returncode != 0:
            break
    produced = os.path.exists(os.path.join(d, "out", c["main"] + ".h")) or os.path.exists(os.path.join(d, "out.h"))
    return idx, res, produced


def explore_cli(chk, r, n, pool_cases, procs=4):
    cases = cli_cases(r, n, pool_cases)
    jobs = []
    for i, c in enumerate(cases):
        jobs.append((i, c, "embossc" if i % 3 != 2 else "split"))
    stats = {"runs": 0, "exit0": 0, "exit1": 0}
    ctx = multiprocessing.get_context("fork")
    with ctx.Pool(processes=procs) as pool:
        results = pool.map(run_cli, jobs)
    for (idx, res, produced), (_, c, tool) in zip(results, jobs):
        for name, rc, stderr, cmd in res:
            stats["runs"] += 1
            chk.count()
            problem = None
            if rc == "timeout":
                problem = ("cli-timeout:" + name, "no exit within 180 s")
            elif "Traceback (most recent call last)" in stderr:
                m = re.findall(r'File "([^"]+)", line \d+, in (\S+)', stderr)
                exc = re.findall(r"^(\w+(?:\.\w+)*(?:Error|Exception))\b", stderr, re.M)
                repo = os.path.realpath(common.REPO) + os.sep
                site = [(os.path.basename(f), fn) for f, fn in m if os.path.realpath(f).startswith(repo)]
                exc_name = exc[-1].split(".")[-1] if exc else "?"
                where = site[-1] if site else ("?", "?")
                if exc_name == "RecursionError" and site:
                    # same rule as crash_key(): the innermost frame is arbitrary, name the emboss function
                    # that recurses most among the last 400 frames
                    count = {}
                    for k in site[-400:]:
                        count[k] = count.get(k, 0) + 1
                    top = max(count.values())
                    where = sorted(k for k, v in count.items() if v == top)[0]
                key = "crash:%s:%s:%s" % (where[0], where[1], exc_name)
                problem = (key, "%s printed a traceback (exit %s): %s" % (name, rc, stderr[-600:]))
            elif rc not in (0, 1):
                problem = ("cli-exit-status:" + name, "exit status %r, stderr %s" % (rc, stderr[-300:]))
            elif rc == 1 and not stderr.strip():
                problem = ("cli-silent-failure:" + name, "exit 1 without any message")
            if rc == 0:
                stats["exit0"] += 1
            elif rc == 1:
                stats["exit1"] += 1
            if problem:
                files = {k: v.decode("latin-1") for k, v in c["raw"].items()}
                chk.violation("input", {"input": files.get(c["main"], ""), "files_latin1": files, "main": c["main"],
                                        "fs_layout": c.get("fs"), "tool": name, "cmd": cmd, "observed": problem[1],
                                        "expected": "exit 0 with output, or exit 1 with error messages, no traceback"},
                              key=problem[0])
        last = res[-1] if res else None
        if "fs" in c and last and last[1] in (0, 1):
            stats["fs_cases"] = stats.get("fs_cases", 0) + 1
            chk.nontrivial("cli-fs:%s:%s" % (c["kind"], last[1]))
            # spec: compiles iff some import directory, in order, provides a readable file; an unreadable
            # one is reported as "Unable to read file." (exit 1)
            complete = last[1] == 0 and len(res) == (1 if tool == "embossc" else 2)
            if (c["expect"] == 0) != complete or (c["expect"] == 1 and "Unable to read file." not in last[2]):
                chk.violation("input", {"input": c["fs"]["main_text"] if c["fs"]["role"] == "import" else "", "main": c["main"],
                                        "fs_layout": c["fs"], "tool": last[0], "cmd": last[3],
                                        "observed": "exit %s, stderr %s" % (last[1], last[2][-400:]),
                                        "expected": "exit %d%s" % (c["expect"], " with 'Unable to read file.'" if c["expect"] else "")},
                              key="cli-fs-fault-misreported:" + c["fs"]["states"][0])
        if last and last[1] == 0 and len(res) == (1 if tool == "embossc" else 2) and not produced:
            chk.violation("input", {"input": "", "main": c["main"], "observed": "exit 0 but no header written",
                                    "expected": "header file"}, key="cli-no-output")
        # in-process and executable agree on accept/reject
        if "case" in c and last and last[1] in (0, 1):
            rr = run_case(dict(c["case"], serialize=False), want_model_lines=False)
            inproc_ok = rr["outcome"] == "ir"
            cli_ok = last[1] == 0 and len(res) == (1 if tool == "embossc" else 2)
            if rr["outcome"] in ("ir", "errors", "ir/backend-errors") and inproc_ok != cli_ok:
                chk.violation("input", {"input": c["case"]["files"].get(c["main"], ""), "files": c["case"]["files"],
                                        "main": c["main"], "observed": "in-process outcome %s, %s exit %s" % (
                                            rr["outcome"], tool, last[1]),
                                        "expected": "the executable accepts exactly what the library accepts"},
                              key="cli-disagrees-with-library")
    chk.extra["cli"] = stats


# =================================================================== run
def exploration(chk, tier, with_model):
    r = common.rng("C16-explore")
    ex = Explorer(chk)
    ex.fmt_budget = 250 if tier == "quick" else 2500
    # pinned inputs of open findings first: still failing ⇒ KNOWN-FINDING line
    kc = known_cases(chk)
    for (k, case), res in zip(kc, run_cases_isolated([c for _, c in kc])):
        chk.count()
        if any(key == k["key"] for key, _ in res["bad"]):
            chk.report_known(k)
        else:
            chk.extra.setdefault("known_not_reproduced", []).append(k["key"])
        for key, desc in res["bad"]:
            if key != k["key"]:
                ex.record(case, {"kind": case["kind"], "outcome": res["outcome"], "bad": [(key, desc)],
                                 "kinds": [], "fmt": None})
    first = load_corpus() + testdata_cases() + gen.boundary_cases()
    n = 1000 if tier == "quick" else 6000
    cases = first + [gen.pick(r) for _ in range(n)]
    # round 4: multi-module source sets with cross-module cycles / multi-message groups; appended
    # (own random stream) so that the inputs of the established streams stay what they were
    rx = common.rng("C16-xmod")
    xdet = gen.xmod_boundary_cases()
    cases += xdet + [gen.gen_xmod(rx) for _ in range(120 if tier == "quick" else 1500)]
    chk.extra["xmod_enumerated_cases"] = len(xdet)
    t0 = time.time()
    ex.run(cases, procs=4)
    chk.extra["exploration_s"] = round(time.time() - t0, 1)
    chk.extra["corpus_and_boundary_cases"] = len(first)
    return ex, cases


_explored = {}


def search(chk):
    """Model-free: the exploration itself is the search (spec oracle on the real code)."""
    before = len(chk.violations)
    ex, cases = exploration(chk, chk.tier, with_model=False)
    _explored["done"] = (ex, cases)
    return len(chk.violations) - before


def run(tier):
    try:
        return _run(tier)
    except (common.InfraError, subprocess.TimeoutExpired):
        raise
    except Exception as e:  # noqa: BLE001  — a defect of this harness is an infrastructure failure, never a verdict
        raise common.InfraError("C16 harness failure: " + " | ".join(tb_tail(e, 6)))


def _run(tier):
    chk = common.Check(PROP, tier, exes=[MODEL])
    chk.cov["rule"] = ("one evaluation = one input through an entry point, or one model/real comparison, or "
                       "(round 3) one node location of a real module IR checked by the IR-location oracle; "
                       "non-trivial & distinct = distinct (outcome class, normalised first error message) of the "
                       "exploration + distinct model answers of the FORMAT/PROCESS/QUEUE ties")
    chk.trusted += ["Python str.splitlines/repr as oracles for the model's re-implementations (tied by ops SPLITLINES/REPR)",
                    "open()/os.path as primitives: the per-directory outcome of open().read() is classified by the harness and "
                    "given to the model (FINDREAD); os.path.join/dirname are tied by PATH",
                    "the exploration samples: totality of passes outside the model (module_ir, symbol_resolver, "
                    "type_check, expression_bounds, constraints, attribute checkers, write_inference, back end) is "
                    "exploration only"]
    model_ok = common.proof_gate(chk, search)
    if "done" in _explored:
        ex, cases = _explored["done"]
    else:
        ex, cases = exploration(chk, tier, with_model=model_ok)
    r = common.rng("C16-tie")
    phase = chk.extra.setdefault("phase_s", {})

    def timed(name, f, *a):
        t0 = time.time()
        out = f(*a)
        phase[name] = round(time.time() - t0, 1)
        return out
    if model_ok:
        q = tier == "quick"
        real_pes = timed("collect_parse_errors", collect_parse_errors, cases[: (400 if q else 6000)])
        timed("tie_primitives", tie_primitives, chk, r, 1500 if q else 20000)
        timed("tie_format", tie_format, chk, r, 600 if q else 8000, ex.fmt_cases)
        timed("tie_parse_error", tie_parse_error, chk, r, 300 if q else 3000, real_pes)
        timed("tie_process", tie_process, chk, r, 600 if q else 8000)
        timed("tie_queue", tie_queue, chk, r, 150 if q else 2000)
        timed("tie_findread", drv.tie_findread, chk, r, 250 if q else 3000)
        timed("tie_path", drv.tie_path, chk, r, 200 if q else 2000)
        timed("tie_executables", drv.tie_executables, chk, r, 250 if q else 3000)
        timed("tie_locations", drv.tie_locations, chk, r, cases, 2500 if q else 30000, 400 if q else 5000)
        timed("tie_module_ir", drv.tie_module_ir, chk, r, cases, 400 if q else 4000, 3000 if q else 30000)
        chk.extra["traces_validated_against_impl"] = sum(v["compared"] for v in chk.extra.get("tie", {}).values())
    timed("cli", explore_cli, chk, common.rng("C16-cli"), 7 if tier == "quick" else 150,
          [c for c in cases if c["kind"].split("/")[0] in ("boundary", "sem", "grammar", "mutate", "imports", "corpus", "soup")])
    ex.finish()
    return chk.finish()


def collect_parse_errors(cases):
    """Real lr1.ParseError objects from the explored inputs (for the PARSEERR tie)."""
    from compiler.front_end import parser, tokenizer
    out = []
    for c in cases:
        t = c["files"].get(c["main"])
        if t is None or len(out) >= 300:
            continue
        try:
            toks, errs = tokenizer.tokenize(t, c["main"])
            if errs:
                continue
            pr = parser.parse_module(toks)
            if pr.error:
                out.append((c["main"], pr.error))
        except Exception:  # noqa: BLE001
            continue
    return out


def replay(path):
    rec = json.load(open(path))
    files = rec.get("files") or {rec.get("main", "m.emb"): rec.get("input", "")}
    main = rec.get("main", "m.emb")
    if rec.get("fs_layout"):
        c = {"kind": "replay", "raw": {}, "main": main, "fs": rec["fs_layout"], "expect": None}
        idx, res, produced = run_cli((0, c, "embossc" if rec.get("tool", "embossc") == "embossc" else "split"))
        for name, rc, stderr, cmd in res:
            print("%s: exit %s\n%s" % (name, rc, stderr[-2000:]))
        return 0
    if rec.get("layout"):
        import tempfile
        lay = rec["layout"]
        with tempfile.TemporaryDirectory(dir=common.scratch()) as top:
            dirs = []
            for j, st in enumerate(lay["states"]):
                dd = os.path.join(top, "d%d" % j)
                os.makedirs(dd)
                drv.build_state(dd, lay["name"], st)
                dirs.append(dd)
            from compiler.front_end import emboss_front_end
            try:
                print("_find_in_dirs_and_read →", repr(emboss_front_end._find_in_dirs_and_read(dirs)(lay["name"]))[:1500])
            except Exception as e:  # noqa: BLE001
                print("_find_in_dirs_and_read RAISED", " | ".join(tb_tail(e)))
        return 0
    if rec.get("files_latin1") is not None:
        chk = None
        c = {"kind": "replay", "raw": {k: v.encode("latin-1") for k, v in rec["files_latin1"].items()}, "main": main}
        idx, res, produced = run_cli((0, c, "embossc" if rec.get("tool") == "embossc" else "split"))
        for name, rc, stderr, cmd in res:
            print("%s: exit %s\n%s" % (name, rc, stderr[-2000:]))
        return 0
    if rec.get("node"):
        # a finding of the IR-location oracle (tie_module_ir): re-run it on this input
        class _Probe:
            extra = {}

            def count(self):
                pass

            def nontrivial(self, _k):
                pass

            def violation(self, _kind, ctx, **kw):
                print("VIOLATES:", kw.get("key"), "-", ctx.get("observed"))
        n = drv.tie_module_ir(_Probe(), None, [{"kind": "replay", "files": files, "main": main}], 1, 1000)
        print("IR-location oracle: %d problem(s) on this tree" % n, _Probe.extra.get("module_ir_locations"))
    if rec.get("op"):
        print("op:", rec["op"][:500])
        print("model:", ask([rec["op"]])[0][:500])
        print("recorded real answer:", rec.get("observed", "")[:500])
    case = {"kind": "replay", "files": files, "main": main,
            "nesting": max([gen.count_nesting(t) for t in files.values()] or [0])}
    res = run_case(case, want_model_lines=False)
    print("outcome:", res["outcome"])
    for key, desc in res["bad"]:
        print("VIOLATES:", key, "-", desc)
    if not res["bad"]:
        print("no violation on this tree; error kinds:", res["kinds"][:5])
    return 0


# =================================================================== shrinker
def shrink(case, key, budget=500):
    """Delta-debugging on the main file: drop line chunks, then tokens, then simplify
    bracketed sub-expressions, as long as the same violation key reproduces."""
    main = case["main"]
    if main not in case["files"]:
        return case
    spent = [0]

    def still(text):
        if spent[0] >= budget:
            return False
        spent[0] += 1
        files = dict(case["files"])
        files[main] = text
        c = {"kind": case["kind"], "main": main, "files": files, "nesting": gen.count_nesting(text)}
        return any(k == key for k, _ in run_case(c, want_model_lines=False)["bad"])

    text = case["files"][main]
    changed = True
    while changed and spent[0] < budget:
        changed = False
        lines = text.split("\n")
        n = max(1, len(lines) // 2)
        while n >= 1:
            i = 0
            while i < len(lines):
                cand = lines[:i] + lines[i + n:]
                if cand != lines and still("\n".join(cand)):
                    lines = cand
                    changed = True
                else:
                    i += n
            n //= 2
        text = "\n".join(lines)
        # tokens
        for li in range(len(lines)):
            toks = gen._WORD.findall(lines[li])
            j = 0
            while j < len(toks):
                if toks[j].isspace():
                    j += 1
                    continue
                for width in (5, 3, 2, 1):
                    cand = toks[:j] + toks[j + width:]
                    new = lines[:li] + ["".join(cand)] + lines[li + 1:]
                    if still("\n".join(new)):
                        toks, lines, changed = cand, new, True
                        break
                else:
                    j += 1
        text = "\n".join(lines)
        # bracketed sub-expressions → atom
        for m in list(re.finditer(r"\([^()]*\)", text)):
            for atom in ("1", "true", "x"):
                cand = text[:m.start()] + atom + text[m.end():]
                if still(cand):
                    text, changed = cand, True
                    break
            if changed:
                break
    files = dict(case["files"])
    files[main] = text
    # drop unused files
    for k in sorted(files):
        if k != main and len(files) > 1:
            f2 = {a: b for a, b in files.items() if a != k}
            c = {"kind": case["kind"], "main": main, "files": f2, "nesting": 0}
            if spent[0] < budget + 60 and any(kk == key for kk, _ in run_case(c, want_model_lines=False)["bad"]):
                spent[0] += 1
                files = f2
    return {"kind": case["kind"], "main": main, "files": files, "nesting": gen.count_nesting(text)}
