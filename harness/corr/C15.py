"""C15 — dependency cycles rejected; field order respects dependencies.

Tie: correspondence.  Random reference graphs are realised as structures (virtual
`let` fields, conditional physical fields, dynamically located fields, parameters),
compiled by the real front end; the real `fields_in_dependency_order` is compared
with the Lean model `order` (ops `ORDER`), the dependency edges being extracted from
the IR's JSON form by an independent walker.  Independent spec oracle (Python):
Kahn-style acyclicity, permutation, topological, identity-if-sorted.
"""
import json

from harness.lib import common, emb

PROP = "C15"


# ----------------------------------------------------------------- generator
def gen_struct(r, n_fields, n_params, cyclic_bias):
    """Returns (text, intended deps {field name: set(names)}, names in source order)."""
    params = ["p%d" % i for i in range(n_params)]
    names = ["f%d" % i for i in range(n_fields)]
    deps = {}
    lines = []
    phys_offset = 0
    for i, nm in enumerate(names):
        # candidates: anything (forward references allowed); acyclic unless biased
        if r.random() < cyclic_bias:
            cands = names + params
        else:
            # mostly-acyclic: pick a random hidden order
            cands = [x for x in names if hash_order(x, r_salt[0]) < hash_order(nm, r_salt[0])] + params
        k = r.choice([0, 0, 1, 1, 2, 3])
        ds = set(r.sample(cands, min(k, len(cands)))) if cands else set()
        kind = r.choice(["let", "let", "cond", "dyn", "plain"])
        if kind == "plain":
            ds = set()
        if kind != "let":
            ds.discard(nm) if r.random() < 0.7 else None
        deps[nm] = ds
        expr = " + ".join(sorted(ds)) if ds else "0"
        if kind == "let":
            lines.append("  let %s = %s + 1" % (nm, expr))
        elif kind == "cond":
            lines.append("  if %s == 0:" % expr)
            lines.append("    %d [+1] UInt %s" % (phys_offset, nm))
            phys_offset += 1
        elif kind == "dyn":
            lines.append("  %s [+1] UInt %s" % (expr, nm))
        else:
            lines.append("  %d [+1] UInt %s" % (phys_offset, nm))
            phys_offset += 1
    head = "struct Foo%s:" % ("(" + ", ".join("%s: UInt:8" % p for p in params) + ")" if params else "")
    return head + "\n" + "\n".join(lines) + "\n", deps, names, params


r_salt = [0]


def hash_order(x, salt):
    import hashlib
    return hashlib.sha256(("%s/%d" % (x, salt)).encode()).hexdigest()


def has_cycle(deps, names):
    """Independent oracle: some field reaches itself."""
    adj = {n: [d for d in deps[n] if d in deps] for n in names}
    color = {}

    def dfs(u):
        color[u] = 1
        for v in adj[u]:
            if color.get(v) == 1:
                return True
            if v not in color and dfs(v):
                return True
        color[u] = 2
        return False
    return any(n not in color and dfs(n) for n in names)


def field_deps_from_ir(struct_dict):
    """Independent walker over the JSON IR: head of every field reference under the
    field, attributes excluded (what the reference calls 'mentions')."""
    out = []
    for f in struct_dict.get("field", []):
        acc = set()

        def walk(x):
            if isinstance(x, dict):
                if "path" in x and isinstance(x["path"], list) and x["path"] and \
                        isinstance(x["path"][0], dict) and "canonical_name" in x["path"][0]:
                    acc.add(tuple(x["path"][0]["canonical_name"]["object_path"]))
                for k, v in x.items():
                    if k != "attribute":
                        walk(v)
            elif isinstance(x, list):
                for v in x:
                    walk(v)
        walk(f)
        out.append((tuple(f["name"]["canonical_name"]["object_path"]), acc))
    return out


def spec_order_ok(order, names_n, deps_n, params_n):
    """order: list of node ids; spec from the property statement."""
    if sorted(order) != sorted(names_n):
        return "not a permutation"
    seen = set(params_n)
    for f in order:
        if not all(d in seen for d in deps_n[f]):
            return "field %d before a dependency" % f
        seen.add(f)
    seen = set(params_n)
    sorted_already = True
    for f in names_n:
        if not all(d in seen for d in deps_n[f]):
            sorted_already = False
            break
        seen.add(f)
    if sorted_already and order != names_n:
        return "source order was already valid but was changed"
    return None


def one_case(chk, r, model_lines, cases, n_fields, n_params, cyclic_bias):
    text, deps, names, params = gen_struct(r, n_fields, n_params, cyclic_bias)
    ir, errors, exc = emb.compile_text({"m.emb": text})
    chk.count()
    if exc is not None:
        chk.violation("input", {"input": text, "observed": "exception %r" % exc,
                                "expected": "IR or located errors"},
                      key="crash:%s" % type(exc).__name__)
        return
    cyc = has_cycle(deps, names)
    msgs = [m[3] for g in emb.error_summary(errors) for m in g]
    got_cycle = any(m.startswith("Dependency cycle") for m in msgs)
    if cyc != got_cycle:
        chk.violation("input", {"input": text, "expected": "cycle error" if cyc else "no cycle error",
                                "observed": msgs, "intended_deps": {k: sorted(v) for k, v in deps.items()}})
        return
    if cyc:
        chk.nontrivial("cyc:" + text)
        return
    if errors:
        # acyclic by construction yet rejected for another reason (generator artefact):
        # count, do not compare orders
        chk.extra["rejected_other"] = chk.extra.get("rejected_other", 0) + 1
        return
    d = emb.ir_to_dict(ir)
    s = d["module"][0]["type"][0]["structure"]
    fdeps = field_deps_from_ir(s)
    ids = {}
    for nm, _ in fdeps:
        ids[nm] = len(ids)
    pid = {}
    for p in d["module"][0]["type"][0].get("runtime_parameter", []):
        pid[tuple(p["name"]["canonical_name"]["object_path"])] = 1000 + len(pid)
    allid = dict(ids)
    allid.update(pid)
    deps_n = {}
    for nm, acc in fdeps:
        deps_n[ids[nm]] = sorted(allid.get(x, 9999) for x in acc)
    names_n = [ids[nm] for nm, _ in fdeps]
    params_n = sorted(pid.values())
    real = [int(x) for x in s.get("fields_in_dependency_order", [])]
    line = "ORDER %s;%s;%s" % (
        ",".join(map(str, params_n)), ",".join(map(str, names_n)),
        "|".join("%d:%s" % (f, ",".join(map(str, deps_n[f]))) for f in names_n))
    model_lines.append(line)
    cases.append((text, real, names_n, deps_n, params_n))
    if real != names_n:
        chk.nontrivial("reordered:" + line)
    chk.sample({"emb": text, "real_order": real}, limit=3)


def search(chk):
    """Model-free search used when the Lean obligations are broken."""
    r = common.rng("C15-search")
    before = len(chk.violations)
    for _ in range(400):
        lines, cases = [], []
        one_case(chk, r, lines, cases, r.randint(1, 9), r.randint(0, 2), r.choice([0, 0, 0.1, 0.3]))
        for text, real, names_n, deps_n, params_n in cases:
            why = spec_order_ok(real, names_n, deps_n, params_n)
            if why:
                chk.violation("input", {"input": text, "observed": real, "expected": why})
    return len(chk.violations) - before


def run(tier):
    chk = common.Check(PROP, tier, exes=["model_c15"])
    chk.cov["rule"] = ("random reference graphs over ≤12 fields + ≤2 parameters realised as "
                       ".emb structures; non-trivial = cyclic, or real order differs from source order; "
                       "distinct by text")
    model_ok = common.proof_gate(chk, search)
    r = common.rng("C15")
    r_salt[0] = common.seed()
    n = 300 if tier == "quick" else 6000
    lines, cases = [], []
    for i in range(n):
        r_salt[0] = r.randint(0, 1 << 30)
        one_case(chk, r, lines, cases, r.randint(1, 12), r.randint(0, 2), r.choice([0, 0, 0, 0.05, 0.2, 0.5]))
    # spec oracle on the real output, always
    for text, real, names_n, deps_n, params_n in cases:
        why = spec_order_ok(real, names_n, deps_n, params_n)
        if why:
            chk.violation("input", {"input": text, "observed": real, "expected": why})
    if model_ok:
        answers = common.Model("model_c15").ask(lines)
        disagreements = 0
        for (text, real, names_n, deps_n, params_n), line, ans in zip(cases, lines, answers):
            want = "order " + ",".join(map(str, real))
            if ans != want:
                disagreements += 1
                why = spec_order_ok(real, names_n, deps_n, params_n)
                chk.violation("correspondence" if not why else "input",
                              {"input": text, "op": line, "model": ans, "observed": want,
                               "expected": why or "real code satisfies the spec; the model differs",
                               "theorem_or_correspondence": "model_c15 ORDER vs fields_in_dependency_order"},
                              found_input=bool(why))
        chk.extra["traces_validated_against_impl"] = len(lines)
        chk.extra["disagreements"] = disagreements
    return chk.finish()


def replay(path):
    rec = json.load(open(path))
    ir, errors, exc = emb.compile_text({"m.emb": rec["input"]})
    print("exception:", repr(exc))
    print("errors:", emb.error_summary(errors))
    if ir is not None:
        s = emb.ir_to_dict(ir)["module"][0]["type"][0]["structure"]
        print("fields_in_dependency_order:", s.get("fields_in_dependency_order"))
    return 0
