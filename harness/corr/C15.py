"""C15 — dependency cycles rejected; field order respects dependencies.

Tie: correspondence (the Lean theorems are about the model in lean/Emboss/Model/Deps.lean
and Tarjan.lean; this file ties the model to the code on every run).

  A. raw graphs      real `dependency_checker._find_cycles` on random dict-of-sets graphs
                     vs model op `CYCLES` (Tarjan as written) vs closure oracle;
                     plus the same graph with shuffled dict/set order (order independence)
  B. real modules    random reference graphs realised as .emb (let / conditional /
                     dynamically located or sized fields, type-parameter arguments, enum
                     values, runtime parameters, attributes, several structs): real
                     `_find_dependencies` vs model `DEPGRAPH` fed by an independent walker
                     over the IR's JSON form; real `find_dependency_cycles` error groups
                     (order, members, locations, messages compared exactly) vs model
                     `DEPCYC`/`IMPORTS`; the full pipeline must report the same groups;
                     closure oracle on the real graph and on the generator's intended edges
  C. import graphs   multi-file modules (cycles, self-import, prelude self-import)
  D. ordering        real `fields_in_dependency_order` vs model `ORDER` + ordering oracle
  E. depth           recursion-depth probes (`strong_connect` is recursive)
"""
import collections
import json
import sys
import traceback

from harness.lib import common, emb

from compiler.front_end import dependency_checker

PROP = "C15"
KEYWORDS = ["$is_statically_sized", "$static_size_in_bits", "$next"]
RECURSION_KEY = "crash:dependency_checker.py:strong_connect:RecursionError"


# ------------------------------------------------------------------ oracle
def closure_sccs(graph):
    """Independent oracle, written from the definition: reachability by naive
    transitive closure; components = classes of mutual reachability that contain a
    cycle (more than one node, or a self-edge).  graph: {node: iterable of nodes}."""
    nodes = list(graph)
    reach = {a: set(graph[a]) for a in nodes}
    changed = True
    while changed:
        changed = False
        for a in nodes:
            add = set()
            for b in reach[a]:
                add |= reach.get(b, set())
            if not add <= reach[a]:
                reach[a] |= add
                changed = True
    comps = set()
    for a in nodes:
        if a in reach[a]:
            comps.add(frozenset(b for b in nodes if b == a or (b in reach[a] and a in reach.get(b, ()))))
    return comps


def canon(comps):
    """What the error construction does: sorted(cycles, key=sorted), sorted(cycle)."""
    return sorted(sorted(c) for c in comps)


def show_groups(groups):
    return "cycles " + ";".join(",".join(str(x) for x in g) for g in groups)


def graph_line(op, keys, adj):
    return op + " " + "|".join("%d:%s" % (k, ",".join(str(d) for d in adj[k])) for k in keys)


# ------------------------------------------------------------------ A: raw graphs
FAMILIES = ["sparse", "dense", "dag", "selfloops", "longcycle", "multi_scc", "bridged", "complete",
            "tiny", "dangling"]


def gen_raw(r, fam):
    n = r.randint(0, 3) if fam == "tiny" else r.randint(1, 14)
    nodes = list(range(n))
    order = nodes[:]
    r.shuffle(order)
    g = {a: set() for a in order}
    if fam == "sparse":
        p = r.choice([0.03, 0.06, 0.1])
        for a in nodes:
            g[a] = {b for b in nodes if r.random() < p}
    elif fam == "dense":
        p = r.choice([0.3, 0.5, 0.8])
        for a in nodes:
            g[a] = {b for b in nodes if r.random() < p}
    elif fam == "dag":
        rank = nodes[:]
        r.shuffle(rank)
        p = r.choice([0.1, 0.3, 0.6])
        for a in nodes:
            g[a] = {b for b in nodes if rank[b] < rank[a] and r.random() < p}
    elif fam == "selfloops":
        rank = nodes[:]
        r.shuffle(rank)
        for a in nodes:
            g[a] = {b for b in nodes if rank[b] < rank[a] and r.random() < 0.2}
            if r.random() < 0.3:
                g[a].add(a)
    elif fam == "longcycle":
        k = r.randint(1, n)
        cyc = r.sample(nodes, k)
        for i, a in enumerate(cyc):
            g[a].add(cyc[(i + 1) % k])
        for a in nodes:
            if r.random() < 0.15 and a not in cyc:
                g[a].add(r.choice(nodes))
    elif fam in ("multi_scc", "bridged"):
        pool = nodes[:]
        r.shuffle(pool)
        comps = []
        while pool:
            k = min(len(pool), r.randint(1, 5))
            comps.append(pool[:k])
            pool = pool[k:]
        for c in comps:
            if len(c) > 1 or r.random() < 0.3:
                for i, a in enumerate(c):
                    g[a].add(c[(i + 1) % len(c)])
                for a in c:
                    if r.random() < 0.3:
                        g[a].add(r.choice(c))
        if fam == "bridged":
            for i in range(len(comps) - 1):
                if r.random() < 0.7:     # forward bridges only: SCCs stay separate
                    g[r.choice(comps[i])].add(r.choice(comps[r.randint(i + 1, len(comps) - 1)]))
    elif fam == "complete":
        for a in nodes:
            g[a] = set(nodes) - ({a} if r.random() < 0.5 else set())
    elif fam == "tiny":
        for a in nodes:
            g[a] = {b for b in nodes if r.random() < 0.5}
    elif fam == "dangling":
        for a in nodes:
            g[a] = {b for b in nodes if r.random() < 0.2}
        if r.random() < 0.8:
            g[r.choice(nodes)].add(n + r.randint(0, 3))
    return g


def relabel(r, g):
    """Same graph with tuple labels (what the real callers pass); rank-preserving or not."""
    names = {}
    for a in set(g) | {b for v in g.values() for b in v}:
        names[a] = ("m%d.emb" % r.randint(0, 2), "T%d" % r.randint(0, 3), "f%d" % a)
    return {names[a]: {names[b] for b in g[a]} for a in g}


def number(labels):
    """Rank in Python's sorted order, so that numeric < coincides with label <."""
    return {lab: i for i, lab in enumerate(sorted(labels))}


def real_find_cycles(g):
    try:
        return dependency_checker._find_cycles(g), None
    except KeyError:
        return None, "key-error"
    except RecursionError:
        return None, "recursion-error"


def raw_case(chk, r, fam, lines, pending, stats):
    g = gen_raw(r, fam)
    if r.random() < 0.25:
        g = relabel(r, g)
    chk.count()
    stats["family:" + fam] += 1
    real, err = real_find_cycles(g)
    closed = all(b in g for v in g.values() for b in v)
    want = closure_sccs(g) if closed else None
    rec = {"kind": "raw", "graph": [[repr_label(k), [repr_label(b) for b in g[k]]] for k in g]}
    if (err == "key-error") != (not closed) or (closed and real != want):
        rec.update(observed=str(err or canon(real)), expected="KeyError" if not closed else str(canon(want)))
        chk.violation("input", rec)
        return
    num = number(set(g) | {b for v in g.values() for b in v})
    keys = [num[k] for k in g]
    adj = {num[k]: [num[b] for b in g[k]] for k in g}       # actual iteration order
    expect = "key-error" if err else show_groups(canon([[num[x] for x in c] for c in real]))
    lines.append(graph_line("CYCLES", keys, adj))
    pending.append((rec, expect, "as-iterated"))
    # the same graph, other dict/set iteration order: the answer must not change
    keys2 = keys[:]
    r.shuffle(keys2)
    adj2 = {k: r.sample(v, len(v)) for k, v in adj.items()}
    lines.append(graph_line("CYCLES", keys2, adj2))
    pending.append((rec, expect, "shuffled"))
    if err:
        stats["key-errors"] += 1
    else:
        stats["components:%d" % len(real)] += 1
        for c in real:
            stats["component-size:%s" % (len(c) if len(c) < 6 else "6+")] += 1
        if real:
            chk.nontrivial("raw:" + expect + "/" + lines[-2])
    if len(chk.cov["samples"]) < 2 and real:
        chk.sample({"graph": rec["graph"], "real_components": canon(real)}, limit=2)


def repr_label(x):
    return x if isinstance(x, int) else list(x)


def unrepr_label(x):
    return x if isinstance(x, int) else tuple(x)


def raw_graphs(chk, tier, model_ok, stats):
    r = common.rng("C15-raw")
    n = 12000 if tier == "quick" else 150000
    lines, pending = [], []
    for i in range(n):
        raw_case(chk, r, FAMILIES[i % len(FAMILIES)], lines, pending, stats)
    if model_ok:
        answers = common.Model("model_c15").ask(lines)
        for line, (rec, expect, how), ans in zip(lines, pending, answers):
            stats["model-ops:" + how] += 1
            if ans != expect:
                stats["disagreements"] += 1
                # the oracle already agreed with the real code on this graph
                chk.violation("correspondence", dict(rec, op=line, model=ans, observed=expect, order=how,
                              theorem_or_correspondence="model_c15 CYCLES vs _find_cycles"),
                              found_input=False)
        stats["traces"] += len(lines)


# ------------------------------------------------------------------ B/C: real modules
def gen_module(r, stats):
    """Random module text + intended edges {name tuple: set(name tuples)} for the
    definitions it writes.  Names: ('m.emb', type, member)."""
    f = "m.emb"
    shape = r.choice(["acyclic", "acyclic", "few-back", "cyclic", "dense"])
    back = {"acyclic": 0.0, "few-back": 0.08, "cyclic": 0.3, "dense": 0.6}[shape]
    stats["module-shape:" + shape] += 1
    intended = {}
    text = []
    # --- enums
    enums = []
    for e in range(r.choice([0, 1, 1, 2])):
        enums.append(("E%s" % "ab"[e], ["V%s%d" % ("AB"[e], i) for i in range(r.randint(1, 5))]))
    allvals = [(en, v) for en, vs in enums for v in vs]
    hidden = {x: r.random() for x in allvals}
    for en, vs in enums:
        text.append("enum %s:" % en)
        for v in vs:
            cands = [x for x in allvals if hidden[x] < hidden[(en, v)] or r.random() < back]
            ds = r.sample(cands, min(len(cands), r.choice([0, 0, 1, 1, 2])))
            intended[(f, en, v)] = {(f,) + d for d in ds}
            expr = " + ".join([d[1] if d[0] == en and r.random() < 0.7 else "%s.%s" % d for d in ds] +
                              [str(r.randint(0, 9))])
            text.append("  %s = %s" % (v, expr))
            stats["node:enum-value"] += 1
    # --- a parameterised helper struct
    text += ["struct Bar(bp: UInt:8):", "  0 [+1] UInt bx"]
    intended[(f, "Bar", "bp")] = set()
    intended[(f, "Bar", "bx")] = set()
    # --- structs
    for sname in ["Foo", "Goo"][:r.choice([1, 1, 2])]:
        params = ["p%d" % i for i in range(r.choice([0, 0, 1, 2]))]
        names = ["f%d" % i for i in range(r.randint(1, 9 if len(enums) else 12))]
        kinds = {nm: r.choice(["let", "let", "let", "cond", "dyn", "dynsize", "typed", "plain"]) for nm in names}
        hid = {x: r.random() for x in names}
        text.append("struct %s%s:" % (sname, "(" + ", ".join("%s: UInt:8" % p for p in params) + ")" if params else ""))
        if r.random() < 0.3 and len(names) > 1:
            a, b = r.sample(names, 2)
            text.append("  [requires: %s == %s]" % (ref(a, kinds), ref(b, kinds)))   # attribute: no edge
            stats["attr-reference"] += 1
        off = 0
        for p in params:
            intended[(f, sname, p)] = set()
            stats["node:parameter"] += 1
        for nm in names:
            k = kinds[nm]
            cands = [x for x in names if (hid[x] < hid[nm] or r.random() < back)
                     and not (shape == "acyclic" and kinds[x] == "dynsize")]   # arrays have no integer value
            fds = r.sample(cands, min(len(cands), r.choice([0, 1, 1, 2, 3]))) if k != "plain" else []
            pds = [p for p in params if r.random() < 0.3] if k != "plain" else []
            eds = [x for x in allvals if r.random() < 0.1] if k in ("let", "cond") else []
            if k in ("dyn", "dynsize", "typed") and not (fds or pds):
                k = kinds[nm] = "plain"
            intended[(f, sname, nm)] = {(f, sname, d) for d in fds + pds} | {(f,) + d for d in eds}
            terms = [ref(d, kinds) for d in fds] + pds + \
                ["(%s.%s == %s.%s ? 1 : 0)" % (d + d) for d in eds]
            expr = " + ".join(terms) if terms else "0"
            stats["node:" + k] += 1
            if k == "let":
                text.append("  let %s = %s + 1" % (nm, expr))
            elif k == "cond":
                text += ["  if %s == 0:" % expr, "    %d [+1] UInt %s" % (off, nm)]
            elif k == "dyn":
                text.append("  %s [+1] UInt %s" % (expr, nm))
            elif k == "dynsize":
                text.append("  %d [+%s] UInt:8[] %s" % (off, expr, nm))
            elif k == "typed":
                # FieldReferences inside an AtomicType (type-parameter argument) do count
                text.append("  %d [+1] Bar(%s) %s" % (off, expr, nm))
            else:
                text.append("  %d [+1] UInt %s" % (off, nm))
            if k not in ("let", "typed", "dynsize") and r.random() < 0.15 and fds:
                text.append("%s[requires: this == 0]" % ("      " if k == "cond" else "    "))
            off += 1
    return {"m.emb": "\n".join(text) + "\n"}, "m.emb", intended


def ref(nm, kinds):
    """An integer-valued expression mentioning field `nm` (head of the FieldReference)."""
    k = kinds.get(nm)
    if k == "typed":
        return nm + ".bx"
    return nm


def gen_imports(r, stats):
    """Multi-file module set with a random import graph; enum values reference values of
    imported modules.  Intended import graph over file names."""
    n = r.randint(1, 6)
    files = ["%s.emb" % "abcdef"[i] for i in range(n)]
    shape = r.choice(["dag", "dag", "two-cycle", "long-cycle", "self", "random", "multi"])
    stats["import-shape:" + shape] += 1
    imp = {x: [] for x in files}
    for i, x in enumerate(files):
        for y in files[i + 1:]:
            if r.random() < 0.4:
                imp[x].append(y)
    if shape == "two-cycle" and n >= 2:
        a, b = r.sample(files, 2)
        imp[a].append(b)
        imp[b].append(a)
    elif shape == "long-cycle" and n >= 2:
        cyc = r.sample(files, r.randint(2, n))
        for i, a in enumerate(cyc):
            imp[a].append(cyc[(i + 1) % len(cyc)])
    elif shape == "self":
        a = r.choice(files)
        imp[a].append(a)
    elif shape == "random":
        for x in files:
            imp[x] += [y for y in files if r.random() < 0.25]
    elif shape == "multi" and n >= 4:
        pool = r.sample(files, 4)
        for a, b in [(pool[0], pool[1]), (pool[1], pool[0]), (pool[2], pool[3]), (pool[3], pool[2])]:
            imp[a].append(b)
    # make everything reachable from a.emb so that all files are loaded
    while True:
        seen_f, todo = set(), ["a.emb"]
        while todo:
            y = todo.pop()
            if y not in seen_f:
                seen_f.add(y)
                todo += imp[y]
        missing = [x for x in files if x not in seen_f]
        if not missing:
            break
        imp["a.emb"].append(missing[0])
    out = {}
    intended = {}
    for x in files:
        lines = []
        seen = []
        for j, y in enumerate(imp[x]):
            lines.append('import "%s" as i%d' % (y, j))    # the same file twice: two names
            seen.append((j, y))
        lines.append("enum E%s:" % x[0])
        deps = [(j, y) for j, y in seen if r.random() < 0.5]
        lines.append("  V%s = %s" % (x[0].upper(), " + ".join(
            ["i%d.E%s.V%s" % (j, y[0], y[0].upper()) for j, y in deps] + ["1"])))
        intended[(x, "E%s" % x[0], "V%s" % x[0].upper())] = {(y, "E%s" % y[0], "V%s" % y[0].upper()) for _, y in deps}
        out[x] = "\n".join(lines) + "\n"
    return out, "a.emb", intended, {x: set(v) for x, v in imp.items()}


def walk_definitions(d):
    """Independent walker over the JSON form of the IR.  Returns
    (defs, info, mods): defs = [(name tuple, [occurrence])] in document order,
    occurrence = (target tuple or keyword index, 'F'|'R', in_attr, in_atomic);
    info[name] = (file, location string, short name); mods = [(file name, [imports], location)]."""
    defs, info, mods = [], {}, []

    def cname(x):
        c = x["canonical_name"]
        return (c.get("module_file", ""),) + tuple(c["object_path"])

    def occ(x, kind, a, t, cur):
        if "canonical_name" not in x:
            return
        path = x["canonical_name"]["object_path"]
        tgt = KEYWORDS.index(path[0]) if path[0] in KEYWORDS else cname(x)
        if cur is not None:
            cur.append((tgt, kind, a, t))
        elif not a and (kind == "F" or not t):
            # the real traversal would call the action without a `name` parameter
            raise common.InfraError("counted reference outside any definition: %r" % (x,))

    def walk(x, key, a, t, cur):
        if isinstance(x, list):
            for v in x:
                walk(v, key, a, t, cur)
            return
        if not isinstance(x, dict):
            return
        if key in ("field", "value", "runtime_parameter") and isinstance(x.get("name"), dict) \
                and "canonical_name" in x["name"]:
            nm = cname(x["name"])
            cur = []
            defs.append((nm, cur))
            info[nm] = (nm[0], x.get("source_location") or "0:0-0:0", x["name"]["name"]["text"])
        for k, v in x.items():
            if k == "field_reference":
                occ(v["path"][0], "F", a, t, cur)          # only the head; the rest is unresolved here
            elif isinstance(v, dict) and "canonical_name" in v and k != "name":
                occ(v, "R", a, t or k == "reference" and key == "atomic_type", cur)
            else:
                walk(v, k, a or k == "attribute", t or k == "atomic_type", cur)

    for m in d["module"]:
        fname = m.get("source_file_name", "")
        mods.append((fname, [fi["file_name"].get("text", "") for fi in m.get("foreign_import", [])],
                     m.get("source_location") or "0:0-0:0"))
        walk(m.get("type", []), "type", False, False, None)
    return defs, info, mods


def summarize(groups):
    return [[(m.source_file, str(m.location), str(m.severity), m.message) for m in g] for g in groups]


def parse_groups(ans):
    body = ans[len("cycles "):]
    return [[int(x) for x in g.split(",")] for g in body.split(";")] if body else []


def module_case(chk, files, main, intended, intended_imports, tag, batch, stats):
    """Runs the real code on one module set; queues the model ops.  batch: list of
    (lines, continuation) — continuation(answers) finishes the comparison."""
    chk.count()
    rec = {"kind": "emb", "files": files, "main": main}
    ir, errors, exc = emb.compile_text(files, main=main, stop_before_step="find_dependency_cycles")
    if exc is not None:
        chk.violation("input", dict(rec, observed="exception %r before the dependency check" % exc,
                                    expected="IR or located errors"),
                      key="crash:%s" % type(exc).__name__)
        return
    if errors:
        stats["rejected-before-check"] += 1      # generator artefact; nothing to compare
        stats["rejected:" + summarize(errors)[0][0][3].split("\n")[0][:40]] += 1
        return
    d = emb.ir_to_dict(ir)
    defs, info, mods = walk_definitions(d)
    try:
        real_deps, real_kw = dependency_checker._find_dependencies(ir)
        real_groups = summarize(dependency_checker.find_dependency_cycles(ir))
    except Exception as e:  # noqa: BLE001
        tb = traceback.extract_tb(e.__traceback__)[-1]
        chk.violation("input", dict(rec, observed="exception %r in %s" % (e, tb.name),
                                    expected="error groups"),
                      key="crash:%s:%s:%s" % (tb.filename.split("/")[-1], tb.name, type(e).__name__))
        return
    # --- oracle on the real outputs (no model involved)
    problems = []
    kw_expected = [(nm, KEYWORDS[o[0]]) for nm, occs in defs for o in occs
                   if isinstance(o[0], int) and o[1] == "R" and not o[2] and not o[3]]
    for nm, ds in intended.items():
        got = {x for x in real_deps.get(nm, set()) if x in intended}
        if nm not in real_deps:
            problems.append("definition %r has no entry in the dependency graph" % (nm,))
        elif got != ds and not kw_expected:
            problems.append("edges of %r: real %r, written %r" % (nm, sorted(got), sorted(ds)))
    imp_graph = {(fn,): {(i,) for i in imps if i or fn} for fn, imps, _ in mods}
    if intended_imports is not None:
        for fn, imps in intended_imports.items():
            if {x[0] for x in imp_graph.get((fn,), set()) if x[0]} != imps:
                problems.append("imports of %r: IR %r, written %r" % (fn, imp_graph.get((fn,)), imps))
    want_mod = canon(closure_sccs(imp_graph))
    closed = all(b in real_deps for v in real_deps.values() for b in v)
    want_obj = canon(closure_sccs(real_deps)) if closed else None
    got_mod = [g for g in real_groups if g[0][3].startswith("Import dependency cycle")]
    got_obj = [g for g in real_groups if g[0][3].startswith("Dependency cycle")]
    got_kw = [g for g in real_groups if g[0][3].startswith("Keyword")]

    def expected_groups(comps, what, table):
        out = []
        for c in comps:
            g = []
            for i, nm in enumerate(c):
                fl, loc, short = table[nm]
                g.append((fl, loc, "error" if i == 0 else "note", (what + "\n" + short) if i == 0 else short))
            out.append(g)
        return out
    modtable = {(fn,): (fn, loc, fn) for fn, _, loc in mods}
    if got_mod != expected_groups(want_mod, "Import dependency cycle", modtable):
        problems.append("import cycle groups: real %r, oracle components %r" % (got_mod, want_mod))
    if kw_expected:
        exp_kw = [[(nm[0], None, "error", "Keyword `%s` may not be used in this context." % kw)]
                  for nm, kw in kw_expected]
        if [[(m[0], None, m[2], m[3]) for m in g] for g in got_kw] != exp_kw or got_obj:
            problems.append("keyword errors: real %r, expected %r and no cycle groups" % (got_kw + got_obj, exp_kw))
    elif want_obj is None:
        problems.append("dependency on something that is not a field/enum value/parameter")
    elif got_obj != expected_groups(want_obj, "Dependency cycle", info) or got_kw:
        problems.append("cycle groups: real %r, oracle components %r" % (got_obj + got_kw, want_obj))
    if problems:
        chk.violation("input", dict(rec, observed=real_groups, expected=problems))
        return
    # --- the full pipeline reports the same thing
    ir2, errors2, exc2 = emb.compile_text(files, main=main)
    if exc2 is not None:
        tb = traceback.extract_tb(exc2.__traceback__)[-1]
        key = "crash:%s:%s:%s" % (tb.filename.split("/")[-1], tb.name, type(exc2).__name__)
        if real_groups or isinstance(exc2, RecursionError):
            # a later pass ran although a cycle was found, or recursed without bound
            chk.violation("input", dict(rec, observed="exception %r" % exc2, expected="IR or located errors"), key=key)
        else:
            # the dependency check was correct (oracle: no cycle) and a later pass crashed:
            # not this property (C16: the compiler is total); recorded, reported in the notes
            stats["crash-in-later-pass:" + key] += 1
            chk.extra.setdefault("crashes_outside_property", [])
            if len(chk.extra["crashes_outside_property"]) < 3:
                chk.extra["crashes_outside_property"].append({"key": key, "files": files, "exception": repr(exc2)})
        return
    full = summarize(errors2)
    # glue.process_ir defers error groups that mention a synthetic location (suffix `*`)
    user_groups = [g for g in real_groups if not any(m[1].endswith("*") for m in g)]
    if real_groups and not user_groups:
        stats["only-synthetic-groups"] += 1
    elif real_groups:
        if full != user_groups:
            chk.violation("input", dict(rec, observed=full, expected=user_groups,
                                        note="full pipeline vs find_dependency_cycles on the same IR"))
            return
    elif any(m[3].startswith(("Dependency cycle", "Import dependency cycle", "Keyword")) for g in full for m in g):
        chk.violation("input", dict(rec, observed=full, expected="no dependency error"))
        return
    stats["%s:%s" % (tag, "import-cycle" if got_mod else "no-import-cycle")] += 1
    stats["%s:%s" % (tag, "keyword-error" if got_kw else "cyclic" if got_obj else "acyclic")] += 1
    stats["cycle-groups:%d" % len(got_obj)] += 1
    if real_groups:
        chk.nontrivial("emb:" + json.dumps(files, sort_keys=True))
    if ir2 is not None and not errors2:
        stats["accepted"] += 1
        order_cases(chk, files, emb.ir_to_dict(ir2), batch, stats)
    # --- model
    names = set(info) | {o[0] for _, occs in defs for o in occs if not isinstance(o[0], int)} | \
        {x for v in real_deps.values() for x in v}
    num = number(names)
    back = {v: k for k, v in num.items()}

    def occ_text(o):
        return "%s/%s%s%s" % ("K%d" % o[0] if isinstance(o[0], int) else num[o[0]], o[1],
                              "A" if o[2] else "-", "T" if o[3] else "-")
    arg = "|".join("%d:%s" % (num[nm], ",".join(occ_text(o) for o in occs)) for nm, occs in defs)
    mnum = number({(fn,) for fn, _, _ in mods} | {(i,) for _, imps, _ in mods for i in imps})
    if ("",) not in mnum or mnum[("",)] != 0:
        raise common.InfraError("prelude module is not first in sorted order: %r" % (mnum,))
    mback = {v: k for k, v in mnum.items()}
    marg = "|".join("%d:%s" % (mnum[(fn,)], ",".join(str(mnum[(i,)]) for i in imps)) for fn, imps, _ in mods)
    lines = ["DEPGRAPH " + arg, "DEPCYC " + arg, "IMPORTS " + marg]
    want_graph = "graph " + "|".join(
        "%d:%s" % (num[k], ",".join(str(x) for x in sorted(num[b] for b in real_deps[k]))) for k in real_deps) + \
        " errors " + ";".join("%d:%d" % (num[nm], KEYWORDS.index(kw)) for nm, kw in kw_expected)

    def finish(ans):
        bad = []
        if ans[0] != want_graph:
            bad.append(("DEPGRAPH", ans[0], want_graph))
        # the model's groups → error groups, order as the model gives it (nothing canonicalised)
        if ans[2].startswith("cycles "):
            exp = expected_groups([[mback[i] for i in g] for g in parse_groups(ans[2])],
                                  "Import dependency cycle", modtable)
        else:
            exp = [ans[2]]
        if ans[1].startswith("keyword-errors "):
            kws = [x.split(":") for x in ans[1][len("keyword-errors "):].split(";")]
            mk = [[(back[int(n)][0], "error", "Keyword `%s` may not be used in this context." % KEYWORDS[int(k)])]
                  for n, k in kws]
            if mk != [[(m[0], m[2], m[3]) for m in g] for g in got_kw] or got_obj:
                bad.append(("DEPCYC", ans[1], got_kw + got_obj))
            exp += got_kw
        elif ans[1].startswith("cycles "):
            exp += expected_groups([[back[i] for i in g] for g in parse_groups(ans[1])], "Dependency cycle", info)
        else:
            exp.append(ans[1])
        if exp != real_groups:
            bad.append(("DEPCYC/IMPORTS", [ans[1], ans[2]], real_groups))
        stats["traces"] += 3
        for op, model, observed in bad:
            stats["disagreements"] += 1
            chk.violation("correspondence", dict(rec, op=op, model=model, observed=observed,
                          expected="real code agrees with the oracle; the model differs",
                          theorem_or_correspondence="model_c15 %s vs dependency_checker" % op),
                          found_input=False)
    batch.append((lines, finish))
    chk.sample({"files": files, "error_groups": real_groups}, limit=6 if real_groups else 3)


# ------------------------------------------------------------------ D: ordering
def field_deps_from_ir(struct_dict):
    """Independent walker over the JSON IR: head of every field reference under the
    field, attributes excluded (what the reference calls 'mentions')."""
    out = []
    for f in struct_dict.get("field", []):
        acc = set()

        def walk(x):
            if isinstance(x, dict):
                if "path" in x and isinstance(x["path"], list) and x["path"] and \
                        isinstance(x["path"][0], dict) and "canonical_name" in x["path"][0]:
                    acc.add(tuple(x["path"][0]["canonical_name"]["object_path"]))
                for k, v in x.items():
                    if k != "attribute":
                        walk(v)
            elif isinstance(x, list):
                for v in x:
                    walk(v)
        walk(f)
        out.append((tuple(f["name"]["canonical_name"]["object_path"]), acc))
    return out


def spec_order_ok(order, names_n, deps_n, params_n):
    """order: list of node ids; spec from the property statement."""
    if sorted(order) != sorted(names_n):
        return "not a permutation"
    seen = set(params_n)
    for f in order:
        if not all(d in seen for d in deps_n[f]):
            return "field %d before a dependency" % f
        seen.add(f)
    seen = set(params_n)
    sorted_already = True
    for f in names_n:
        if not all(d in seen for d in deps_n[f]):
            sorted_already = False
            break
        seen.add(f)
    if sorted_already and order != names_n:
        return "source order was already valid but was changed"
    # stable: lexicographically least topological order w.r.t. source positions
    seen = set(params_n)
    rest = list(names_n)
    least = []
    while rest:
        nxt = next((f for f in rest if all(d in seen for d in deps_n[f])), None)
        if nxt is None:
            break
        least.append(nxt)
        seen.add(nxt)
        rest.remove(nxt)
    if order != least:
        return "not the least topological order %r" % least
    return None


def order_cases(chk, files, d, batch, stats):
    """Every structure of the main module of an accepted IR: oracle + model `ORDER`."""
    for t in all_types(d["module"][0].get("type", [])):
        if "structure" not in t:
            continue
        s = t["structure"]
        fdeps = field_deps_from_ir(s)
        ids = {nm: i for i, (nm, _) in enumerate(fdeps)}
        pid = {tuple(p["name"]["canonical_name"]["object_path"]): 1000 + i
               for i, p in enumerate(t.get("runtime_parameter", []))}
        allid = dict(ids)
        allid.update(pid)
        deps_n = {ids[nm]: sorted(allid.get(x, 9999) for x in acc) for nm, acc in fdeps}
        names_n = [ids[nm] for nm, _ in fdeps]
        params_n = sorted(pid.values())
        real = [int(x) for x in s.get("fields_in_dependency_order", [])]
        rec = {"kind": "emb", "files": files, "main": "m.emb",
               "structure": t["name"]["name"]["text"]}
        why = spec_order_ok(real, names_n, deps_n, params_n)
        stats["structures-ordered"] += 1
        if why:
            chk.violation("input", dict(rec, observed=real, expected=why))
            continue
        if real != names_n:
            stats["structures-reordered"] += 1
            chk.nontrivial("reordered:%r/%r" % (real, sorted(deps_n.items())))
        line = "ORDER %s;%s;%s" % (
            ",".join(map(str, params_n)), ",".join(map(str, names_n)),
            "|".join("%d:%s" % (f, ",".join(map(str, deps_n[f]))) for f in names_n))

        def finish(ans, real=real, rec=rec, line=line):
            stats["traces"] += 1
            if ans[0] != "order " + ",".join(map(str, real)):
                stats["disagreements"] += 1
                chk.violation("correspondence", dict(rec, op=line, model=ans[0], observed=real,
                              expected="real order satisfies the ordering oracle; the model differs",
                              theorem_or_correspondence="model_c15 ORDER vs fields_in_dependency_order"),
                              found_input=False)
        batch.append(([line], finish))


def all_types(ts):
    for t in ts:
        yield t
        for u in all_types(t.get("subtype", [])):
            yield u


def gen_struct(r, n_fields, n_params, cyclic_bias):
    """Single structure, type-correct, mostly acyclic (the original ordering generator)."""
    params = ["p%d" % i for i in range(n_params)]
    names = ["f%d" % i for i in range(n_fields)]
    hid = {x: r.random() for x in names}
    lines = []
    intended = {}
    off = 0
    for nm in names:
        cands = names if r.random() < cyclic_bias else [x for x in names if hid[x] < hid[nm]]
        cands = cands + params
        ds = set(r.sample(cands, min(r.choice([0, 0, 1, 1, 2, 3]), len(cands)))) if cands else set()
        kind = r.choice(["let", "let", "cond", "dyn", "plain"])
        if kind == "plain":
            ds = set()
        if kind != "let" and r.random() < 0.7:
            ds.discard(nm)
        intended[("m.emb", "Foo", nm)] = {("m.emb", "Foo", x) for x in ds}
        expr = " + ".join(sorted(ds)) if ds else "0"
        if kind == "let":
            lines.append("  let %s = %s + 1" % (nm, expr))
        elif kind == "cond":
            lines += ["  if %s == 0:" % expr, "    %d [+1] UInt %s" % (off, nm)]
            off += 1
        elif kind == "dyn":
            lines.append("  %s [+1] UInt %s" % (expr, nm))
        else:
            lines.append("  %d [+1] UInt %s" % (off, nm))
            off += 1
    for p in params:
        intended[("m.emb", "Foo", p)] = set()
    head = "struct Foo%s:" % ("(" + ", ".join("%s: UInt:8" % p for p in params) + ")" if params else "")
    return {"m.emb": head + "\n" + "\n".join(lines) + "\n"}, "m.emb", intended


PINNED = [
    # F7 (fixed by 128ce6f): ≥3 disjoint cycles — the group order must be the sorted one
    ("f7", {"m.emb": "struct Foo:\n  let a = b\n  let b = a\n  let c = d\n  let d = c\n  let e = f\n  let f = e\n"}),
    ("f7-enums", {"m.emb": "enum Zz:\n  ZA = ZB\n  ZB = ZA\nenum Aa:\n  AB = AA\n  AA = AB\nstruct Foo:\n"
                  "  let q = q\n  let y = x\n  let x = y\n  0 [+1] UInt k\n"}),
    ("nested-scc", {"m.emb": "struct Foo:\n  let a = d + c\n  let c = f + g\n  let f = c\n  let g = e\n"
                    "  let e = b\n  let b = c\n  let d = f\n  let h = a\n"}),
    ("self", {"m.emb": "struct Foo:\n  let x = x + 1\n"}),
    ("self-location", {"m.emb": "struct Foo:\n  x [+1] UInt x\n"}),
    ("size-in-bytes", {"m.emb": "struct Foo:\n  0 [+1] UInt a\n  a + $size_in_bytes [+1] UInt c\n"}),
    ("param-arg", {"m.emb": "struct Bar(p: UInt:8):\n  0 [+1] UInt x\nstruct Foo:\n  0 [+1] UInt a\n"
                   "  1 [+1] Bar(b) y\n  y.x [+1] UInt b\n"}),
    ("param-arg-self", {"m.emb": "struct Bar(p: UInt:8):\n  0 [+1] UInt x\nstruct Foo:\n  1 [+1] Bar(y.x) y\n"}),
    ("attr-no-edge", {"m.emb": "struct Foo:\n  [requires: a == b]\n  0 [+1] UInt a\n  let b = a\n"}),
    ("enum-self", {"m.emb": "enum Ee:\n  AA = AA\n"}),
    ("enum-two", {"m.emb": "enum Ee:\n  AA = BB + 1\n  BB = Ff.CC\nenum Ff:\n  CC = Ee.AA\n  DD = 4\n"}),
    ("kw-static", {"m.emb": "struct Foo:\n  0 [+1] UInt x\n  let y = $is_statically_sized\n  let z = $static_size_in_bits\n"}),
    ("kw-next", {"m.emb": "struct Foo:\n  0 [+1] UInt x\n  let y = $next\n  let a = b\n  let b = a\n"}),
    ("kw-next-cond", {"m.emb": "struct Foo:\n  0 [+1] UInt x\n  if $next == 1:\n    1 [+1] UInt y\n"}),
    ("kw-next-array", {"m.emb": "struct Foo:\n  0 [+1] UInt x\n  1 [+1] UInt:8[$next] y\n"}),
    ("kw-enum", {"m.emb": "enum Ee:\n  AA = $next\n  BB = $is_statically_sized\n"}),
    ("kw-two-structs", {"m.emb": "struct Foo:\n  0 [+1] UInt x\n  let y = $next\nstruct Goo(p: UInt:8):\n"
                        "  0 [+1] UInt x\n  let y = $static_size_in_bits + p\n"}),
    ("kw-attr-ok", {"m.emb": "struct Foo:\n  0 [+1] UInt x\n    [requires: $is_statically_sized]\n"}),
    ("import-two", {"a.emb": 'import "b.emb" as b\nstruct Foo:\n  0 [+1] UInt x\n',
                    "b.emb": 'import "a.emb" as a\nstruct Goo:\n  0 [+1] UInt x\n'}),
    ("import-self", {"a.emb": 'import "a.emb" as me\nstruct Foo:\n  0 [+1] UInt x\n'}),
    ("import-three-groups", {
        "a.emb": 'import "b.emb" as b\nimport "c.emb" as c\nimport "e.emb" as e\n',
        "b.emb": 'import "a.emb" as a\n', "c.emb": 'import "d.emb" as d\n', "d.emb": 'import "c.emb" as c\n',
        "e.emb": 'import "e.emb" as e\n'}),
    ("import-and-object", {
        "a.emb": 'import "b.emb" as b\nenum Ea:\n  AA = b.Eb.BB\n',
        "b.emb": 'import "a.emb" as a\nenum Eb:\n  BB = a.Ea.AA\n'}),
]

# Known crash outside the dependency checker (reported to the integrator, property C16):
# `$next` below an attribute or a type-parameter argument is skipped here and later fails
# an assertion in type_check._type_check_builtin_reference.


def testdata_modules():
    """The repository's own .emb files (and corpus/C15/*.emb), keyed as they import each other."""
    import glob
    import os
    files = {}
    for p in sorted(glob.glob(os.path.join(common.REPO, "testdata", "**", "*.emb"), recursive=True)):
        with open(p) as f:
            files[os.path.relpath(p, common.REPO)] = f.read()
    mains = sorted(files)
    corpus = {}
    for p in sorted(glob.glob(os.path.join(common.VERIF, "corpus", PROP, "*.emb"))):
        with open(p) as f:
            corpus[os.path.basename(p)] = f.read()
    return files, mains, corpus


def real_modules(chk, tier, model_ok, stats):
    r = common.rng("C15-emb")
    batch = []
    files, mains, corpus = testdata_modules()
    for main in mains:
        # only the files this one (transitively) imports are handed over
        module_case(chk, files, main, {}, None, "testdata", batch, stats)
    for name, text in corpus.items():
        module_case(chk, {"m.emb": text}, "m.emb", {}, None, "corpus", batch, stats)
    for tag, files in PINNED:
        main = "a.emb" if "a.emb" in files else "m.emb"
        module_case(chk, files, main, {}, None, "pinned", batch, stats)
    n = 220 if tier == "quick" else 2500
    for i in range(n):
        files, main, intended = gen_module(r, stats)
        module_case(chk, files, main, intended, None, "mixed", batch, stats)
    for i in range(160 if tier == "quick" else 2000):
        files, main, intended = gen_struct(r, r.randint(1, 12), r.randint(0, 2),
                                           r.choice([0, 0, 0, 0.05, 0.2, 0.5]))
        module_case(chk, files, main, intended, None, "struct", batch, stats)
    for i in range(120 if tier == "quick" else 1200):
        files, main, intended, imps = gen_imports(r, stats)
        module_case(chk, files, main, intended, imps, "imports", batch, stats)
    if model_ok:
        lines = [l for ls, _ in batch for l in ls]
        answers = common.Model("model_c15").ask(lines)
        i = 0
        for ls, finish in batch:
            finish(answers[i:i + len(ls)])
            i += len(ls)


# ------------------------------------------------------------------ E: depth
def let_chain(n):
    lines = ["struct Foo:", "  0 [+1] UInt x"]
    for i in range(n):
        lines.append("  let f%d = f%d + 1" % (i, i + 1))
    lines.append("  let f%d = x" % n)
    return "\n".join(lines) + "\n"


def chain_probe(n):
    """find_dependency_cycles on a `let` chain f0 → f1 → … → fn → x.  Returns
    ('ok', number of error groups) or ('RecursionError', function name)."""
    ir, errors, exc = emb.compile_text({"m.emb": let_chain(n)}, stop_before_step="find_dependency_cycles")
    if exc is not None or errors:
        return ("before-check", repr(exc or summarize(errors)[:1]))
    try:
        return ("ok", len(dependency_checker.find_dependency_cycles(ir)))
    except RecursionError as e:
        tb = traceback.extract_tb(e.__traceback__)
        return ("RecursionError", collections.Counter(f.name for f in tb).most_common(1)[0][0])


def depth(chk, tier, model_ok, stats):
    # raw: smallest chain (number of edges) on which _find_cycles exceeds the recursion limit
    lo, hi = 1, 4 * sys.getrecursionlimit()
    while lo < hi:
        mid = (lo + hi) // 2
        g = {i: {i + 1} for i in range(mid)}
        g[mid] = set()
        if real_find_cycles(g)[1] == "recursion-error":
            hi = mid
        else:
            lo = mid + 1
    chk.extra["recursion_limit"] = sys.getrecursionlimit()
    chk.extra["raw_chain_first_recursion_error_edges"] = lo
    # through the front end
    probes = {}
    for n in ([100, 900] if tier == "quick" else [100, 500, 900, 950, 975]):
        chk.count()
        probes[n] = chain_probe(n)
        if probes[n][0] != "ok" or probes[n][1] != 0:
            chk.violation("input", {"kind": "let-chain", "n": n, "observed": probes[n],
                                    "expected": "no cycle error, no exception (chain below the recursion limit)"},
                          key=RECURSION_KEY if probes[n][0] == "RecursionError" else None)
    chk.extra["let_chain_probes"] = {str(k): list(v) for k, v in probes.items()}
    if model_ok:
        n = 1500
        line = graph_line("CYCLES", list(range(n + 1)), {i: ([i + 1] if i < n else []) for i in range(n + 1)})
        cyc = graph_line("CYCLES", list(range(n + 1)), {i: [(i + 1) % (n + 1)] for i in range(n + 1)})
        a = common.Model("model_c15").ask([line, cyc])
        stats["traces"] += 2
        if a[0] != "cycles " or a[1] != show_groups([list(range(n + 1))]):
            stats["disagreements"] += 1
            chk.violation("correspondence", {"kind": "raw-chain", "n": n, "model": [x[:80] for x in a],
                                             "expected": "no out-of-fuel on a %d-chain / one %d-cycle" % (n, n + 1)},
                          found_input=False)


def known_findings(chk):
    """Re-execute the pinned input of every open finding of this property."""
    for k in chk.known:
        if k.get("property") != PROP or k.get("status") != "open":
            continue
        inp = k.get("input")
        if isinstance(inp, dict) and inp.get("kind") == "let-chain":
            if chain_probe(inp["n"])[0] == "RecursionError":
                chk.report_known(k)


# ------------------------------------------------------------------ entry points
def search(chk):
    """Model-free search used when the Lean obligations are broken: real code against the
    closure oracle / the ordering oracle only."""
    before = len(chk.violations)
    stats = collections.Counter()
    r = common.rng("C15-search")
    lines, pending = [], []
    for i in range(6000):
        raw_case(chk, r, FAMILIES[i % len(FAMILIES)], lines, pending, stats)
    batch = []
    for tag, files in PINNED:
        module_case(chk, files, "a.emb" if "a.emb" in files else "m.emb", {}, None, "pinned", batch, stats)
    for i in range(150):
        files, main, intended = gen_module(r, stats)
        module_case(chk, files, main, intended, None, "mixed", batch, stats)
        files, main, intended, imps = gen_imports(r, stats)
        module_case(chk, files, main, intended, imps, "imports", batch, stats)
    return len(chk.violations) - before


MAX_REPLAYS = 40


def cap_violations(chk):
    """A broken dependency checker fails thousands of cases; keep the first MAX_REPLAYS
    replay files and count the rest (exit code and VIOLATION lines are unaffected)."""
    orig = chk.violation

    def violation(kind, detail, key=None, found_input=True):
        if len(chk.violations) >= MAX_REPLAYS and (key is None or chk.known_finding(key) is None):
            chk.extra["violations_not_written"] = chk.extra.get("violations_not_written", 0) + 1
            return None
        return orig(kind, detail, key=key, found_input=found_input)
    chk.violation = violation


def run(tier):
    chk = common.Check(PROP, tier, exes=["model_c15"])
    cap_violations(chk)
    chk.cov["rule"] = ("random graphs over ≤14 nodes: raw dict-of-sets graphs for _find_cycles, and reference "
                       "graphs realised as .emb modules (fields, enum values, parameters, imports); "
                       "non-trivial = at least one cycle component / error group, or a structure whose real "
                       "order differs from source order; distinct by graph (raw) or module text")
    chk.trusted.append("IR walker in harness/corr/C15.py (JSON form of the IR → reference occurrences)")
    model_ok = common.proof_gate(chk, search)
    stats = collections.Counter()
    known_findings(chk)
    raw_graphs(chk, tier, model_ok, stats)
    real_modules(chk, tier, model_ok, stats)
    depth(chk, tier, model_ok, stats)
    chk.extra["traces_validated_against_impl"] = stats.pop("traces", 0)
    chk.extra["disagreements"] = stats.pop("disagreements", 0)
    chk.extra["distribution"] = dict(sorted(stats.items()))
    chk.extra["group_order_compared"] = "exactly (order of groups and of members; nothing canonicalised)"
    return chk.finish()


def replay(path):
    rec = json.load(open(path))
    kind = rec.get("kind")
    if kind == "raw":
        g = {unrepr_label(k): {unrepr_label(b) for b in v} for k, v in rec["graph"]}
        real, err = real_find_cycles(g)
        print("graph:", g)
        print("real _find_cycles:", err or canon(real))
        closed = all(b in g for v in g.values() for b in v)
        print("oracle:", canon(closure_sccs(g)) if closed else "KeyError expected (dangling destination)")
        return 0
    if kind == "let-chain":
        print("let chain of length", rec["n"], "→", chain_probe(rec["n"]))
        return 0
    files = rec.get("files") or {"m.emb": rec["input"]}
    main = rec.get("main", "m.emb")
    for stop in ("find_dependency_cycles", None):
        ir, errors, exc = emb.compile_text(files, main=main, stop_before_step=stop)
        print("stop_before_step=%s: exception: %r" % (stop, exc))
        print("  errors:", summarize(errors))
        if stop and ir is not None and not errors:
            deps, kw = dependency_checker._find_dependencies(ir)
            print("  _find_dependencies:", {k: sorted(v) for k, v in deps.items() if v})
            print("  find_dependency_cycles:", summarize(dependency_checker.find_dependency_cycles(ir)))
            closed = all(b in deps for v in deps.values() for b in v)
            print("  oracle components:", canon(closure_sccs(deps)) if closed else "dangling")
        if not stop and ir is not None:
            for t in all_types(emb.ir_to_dict(ir)["module"][0].get("type", [])):
                if "structure" in t:
                    print("  fields_in_dependency_order %s: %s" % (
                        t["name"]["name"]["text"], t["structure"].get("fields_in_dependency_order")))
    return 0
