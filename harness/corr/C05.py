"""C05 — inferred integer bounds and alignments are sound (and tight where documented).

Tie (correspondence, node-wise).  Modules are compiled by the real front end up to
`check_constraints`; at **every** expression node of the annotated IR the Python
annotation must equal the Lean model's transfer function (`model_c05 NODE/LEAF`)
applied to the Python annotations (and `ir_util.constant_value`s) of its children;
every node's annotation must satisfy `_assert_integer_constraints` as modelled (`INV`);
every top-level expression's accept/reject by the 64-bit gate must equal the model's
`GATE` on the real annotated tree; for generated expressions the model also evaluates
the whole tree from the generator's own description (`TREE`) and must reproduce the
root annotation, `constant_value`, the gate verdict — or predict the crash.

Every integer annotation is also checked for the canonical remainder of the inductive
invariant `InvOk` (0 <= modular_value < modulus).  In every structure the synthesised
`$size_in_*` / `$max_size_in_*` / `$min_size_in_*` are compared with the shape the model's
`sizeExpr` assumes (`C05_size_bounds`), and an always-present field at a constant location
must end within the annotated `$max_size_in_*` (model-free).  References to virtual fields
are sent to the model as `(vref …)` nodes, `$present(f)` as `(present f cond)`; the model's
typing discipline `tyOf` (hypothesis of `C05_no_crash`) must give every generated expression
the type the real front end gave it (`TYOF`).

C++ types (arithmetic half of C04): `header_generator._cpp_integer_type_for_range` is compared
with the model (`CPPTYPE`) on boundary ranges around ±2^31, ±2^32, ±2^63, 2^64 and on every
range an annotation or an operation hull exhibited in the run.  For every module the front
end accepts (testdata, corpus, edge enumeration, generated; the accepted `let`s of a partly
rejected module are resubmitted on their own) the real header is generated and the template
arguments `<IntermediateT, ResultT, ArgTs…>` of every Sum/Difference/Product/Maximum/Equal/…/
Choice call found in the **header text** are compared with the model (`SIG` per node on the real
annotations = `CppArith.nodeSig`; `SIGS` per generated expression = `CppArith.opSigs` on the
model's own annotations): calls expected for the virtual fields ⊆ calls in the header ⊆ calls
expected for all expressions of the module.

Independent spec oracles (no model; also `search`): (1) every generated expression is
evaluated over ℤ/Bool for enumerated (≤ 2^16 environments) or sampled leaf values; every
aligned node's value must lie in γ(Python annotation); tightness of single-occurrence
expressions and of `?:` with an independent two-valued condition is tested on corner
environments; (2) "every run-time subexpression of an accepted module fits one 64-bit type
together with its operands" is evaluated on the real annotations of every top-level
expression in which `check_constraints` reported no 64-bit error (`gate_oracle`), over a
deterministic enumeration of 64-bit-edge expressions (`edge_modules`) besides the random
stream; (3) the C++ type chosen for a range must be the first of int32/uint32/int64/uint64
holding it, and the header's template arguments must be those types (`spec_sig`).
"""
import itertools
import json
import os
import traceback

from harness.lib import common, emb

PROP = "C05"
TWO63, TWO64 = 2 ** 63, 2 ** 64

FN = {"ADDITION": "add", "SUBTRACTION": "sub", "MULTIPLICATION": "mul", "EQUALITY": "eq",
      "INEQUALITY": "ne", "LESS": "lt", "LESS_OR_EQUAL": "le", "GREATER": "gt",
      "GREATER_OR_EQUAL": "ge", "AND": "and", "OR": "or", "CHOICE": "choice",
      "MAXIMUM": "max", "UPPER_BOUND": "upper", "LOWER_BOUND": "lower", "PRESENCE": "presence"}
SEXP_OP = {"add": "+", "sub": "-", "mul": "*", "eq": "==", "ne": "!=", "lt": "<", "le": "<=",
           "gt": ">", "ge": ">=", "and": "&&", "or": "||"}
PYOP = {"add": lambda a, b: a + b, "sub": lambda a, b: a - b, "mul": lambda a, b: a * b,
        "eq": lambda a, b: a == b, "ne": lambda a, b: a != b, "lt": lambda a, b: a < b,
        "le": lambda a, b: a <= b, "gt": lambda a, b: a > b, "ge": lambda a, b: a >= b,
        "and": lambda a, b: a and b, "or": lambda a, b: a or b}


# ------------------------------------------------------------------ encoding
def ext(s):
    return {"infinity": "inf", "-infinity": "-inf"}.get(s, s)


def atype_of(t):
    """ir_data.ExpressionType → protocol string (None if not int/bool/enum)."""
    w = t.which_type
    if w == "integer":
        i = t.integer
        if i.minimum_value is None or i.maximum_value is None or i.modulus is None \
                or i.modular_value is None:
            return None
        return "i:%s:%s:%s:%s" % (ext(i.minimum_value), ext(i.maximum_value), ext(i.modulus),
                                  ext(i.modular_value))
    if w == "boolean":
        if t.boolean.has_field("value"):
            return "b:T" if t.boolean.value else "b:F"
        return "b:U"
    if w == "enumeration":
        if t.enumeration.has_field("value"):
            return "e:%s" % t.enumeration.value
        return "e:U"
    return None


def cv_of(expr):
    from compiler.util import ir_util
    try:
        v = ir_util.constant_value(expr)
    except Exception:  # noqa: BLE001
        return "x"
    if v is None:
        return "n"
    if v is True:
        return "bT"
    if v is False:
        return "bF"
    if expr.type.which_type == "enumeration":
        return "e%d" % v
    return "i%d" % v


# ------------------------------------------------------------------ IR walking
def leaf_query(expr, ir):
    """For a field_reference to a physical integer field/parameter: the LEAF op derived
    from the referenced declaration; ('copy', type) for a virtual field."""
    from compiler.util import ir_data, ir_util
    path = expr.field_reference.path[-1]
    field = ir_util.find_object(path, ir)
    if isinstance(field, ir_data.Field) and ir_util.field_is_virtual(field):
        return ("copy", field.read_transform.type)
    if expr.type.which_type != "integer":
        return None
    rt = field.type if isinstance(field, ir_data.Field) else field.physical_type_alias
    size = None
    if rt.has_field("size_in_bits"):
        size = ir_util.constant_value(rt.size_in_bits)
    elif isinstance(field, ir_data.Field):
        fs = ir_util.constant_value(field.location.size)
        if fs is not None:
            size = fs * ir_util.find_parent_object(path, ir).addressable_unit
    name = tuple(rt.atomic_type.reference.canonical_name.object_path)
    kind = {("UInt",): "uint", ("Int",): "sint", ("Bcd",): "bcd"}.get(name)
    if kind is None:
        return None
    return ("leaf", "LEAF %s %s" % (kind, "?" if size is None else size))


def atree(expr):
    """annotated tree for the GATE op (None if some type is not encodable)."""
    t = atype_of(expr.type)
    if t is None:
        return None
    if expr.which_expression == "function":
        kids = [atree(a) for a in expr.function.args]
        if any(k is None for k in kids):
            return None
        return "(F %s %s)" % (t, " ".join(kids)) if kids else "(F %s)" % t
    return "(N %s)" % t


GATE_KIND = [("must not be unbounded", "unbounded"), ("Constant value", "const"),
             ("Potential range", "range"), ("Either all arguments", "mixed")]


def gate_kinds_by_line(errs):
    out = {}
    for g in emb.error_summary(errs):
        f, loc, sev, msg = g[0]
        for pat, k in GATE_KIND:
            if pat in msg:
                line = int(loc.split(":")[0])
                out.setdefault(line, []).append((loc, k))
    return out


class Batch:
    """Collects model queries; answers are checked after one driver call."""

    def __init__(self):
        self.lines = []
        self.checks = []      # (index, expected, context dict, kind)
        self.post = []        # callables(answers) run after the answers are in

    def ask(self, line, expected, ctx, kind):
        self.checks.append((len(self.lines), expected, ctx, kind))
        self.lines.append(line)

    def query(self, line):
        """a query whose answer is judged by a deferred callback; returns its index"""
        self.lines.append(line)
        return len(self.lines) - 1


def _strip_ir(x):
    """dict form of an IR node without source locations / synthetic marks"""
    from compiler.util import ir_data_utils
    d = ir_data_utils.IrDataSerializer(x).to_dict(exclude_none=True)

    def rm(o):
        if isinstance(o, dict):
            return {k: rm(v) for k, v in o.items() if k not in ("source_location", "is_synthetic")}
        if isinstance(o, list):
            return [rm(v) for v in o]
        return o
    return rm(d)


def check_size_shape(chk, text, types, stats, origin):
    """Tie for `C05_size_bounds`: in every structure the synthesised `$size_in_*` is
    `$max(0, cond_i ? start_i + size_i : 0, …)` over the physical fields in order (the model's
    `sizeExpr`), and `$max_size_in_*` / `$min_size_in_*` are `$upper_bound` / `$lower_bound`
    of a reference to it."""
    from compiler.util import ir_data, ir_util
    FM = ir_data.FunctionMapping
    for t in types:
        check_size_shape(chk, text, t.subtype, stats, origin)
        if not t.has_field("structure"):
            continue
        fields = {f.name.name.text: f for f in t.structure.field}
        unit = "bits" if "$size_in_bits" in fields else "bytes"
        sz = fields.get("$size_in_" + unit)
        if sz is None:
            continue
        why = None
        s = sz.read_transform
        phys = [f for f in t.structure.field if not ir_util.field_is_virtual(f)]
        try:
            if s.function.function != FM.MAXIMUM or len(s.function.args) != len(phys) + 1 \
                    or s.function.args[0].constant.value != "0":
                why = "$size_in_%s is not $max(0, one clause per physical field)" % unit
            else:
                for f, c in zip(phys, s.function.args[1:]):
                    ok = (c.function.function == FM.CHOICE and len(c.function.args) == 3
                          and _strip_ir(c.function.args[0]) == _strip_ir(f.existence_condition)
                          and c.function.args[1].function.function == FM.ADDITION
                          and _strip_ir(c.function.args[1].function.args[0]) == _strip_ir(f.location.start)
                          and _strip_ir(c.function.args[1].function.args[1]) == _strip_ir(f.location.size)
                          and c.function.args[2].constant.value == "0")
                    if not ok:
                        why = "clause of field %s is not `existence_condition ? start + size : 0`" % f.name.name.text
                        break
            for nm, fn in (("$max_size_in_", FM.UPPER_BOUND), ("$min_size_in_", FM.LOWER_BOUND)):
                b = fields.get(nm + unit)
                if why is None and b is not None:
                    r = b.read_transform
                    if r.function.function != fn or len(r.function.args) != 1 or \
                            list(r.function.args[0].field_reference.path[-1].canonical_name.object_path)[-1] \
                            != "$size_in_" + unit:
                        why = "%s%s is not the bound function of $size_in_%s" % (nm, unit, unit)
        except AttributeError as e:
            why = "unexpected IR shape: %r" % e
        # spec oracle without the model (property statement: "$max_size_in_* … are true bounds"):
        # a field that is always present at a constant location ends within $max_size_in_*
        mxf = fields.get("$max_size_in_" + unit)
        if mxf is not None and mxf.read_transform.type.integer.modulus == "infinity" and \
                mxf.read_transform.type.integer.modular_value not in (None, "infinity", "-infinity"):
            mx = int(mxf.read_transform.type.integer.modular_value)
            for f in phys:
                try:
                    c = ir_util.constant_value(f.existence_condition)
                    st = ir_util.constant_value(f.location.start)
                    z = ir_util.constant_value(f.location.size)
                except Exception:  # noqa: BLE001
                    continue
                if c is True and st is not None and z is not None:
                    stats["size_static_fields"] = stats.get("size_static_fields", 0) + 1
                    if st + z > mx:
                        chk.violation("input", {"input": text, "origin": origin, "structure": t.name.name.text,
                                                "observed": "$max_size_in_%s = %d" % (unit, mx),
                                                "expected": "at least %d: field %s is always present at [%d, %d)"
                                                            % (st + z, f.name.name.text, st, st + z)})
                        break
        stats["size_shape"] = stats.get("size_shape", 0) + 1
        stats["size_clauses"] = stats.get("size_clauses", 0) + len(phys)
        if why:
            chk.violation("correspondence", {"input": text, "origin": origin, "structure": t.name.name.text,
                                             "observed": why, "expected": "model sizeExpr (Spec/BoundsSize.lean)",
                                             "theorem_or_correspondence": "C05_size_bounds"},
                          found_input=False)


def check_module_nodes(chk, text, ir, errs, batch, stats, origin, modules=None):
    """Node-wise queries for every expression of an annotated IR."""
    from compiler.util import ir_util
    gk = gate_kinds_by_line(errs)

    def visit(expr, top, attr):
        t = atype_of(expr.type)
        if t is None:
            return
        ctx = {"input": text, "origin": origin, "where": str(expr.source_location or "")}
        w = expr.which_expression
        stats["nodes"] = stats.get("nodes", 0) + 1
        if t.startswith("i:"):
            batch.ask("INV " + t, "true", dict(ctx, annotation=t), "inv")
            # the other two conjuncts of the inductive invariant `InvOk` (Spec/BoundsInv.lean),
            # evaluated directly: canonical remainder; "constant infinity" only counted (F8)
            _, _mn, _mx, _md, _mv = t.split(":")
            if _md != "inf":
                canon = _mv not in ("inf", "-inf") and 0 <= int(_mv) < int(_md)
                if not canon:
                    chk.violation("correspondence", dict(ctx, annotation=t, observed="modular_value %s" % _mv,
                                  expected="0 <= modular_value < modulus (CanonMv, proved by "
                                           "C05_inv_preserved for every annotation the model computes)",
                                  theorem_or_correspondence="C05_inv_preserved"), found_input=False)
            elif _mv in ("inf", "-inf"):
                stats["constant_infinity"] = stats.get("constant_infinity", 0) + 1
        if w == "function":
            name = FN.get(expr.function.function.name)
            stats["op:%s" % name] = stats.get("op:%s" % name, 0) + 1
            if name == "presence":
                f = ir_util.find_object(expr.function.args[0].field_reference.path[-1], ir)
                want = atype_of(f.existence_condition.type)
                if want != t:
                    chk.violation("correspondence", dict(ctx, expected=want, observed=t,
                                  theorem_or_correspondence="$present copies existence_condition type"),
                                  found_input=False)
            elif name is not None:
                args = []
                ok = True
                for a in expr.function.args:
                    at = atype_of(a.type)
                    if at is None:
                        ok = False
                        break
                    c = cv_of(a) if name in ("eq", "ne", "lt", "le", "gt", "ge", "and", "or") else "n"
                    args.append("%s|%s" % (at, c))
                if ok:
                    batch.ask("NODE %s %s" % (name, " ".join(args)), t, ctx, "node")
        elif w == "field_reference":
            q = leaf_query(expr, ir)
            if q is not None and q[0] == "leaf":
                stats["leaf"] = stats.get("leaf", 0) + 1
                batch.ask(q[1], t, ctx, "leaf")
            elif q is not None:
                want = atype_of(q[1])
                stats["vref"] = stats.get("vref", 0) + 1
                if want != t:
                    chk.violation("correspondence", dict(ctx, expected=want, observed=t,
                                  theorem_or_correspondence="virtual field reference copies the type"),
                                  found_input=False)
        elif w == "constant":
            v = expr.constant.value
            batch.ask("TREE (c %s)" % v, "abs=%s cv=i%s" % (t, int(v)), ctx, "treeprefix")
        elif w == "builtin_reference":
            nm = expr.builtin_reference.canonical_name.object_path[0]
            if nm == "$static_size_in_bits":
                batch.ask("SSIZE", t, ctx, "leaf")
        if top and attr != "static_requirements" and not in_enum_value[0]:
            tr = atree(expr)
            if tr is not None and expr.source_location is not None:
                tops.append((str(expr.source_location), tr, ctx, expr))

    in_enum_value = [False]
    tops = []
    from compiler.util import ir_data

    def walk(obj, inside_expr=False, attr=None, enumv=False):
        from compiler.util import ir_data_fields
        if isinstance(obj, ir_data.Expression):
            in_enum_value[0] = enumv
            visit(obj, not inside_expr, attr)
            inside_expr = True
        if isinstance(obj, ir_data.Attribute):
            attr = obj.name.text if obj.name is not None else None
        if isinstance(obj, ir_data.EnumValue):
            enumv = True
        for spec, value in ir_data_fields.fields_and_values(obj):
            if value is None:
                continue
            if isinstance(value, (list, tuple)):
                for v in value:
                    if isinstance(v, ir_data.Message):
                        walk(v, inside_expr, attr, enumv)
            elif isinstance(value, ir_data.Message):
                walk(value, inside_expr, attr, enumv)

    if modules is None:
        modules = [m for m in ir.module if m.source_file_name == "m.emb"]
    for m in modules:
        walk(m)
        check_size_shape(chk, text, m.type, stats, origin)
    # every gate error belongs to the innermost top-level expression that contains it
    got = {}
    for line, lst in gk.items():
        for loc, k in lst:
            best = None
            for i, (rng, tr, ctx, _e) in enumerate(tops):
                if within(loc, rng):
                    sz = range_size(rng)
                    if best is None or sz < best[0]:
                        best = (sz, i)
            if best is not None:
                got.setdefault(best[1], []).append(k)
    for i, (rng, tr, ctx, top_expr) in enumerate(tops):
        kinds = sorted(got.get(i, []))
        want = "ok" if not kinds else "err " + ",".join(kinds)
        key = "gate:" + ("ok" if not kinds else "reject")
        stats[key] = stats.get(key, 0) + 1
        batch.ask("GATE " + tr, want, ctx, "gate")


def _const_type(t):
    w = t.which_type
    if w == "integer":
        return t.integer.modulus == "infinity"
    if w == "boolean":
        return t.boolean.has_field("value")
    if w == "enumeration":
        return t.enumeration.has_field("value")
    return False


def spec_gate(expr):
    """None if every run-time subexpression fits one 64-bit type with its operands."""
    def rng(e):
        i = e.type.integer
        if i.minimum_value in ("-infinity", "infinity") or i.maximum_value in ("-infinity", "infinity"):
            return None
        return int(i.minimum_value), int(i.maximum_value)
    if expr.type.which_type == "integer":
        r = rng(expr)
        if r is None:
            return "unbounded value at %s" % expr.source_location
        if not ((r[0] >= -TWO63 and r[1] <= TWO63 - 1) or (r[0] >= 0 and r[1] <= TWO64 - 1)):
            return "range %s..%s at %s fits neither int64 nor uint64" % (r[0], r[1], expr.source_location)
    if expr.which_expression == "function" and not _const_type(expr.type):
        for a in expr.function.args:
            why = spec_gate(a)
            if why:
                return why
        rs = [rng(c) for c in [expr] + list(expr.function.args) if c.type.which_type == "integer"]
        if rs and not (all(r[0] >= -TWO63 and r[1] <= TWO63 - 1 for r in rs) or
                       all(r[0] >= 0 and r[1] <= TWO64 - 1 for r in rs)):
            return "operands and result of the operation at %s do not fit one 64-bit type: %s" % (
                expr.source_location, rs)
    return None


def range_size(s):
    a, b = s.rstrip("*").split("-")
    (l1, c1), (l2, c2) = map(int, a.split(":")), map(int, b.split(":"))
    return (l2 - l1, c2 - c1)


def within(inner, outer):
    """source range `inner` lies inside `outer` ('l:c-l:c')."""
    def p(s):
        a, b = s.split("-")
        return tuple(map(int, a.split(":"))), tuple(map(int, b.rstrip("*").split(":")))
    try:
        (a, b), (c, d) = p(inner), p(outer)
    except ValueError:
        return False
    return c <= a and b <= d


def sorted_gate(ans):
    if ans.startswith("err "):
        return "err " + ",".join(sorted(ans[4:].split(",")))
    return ans


# ------------------------------------------------------------------ model-free oracles on the real IR
def iter_expressions(modules):
    """(expression, is_top_level, enclosing attribute name, inside an enum value) for every
    ir_data.Expression of the given modules, parents first."""
    from compiler.util import ir_data, ir_data_fields
    out = []

    def walk(obj, inside_expr, attr, enumv):
        if isinstance(obj, ir_data.Expression):
            out.append((obj, not inside_expr, attr, enumv))
            inside_expr = True
        if isinstance(obj, ir_data.Attribute):
            attr = obj.name.text if obj.name is not None else None
        if isinstance(obj, ir_data.EnumValue):
            enumv = True
        for spec, value in ir_data_fields.fields_and_values(obj):
            if value is None:
                continue
            if isinstance(value, (list, tuple)):
                for v in value:
                    if isinstance(v, ir_data.Message):
                        walk(v, inside_expr, attr, enumv)
            elif isinstance(value, ir_data.Message):
                walk(value, inside_expr, attr, enumv)
    for m in modules:
        walk(m, False, None, False)
    return out


RANGES = set()       # every finite (min, max) an annotation or an operation hull exhibits in this run


def finite_range(t):
    if t.which_type != "integer":
        return None
    i = t.integer
    if i.minimum_value in (None, "-infinity", "infinity") or i.maximum_value in (None, "-infinity", "infinity"):
        return None
    return int(i.minimum_value), int(i.maximum_value)


def gate_oracle(chk, text, ir, errs, stats, origin, modules=None):
    """Property statement, evaluated directly on the real annotations (no model): "every
    run-time subexpression of an accepted module fits one 64-bit type together with its
    operands".  Applied to every top-level expression in which `check_constraints` reported no
    64-bit error (so also to the accepted expressions of a module that is rejected elsewhere);
    `[static_requirements]` and enum values are never evaluated at run time."""
    if modules is None:
        modules = [m for m in ir.module if m.source_file_name == "m.emb"]
    gk = gate_kinds_by_line(errs)
    locs = [loc for lst in gk.values() for (loc, _k) in lst]
    n_bad = 0
    for expr, top, attr, enumv in iter_expressions(modules):
        r = finite_range(expr.type)
        if r is not None:
            RANGES.add(r)
        if expr.which_expression == "function" and not _const_type(expr.type):
            rs = [finite_range(c.type) for c in [expr] + list(expr.function.args)]
            rs = [x for x in rs if x is not None]
            if rs:
                RANGES.add((min(x[0] for x in rs), max(x[1] for x in rs)))
        if not top or attr == "static_requirements" or enumv or expr.source_location is None:
            continue
        if atype_of(expr.type) is None:
            continue
        rng = str(expr.source_location)
        if any(within(loc, rng) for loc in locs):
            stats["spec_gate:rejected"] = stats.get("spec_gate:rejected", 0) + 1
            continue
        stats["spec_gate:accepted"] = stats.get("spec_gate:accepted", 0) + 1
        why = spec_gate(expr)
        if why:
            n_bad += 1
            if n_bad <= 2:
                chk.violation("input", {"input": text, "origin": origin, "where": rng,
                                        "observed": "accepted by the 64-bit gate",
                                        "expected": "rejected: " + why, "tree": atree(expr)})
    return n_bad


# --- the C++ type chosen for a range -------------------------------------------------------
CTYPES = [("i32", -2 ** 31, 2 ** 31 - 1), ("u32", 0, 2 ** 32 - 1),
          ("i64", -TWO63, TWO63 - 1), ("u64", 0, TWO64 - 1)]
CPPNAME = {"::std::int32_t": "i32", "::std::uint32_t": "u32", "::std::int64_t": "i64",
           "::std::uint64_t": "u64", "bool": "bool", "None": "none", None: "none"}


def spec_ctype(lo, hi):
    """Documented choice: the first of int32_t, uint32_t, int64_t, uint64_t that can represent
    every value of lo..hi; no type when neither 64-bit type can."""
    for name, a, b in CTYPES:
        if a <= lo and hi <= b:
            return name
    return "none"


def edge_ranges():
    pts = {0, 1, -1, 2, -2, 127, -128, 255, 65535, -32768}
    for k in (31, 32, 63, 64):
        for sgn in (1, -1):
            for d in (-2, -1, 0, 1, 2):
                pts.add(sgn * 2 ** k + d)
    pts = sorted(pts)
    return [(a, b) for a in pts for b in pts if a <= b]


def check_cpptypes(chk, batch, stats, with_model, ranges):
    """`header_generator._cpp_integer_type_for_range` on boundary ranges and on every range the
    compiled modules exhibited: against the documented choice (model-free; a type that cannot
    hold the range is silent overflow in the generated arithmetic) and against the model's
    `cppTypeForRange` (op CPPTYPE)."""
    from compiler.back_end.cpp import header_generator
    bad = 0
    for lo, hi in ranges:
        try:
            real = CPPNAME.get(header_generator._cpp_integer_type_for_range(lo, hi), "?")
        except Exception as e:  # noqa: BLE001
            real = "raise:" + type(e).__name__
        want = spec_ctype(lo, hi)
        stats["cpptype_ranges"] = stats.get("cpptype_ranges", 0) + 1
        if real != want:
            bad += 1
            if bad <= 3:
                holds = [n for n, a, b in CTYPES if a <= lo and hi <= b]
                chk.violation("input", {
                    "input": "range %d %d" % (lo, hi), "range": [str(lo), str(hi)],
                    "observed": "_cpp_integer_type_for_range(%d, %d) = %s" % (lo, hi, real),
                    "expected": "%s (first of int32_t, uint32_t, int64_t, uint64_t holding the whole "
                                "range; types that hold it: %s)" % (want, holds or "none")})
        elif with_model:
            batch.ask("CPPTYPE %d %d" % (lo, hi), real,
                      {"input": "range %d %d" % (lo, hi), "range": [str(lo), str(hi)]}, "cpptype")
    return bad


# --- the template arguments in the generated header ------------------------------------------
CPPFN = {"ADDITION": "Sum", "SUBTRACTION": "Difference", "MULTIPLICATION": "Product",
         "EQUALITY": "Equal", "INEQUALITY": "NotEqual", "AND": "And", "OR": "Or", "LESS": "LessThan",
         "LESS_OR_EQUAL": "LessThanOrEqual", "GREATER": "GreaterThan",
         "GREATER_OR_EQUAL": "GreaterThanOrEqual", "CHOICE": "Choice", "MAXIMUM": "Maximum"}
_CALL_RE = None


def header_calls(h):
    """multiset of (Op, IntermediateT, ResultT, ArgT…) over every `::emboss::support::<Op></**/…>(`
    in the header text"""
    import collections
    import re
    global _CALL_RE
    if _CALL_RE is None:
        _CALL_RE = re.compile(r"::emboss::support::(\w+)</\*\*/([^<>()]*)>\(")
    out = collections.Counter()
    for m in _CALL_RE.finditer(h):
        if m.group(1) not in CPPFN.values():
            continue
        args = tuple(CPPNAME.get(a.strip(), "enum") for a in m.group(2).split(","))
        out[(m.group(1),) + args] += 1
    return out


def rendered_calls(expr, out):
    """the function nodes `_render_expression` turns into calls, preorder: a constant-typed node
    is a literal (its operands are not rendered), `$present` is `has_x()`, bound functions are
    constants"""
    if _const_type(expr.type) or expr.which_expression != "function":
        return
    if expr.function.function.name not in CPPFN:
        return
    out.append(expr)
    for a in expr.function.args:
        rendered_calls(a, out)


def spec_sig(expr):
    """(Op, IntermediateT, ResultT, ArgT…) the property asks for: every clause in the first type
    that holds its inferred range, the operation in the first type that holds all of them."""
    names, ints = [], []
    for c in [expr] + list(expr.function.args):
        w = c.type.which_type
        if w == "integer":
            r = finite_range(c.type)
            if r is None:
                return None
            ints.append(r)
            names.append(spec_ctype(*r))
        elif w == "boolean":
            names.append("bool")
        elif w == "enumeration":
            names.append("enum")
        else:
            return None
    if ints:
        it = spec_ctype(min(r[0] for r in ints), max(r[1] for r in ints))
    else:
        it = "enum" if "enum" in names else "bool"
    return (CPPFN[expr.function.function.name], it) + tuple(names)


def check_header(chk, text, ir_full, batch, stats, origin, with_model, modules, let_roots):
    """Tie of `Model/CppArith.lean` (`nodeSig`/`opSigs`, `cppTypeForRange`) to the *header text*:
    the template arguments of every Sum/Difference/Product/Maximum/Equal/…/Choice call.
    H = calls in the header, L = calls expected for the virtual fields' definitions, A = calls
    expected for every expression of the module: L ⊆ H ⊆ A, with the expectation computed
    (a) from the property (`spec_sig`, no model) and (b) by the model (`SIG` on the real
    annotations of result :: operands)."""
    from compiler.back_end.cpp import header_generator
    ctx = {"input": text, "origin": origin}
    try:
        h, herrs = header_generator.generate_header(ir_full)
    except Exception as e:  # noqa: BLE001
        key = crash_key(e)
        stats["header:" + key] = stats.get("header:" + key, 0) + 1
        chk.violation("input", dict(ctx, observed="header_generator.generate_header raised %s: %s"
                                    % (type(e).__name__, e),
                                    expected="a header for a module the front end accepted",
                                    crash_site=key), key=key)
        return
    if herrs or h is None:
        stats["header:back-end-errors"] = stats.get("header:back-end-errors", 0) + 1
        return
    stats["headers"] = stats.get("headers", 0) + 1
    H = header_calls(h)
    stats["header_calls"] = stats.get("header_calls", 0) + sum(H.values())
    all_nodes, let_nodes = [], []
    for expr, top, attr, enumv in iter_expressions(modules):
        if top:
            rendered_calls(expr, all_nodes)
    for root in let_roots:
        rendered_calls(root, let_nodes)
    stats["header_let_nodes"] = stats.get("header_let_nodes", 0) + len(let_nodes)
    bad_spec = [0]

    def compare(sig_of, kind):
        L = {}
        for n in let_nodes:
            L.setdefault(sig_of(n), n)
        A = set(sig_of(n) for n in all_nodes)
        msgs = []
        for sg, n in L.items():
            if sg is not None and sg not in H:
                same_op = sorted(" ".join(k) for k in H if k[0] == sg[0])
                msgs.append(dict(where=str(n.source_location), tree=atree(n),
                                 observed="no call %s in the header; %s calls present: %s"
                                          % (" ".join(sg), sg[0], same_op[:6]),
                                 expected="%s (%s)" % (" ".join(sg), kind)))
        for k in H:
            if k not in A:
                msgs.append(dict(observed="header call %s" % " ".join(k),
                                 expected="only calls for the module's run-time operations (%s): %s"
                                          % (kind, sorted(" ".join(x) for x in A if x and x[0] == k[0])[:6])))
        return msgs
    for k in H:
        if "none" in k:
            bad_spec[0] += 1
            chk.violation("input", dict(ctx, observed="header call %s" % " ".join(k),
                                        expected="a C++ type for every template argument (the generator "
                                                 "printed None: no 64-bit type holds the range)"))
            break
    for m in compare(spec_sig, "first C++ type holding the inferred ranges")[:2]:
        bad_spec[0] += 1
        chk.violation("input", dict(ctx, **m))
    if with_model:
        idx = {}
        for n in all_nodes + let_nodes:
            if id(n) in idx:
                continue
            tys = [atype_of(c.type) for c in [n] + list(n.function.args)]
            if any(t is None for t in tys):
                continue
            idx[id(n)] = batch.query("SIG " + " ".join(tys))
        stats["header_sig_queries"] = stats.get("header_sig_queries", 0) + len(idx)

        def judge(answers):
            def model_sig(n):
                i = idx.get(id(n))
                if i is None or answers[i] in ("raise", "bad-op"):
                    return None
                return (CPPFN[n.function.function.name],) + tuple(answers[i].split(" "))
            if bad_spec[0]:
                return
            for m in compare(model_sig, "model nodeSig")[:2]:
                chk.violation("correspondence", dict(ctx, theorem_or_correspondence=
                                                     "model_c05 SIG (CppArith.nodeSig) vs header text", **m),
                              found_input=False)
        batch.post.append(judge)


# ------------------------------------------------------------------ generator
BOUNDARY = [0, 1, 2, 3, 5, 7, 10, 100, 255, 256, 2 ** 31 - 1, 2 ** 31, 2 ** 32 - 1, 2 ** 32,
            TWO63 - 1, TWO63, TWO64 - 1, TWO64, 2 ** 70]
WIDTHS = [1, 2, 3, 4, 5, 7, 8, 9, 12, 13, 15, 16, 17, 24, 31, 32, 33, 48, 63, 64]


class Gen:
    """Type-directed random expressions over the leaves of one container."""

    def __init__(self, r, leaves, bools, enums, lets, big, presents=()):
        self.r, self.leaves, self.bools, self.enums, self.lets, self.big = r, leaves, bools, enums, lets, big
        self.presents = list(presents)    # [(leaf, existence-condition ast)]

    def const(self):
        r = self.r
        if r.random() < (0.35 if self.big else 0.1):
            v = r.choice(BOUNDARY) + r.choice([-1, 0, 0, 1])
        else:
            v = r.randint(0, 20)
        v = max(v, 0)
        if r.random() < 0.25:
            return ("bin", "sub", ("c", 0), ("c", v))
        return ("c", v)

    def int(self, d):
        r = self.r
        if d <= 0 or r.random() < 0.25:
            k = r.random()
            if k < 0.6 and self.leaves:
                return ("leaf", r.choice(self.leaves))
            if k < 0.7 and self.lets:
                return ("ref", r.choice(self.lets))
            return self.const()
        k = r.random()
        if k < 0.25:
            return ("bin", "add", self.int(d - 1), self.int(d - 1))
        if k < 0.45:
            return ("bin", "sub", self.int(d - 1), self.int(d - 1))
        if k < 0.65:
            return ("bin", "mul", self.int(d - 1), self.int(d - 1))
        if k < 0.8:
            return ("choice", self.bool(d - 1), self.int(d - 1), self.int(d - 1))
        if k < 0.92:
            return ("max", [self.int(d - 1) for _ in range(r.choice([1, 2, 2, 3, 4]))])
        return (r.choice(["ub", "lb"]), self.int(d - 1))

    def bool(self, d):
        r = self.r
        if d <= 0 or r.random() < 0.15:
            k = r.random()
            if k < 0.3:
                return ("t",) if r.random() < 0.5 else ("f",)
            if k < 0.6 and self.bools:
                return ("bleaf", r.choice(self.bools))
            if k < 0.75 and self.presents:
                return ("present",) + r.choice(self.presents)
            return ("bin", r.choice(["eq", "ne", "lt", "le", "gt", "ge"]), self.int(0), self.int(0))
        k = r.random()
        if k < 0.08 and self.presents:
            return ("present",) + r.choice(self.presents)
        if k < 0.5:
            return ("bin", r.choice(["eq", "ne", "lt", "le", "gt", "ge"]), self.int(d - 1), self.int(d - 1))
        if k < 0.75:
            return ("bin", r.choice(["and", "or"]), self.bool(d - 1), self.bool(d - 1))
        if k < 0.85:
            return ("bin", r.choice(["eq", "ne"]), self.enum(d - 1), self.enum(d - 1))
        if k < 0.92:
            return ("bin", r.choice(["eq", "ne"]), self.bool(d - 1), self.bool(d - 1))
        return ("choice", self.bool(d - 1), self.bool(d - 1), self.bool(d - 1))

    def enum(self, d):
        r = self.r
        if d <= 0 or r.random() < 0.7:
            if self.enums and r.random() < 0.5:
                return ("eleaf", r.choice(self.enums))
            return ("ec", r.choice([("AA", 1), ("BB", 7), ("CC", 100)]))
        return ("choice", self.bool(d - 1), self.enum(d - 1), self.enum(d - 1))


def emb_text(a):
    k = a[0]
    if k == "c":
        return str(a[1])
    if k == "t":
        return "true"
    if k == "f":
        return "false"
    if k == "ec":
        return "En." + a[1][0]
    if k in ("leaf", "bleaf", "eleaf"):
        return a[1][0]
    if k == "ref":
        return a[1][0]
    if k == "present":
        return "$present(%s)" % a[1][0]
    if k == "bin":
        return "(%s %s %s)" % (emb_text(a[2]), SEXP_OP[a[1]], emb_text(a[3]))
    if k == "choice":
        return "(%s ? %s : %s)" % (emb_text(a[1]), emb_text(a[2]), emb_text(a[3]))
    if k == "max":
        return "$max(%s)" % ", ".join(emb_text(x) for x in a[1])
    if k == "ub":
        return "$upper_bound(%s)" % emb_text(a[1])
    if k == "lb":
        return "$lower_bound(%s)" % emb_text(a[1])
    raise AssertionError(a)


def sexp(a):
    k = a[0]
    if k == "c":
        return "(c %d)" % a[1]
    if k == "t":
        return "(t)"
    if k == "f":
        return "(f)"
    if k == "ec":
        return "(ec %d)" % a[1][1]
    if k == "leaf":
        name, kind, size, lid = a[1]
        return "(%s %d %s)" % ({"uint": "u", "sint": "s", "bcd": "d"}[kind], lid,
                               "?" if size is None else size)
    if k == "bleaf":
        return "(bl %d)" % a[1][1]
    if k == "eleaf":
        return "(el %d)" % a[1][1]
    if k == "ref":
        # a field_reference to an earlier virtual field: the model's `vref` constructor
        # (type copied from the definition, constant_value unknown, a leaf for the gate)
        return "(vref %s)" % sexp(a[1][1])
    if k == "present":
        # $present(field) with the field's existence condition: the model's `present` node
        return "(present %s %s)" % (sexp(("leaf", a[1])), sexp(a[2]))
    if k == "bin":
        return "(%s %s %s)" % (SEXP_OP[a[1]], sexp(a[2]), sexp(a[3]))
    if k == "choice":
        return "(? %s %s %s)" % (sexp(a[1]), sexp(a[2]), sexp(a[3]))
    if k == "max":
        return "(max %s)" % " ".join(sexp(x) for x in a[1])
    if k == "ub":
        return "(ub %s)" % sexp(a[1])
    if k == "lb":
        return "(lb %s)" % sexp(a[1])
    raise AssertionError(a)


def gen_module(r, n_lets=6, depth=3, big=False, dynamic=False, widths=None):
    """Returns (text, lets [(name, ast, line)], features).  `widths`: draw every bit-field
    width from this list (the 64-bit-edge stream)."""
    lines = ['[$default byte_order: "LittleEndian"]', "enum En:", "  AA = 1", "  BB = 7", "  CC = 100"]
    leaves, bools, enums = [], [], []
    lid = [0]

    def nid():
        lid[0] += 1
        return lid[0]
    params = []
    for i in range(r.choice([0, 0, 1, 2])):
        kind = r.choice(["uint", "sint"])
        w = r.choice(WIDTHS)
        params.append("p%d: %s:%d" % (i, {"uint": "UInt", "sint": "Int"}[kind], w))
        leaves.append(("p%d" % i, kind, w, nid()))
    ptxt = "(" + ", ".join(params) + ")" if params else ""
    if dynamic:
        lines.append("struct Foo%s:" % ptxt)
        lines.append("  0 [+1] UInt n")
        leaves.append(("n", "uint", 8, nid()))
        kind = r.choice(["uint", "sint"])
        lines.append("  1 [+n] %s dyn" % {"uint": "UInt", "sint": "Int"}[kind])
        leaves.append(("dyn", kind, None, nid()))
        for i in range(r.randint(0, 3)):
            kind = r.choice(["uint", "sint", "bcd"])
            w = r.choice([1, 2, 3, 4, 8])
            lines.append("  0 [+%d] %s a%d" % (w, {"uint": "UInt", "sint": "Int", "bcd": "Bcd"}[kind], i))
            leaves.append(("a%d" % i, kind, 8 * w, nid()))
    else:
        lines.append("bits Foo%s:" % ptxt)
        for i in range(r.randint(1, 5)):
            kind = r.choice(["uint", "uint", "sint", "sint", "bcd"])
            w = r.choice(WIDTHS) if (big or r.random() < 0.3) else r.choice([1, 2, 3, 4, 5, 7, 8, 9, 12, 16])
            if widths:
                w = r.choice(widths)
            lines.append("  0 [+%d] %s a%d" % (w, {"uint": "UInt", "sint": "Int", "bcd": "Bcd"}[kind], i))
            leaves.append(("a%d" % i, kind, w, nid()))
        if r.random() < 0.6:
            lines.append("  0 [+1] Flag fl")
            bools.append(("fl", nid()))
        if r.random() < 0.5:
            lines.append("  0 [+7] En en")
            enums.append(("en", nid()))
    presents = []
    if not dynamic and r.random() < 0.45:
        # conditional fields (`if c:`), for `$present(f)`; conditions are simple (no bound functions)
        g0 = Gen(r, list(leaves), list(bools), [], [], False)
        presents.append((r.choice([l for l in leaves if not l[0].startswith("p")]), ("t",)))
        for i in range(r.randint(1, 2)):
            k = r.random()
            if k < 0.3 and bools:
                cond = ("bleaf", r.choice(bools))
            elif k < 0.8:
                cond = ("bin", r.choice(["eq", "ne", "lt", "le", "gt", "ge"]),
                        ("leaf", r.choice(leaves)), ("c", r.randint(0, 9)))
            else:
                cond = ("bin", r.choice(["and", "or"]),
                        ("bin", r.choice(["lt", "ge"]), ("leaf", r.choice(leaves)), ("c", r.randint(0, 9))),
                        ("bin", "ne", ("leaf", r.choice(leaves)), ("c", r.randint(0, 3))))
            kind = r.choice(["uint", "sint"])
            w = r.choice(widths or [1, 3, 8, 16, 32])
            lines.append("  if %s:" % emb_text(cond))
            lines.append("    0 [+%d] %s c%d" % (w, {"uint": "UInt", "sint": "Int"}[kind], i))
            leaf = ("c%d" % i, kind, w, nid())
            presents.append((leaf, cond))
            leaves.append(leaf)
    lets = []
    g = Gen(r, leaves, bools, enums, [], big, presents)
    for i in range(n_lets):
        k = r.random()
        ast = g.int(depth) if k < 0.8 else g.bool(depth)
        name = "v%d" % i
        lines.append("  let %s = %s" % (name, emb_text(ast)))
        lets.append((name, ast, len(lines)))
        if ast_is_int(ast):
            g.lets.append((name, ast))
    return "\n".join(lines) + "\n", lets


EDGE_LEAVES = [("u64", "uint", 64), ("i64", "sint", 64), ("u63", "uint", 63), ("u32", "uint", 32),
               ("i32", "sint", 32), ("u8", "uint", 8), ("i8", "sint", 8)]
EDGE_WIDTHS = [1, 8, 31, 32, 33, 62, 63, 64, 64]


def edge_modules(per_module=8):
    """Boundary enumeration around the int64/uint64/int32/uint32 edges: every wide leaf combined
    by one operator with a small constant, a constant at 2^31/2^32/2^63, a narrow leaf or another
    wide leaf — `W + S`, `W - S`, `S - W`, `W * S`, `W < S`, `W == S`, `fl ? W : S`, `$max(W, S)`.
    Deterministic.  Yields (text, lets)."""
    head = ['[$default byte_order: "LittleEndian"]', "enum En:", "  AA = 1", "  BB = 7", "  CC = 100",
            "bits Foo:"]
    leaves = {}
    for i, (nm, kind, w) in enumerate(EDGE_LEAVES, 1):
        head.append("  0 [+%d] %s %s" % (w, {"uint": "UInt", "sint": "Int"}[kind], nm))
        leaves[nm] = ("leaf", (nm, kind, w, i))
    head.append("  0 [+1] Flag fl")
    fl = ("bleaf", ("fl", len(EDGE_LEAVES) + 1))
    neg1 = ("bin", "sub", ("c", 0), ("c", 1))
    smalls = [("c", 0), ("c", 1), ("c", 2), neg1, ("c", 2 ** 31), ("c", 2 ** 32), ("c", TWO63)] + \
             [leaves[n] for n in ("u8", "i8", "u32", "i32", "u64", "i64")]
    asts = []
    for wn in ("u64", "i64", "u63", "u32", "i32"):
        W = leaves[wn]
        for S in smalls:
            asts += [("bin", "add", W, S), ("bin", "sub", W, S), ("bin", "sub", S, W),
                     ("bin", "mul", W, S), ("bin", "lt", W, S), ("bin", "eq", W, S),
                     ("choice", fl, W, S), ("max", [W, S])]
    for at in range(0, len(asts), per_module):
        lines = list(head)
        lets = []
        for i, ast in enumerate(asts[at:at + per_module]):
            lines.append("  let v%d = %s" % (i, emb_text(ast)))
            lets.append(("v%d" % i, ast, len(lines)))
        yield "\n".join(lines) + "\n", lets


def ast_is_int(a):
    k = a[0]
    if k in ("c", "leaf", "max", "ub", "lb"):
        return True
    if k == "bin":
        return a[1] in ("add", "sub", "mul")
    if k == "choice":
        return ast_is_int(a[2])
    if k == "ref":
        return True
    return False


# ------------------------------------------------------------------ spec oracle
EXHAUSTIVE_LIMIT = [2 ** 12]   # quick; thorough: 2 ** 14
SAMPLES = [400]


def align(ast, expr, ir, out):
    """Pair generator AST nodes with IR nodes (same shape by construction)."""
    out.append((ast, expr))
    k = ast[0]
    if k == "bin":
        align(ast[2], expr.function.args[0], ir, out)
        align(ast[3], expr.function.args[1], ir, out)
    elif k == "choice":
        for i in (1, 2, 3):
            align(ast[i], expr.function.args[i - 1], ir, out)
    elif k == "max":
        for a, e in zip(ast[1], expr.function.args):
            align(a, e, ir, out)
    elif k in ("ub", "lb"):
        align(ast[1], expr.function.args[0], ir, out)


def py_eval(a, env, ann, out=None):
    """Independent evaluation over Z/Bool.  `ann` maps id(ast node) → IR expr (for the
    compile-time value of $upper_bound/$lower_bound); `out` collects id(node) → value.
    Raises ValueError/KeyError where a $upper_bound/$lower_bound has no finite value."""
    k = a[0]
    if k == "c":
        v = a[1]
    elif k == "t":
        v = True
    elif k == "f":
        v = False
    elif k == "ec":
        v = a[1][1]
    elif k in ("leaf", "bleaf", "eleaf"):
        v = env[a[1][0]]
    elif k == "ref":
        v = py_eval(a[1][1], env, ann)
    elif k == "bin":
        v = PYOP[a[1]](py_eval(a[2], env, ann, out), py_eval(a[3], env, ann, out))
    elif k == "choice":
        c, t, f = [py_eval(a[i], env, ann, out) for i in (1, 2, 3)]
        v = t if c else f
    elif k == "max":
        v = max([py_eval(x, env, ann, out) for x in a[1]])
    elif k == "present":
        v = py_eval(a[2], env, ann)         # the field is present iff its existence condition holds
    elif k in ("ub", "lb"):
        e = ann.get(id(a))
        if e is None:
            raise KeyError("no annotation")
        v = int(e.type.integer.modular_value)   # "infinity" → ValueError: no finite value
    else:
        raise AssertionError(a)
    if out is not None:
        out[id(a)] = v
    return v


def leaf_values(leaf, r, exhaustive):
    name, kind, size, _ = leaf
    if size is None:
        return sorted(set([0, 1, -1, 255, 256, -(2 ** 70), 2 ** 70, TWO63, -TWO63] +
                          [r.randint(-2 ** 72, 2 ** 72) for _ in range(3)]))
    if kind == "uint":
        lo, hi = 0, 2 ** size - 1
    elif kind == "sint":
        lo, hi = -(2 ** (size - 1)), 2 ** (size - 1) - 1
    else:
        lo, hi = 0, 10 ** (size // 4) * 2 ** (size % 4) - 1
    if exhaustive and hi - lo < 256:
        return list(range(lo, hi + 1))
    vs = {lo, hi, min(lo + 1, hi), max(hi - 1, lo)}
    if lo <= 0 <= hi:
        vs.add(0)
    for _ in range(4):
        vs.add(r.randint(lo, hi))
    return sorted(vs)


def collect_leaves(a, acc):
    k = a[0]
    if k in ("leaf", "bleaf", "eleaf"):
        acc[a[1][0]] = a
    elif k == "present":
        collect_leaves(a[2], acc)
    elif k == "ref":
        collect_leaves(a[1][1], acc)
    elif k == "bin":
        collect_leaves(a[2], acc)
        collect_leaves(a[3], acc)
    elif k == "choice":
        for i in (1, 2, 3):
            collect_leaves(a[i], acc)
    elif k == "max":
        for x in a[1]:
            collect_leaves(x, acc)
    elif k in ("ub", "lb"):
        collect_leaves(a[1], acc)


def in_gamma(t, v):
    """value v within γ(Python annotation t) — written from the property statement."""
    w = t.which_type
    if w == "integer":
        i = t.integer
        if i.minimum_value != "-infinity" and not int(i.minimum_value) <= v:
            return "below minimum %s" % i.minimum_value
        if i.maximum_value != "infinity" and not v <= int(i.maximum_value):
            return "above maximum %s" % i.maximum_value
        if i.modulus == "infinity":
            if v != int(i.modular_value):
                return "constant %s expected" % i.modular_value
        elif (v - int(i.modular_value)) % int(i.modulus) != 0:
            return "not congruent to %s mod %s" % (i.modular_value, i.modulus)
    elif w == "boolean":
        if t.boolean.has_field("value") and bool(t.boolean.value) != bool(v):
            return "boolean constant %s expected" % t.boolean.value
    elif w == "enumeration":
        if t.enumeration.has_field("value") and int(t.enumeration.value) != v:
            return "enum constant %s expected" % t.enumeration.value
    return None


def linear_once(a, seen):
    """+,-,*,$max over constants and integer leaves, every leaf at most once, all leaves
    of known size (the fragment the property calls tight)."""
    k = a[0]
    if k == "c":
        return True
    if k == "leaf":
        if a[1][0] in seen or a[1][2] is None:
            return False
        seen.add(a[1][0])
        return True
    if k == "bin" and a[1] in ("add", "sub", "mul"):
        return linear_once(a[2], seen) and linear_once(a[3], seen)
    if k == "max":
        return all(linear_once(x, seen) for x in a[1])
    return False


def oracle_expression(chk, text, name, ast, root_expr, ir, r, stats):
    """Spec oracle on the real annotations; returns number of violations reported."""
    from compiler.util import ir_util
    pairs = []
    align(ast, root_expr, ir, pairs)
    ann = {id(a): e for a, e in pairs}
    lv = {}
    collect_leaves(ast, lv)
    names = sorted(lv)
    space = 1
    for n in names:
        a = lv[n]
        if a[0] == "leaf":
            sz = a[1][2]
            space *= (2 ** min(sz, 30) if sz is not None else 2 ** 30)
        elif a[0] == "bleaf":
            space *= 2
        else:
            space *= 128
    exhaustive = space <= EXHAUSTIVE_LIMIT[0]
    doms = []
    for n in names:
        a = lv[n]
        if a[0] == "leaf":
            doms.append(leaf_values(a[1], r, exhaustive))
        elif a[0] == "bleaf":
            doms.append([False, True])
        else:
            doms.append([0, 1, 7, 100, 127] if not exhaustive else list(range(128)))
    total = 1
    for d in doms:
        total *= len(d)
    if total <= max(EXHAUSTIVE_LIMIT[0], 2048):
        envs = itertools.product(*doms)
        stats["oracle_exhaustive" if exhaustive else "oracle_grid"] = \
            stats.get("oracle_exhaustive" if exhaustive else "oracle_grid", 0) + 1
    else:
        envs = (tuple(r.choice(d) for d in doms) for _ in range(SAMPLES[0]))
        stats["oracle_sampled"] = stats.get("oracle_sampled", 0) + 1
    bad = 0
    n_env = 0
    consts = []
    for a, e in pairs:
        try:
            c = ir_util.constant_value(e)
        except Exception:  # noqa: BLE001
            c = None
        consts.append(c)
    for tup in envs:
        env = dict(zip(names, tup))
        n_env += 1
        vals = {}
        try:
            py_eval(ast, env, ann, vals)
        except (ValueError, KeyError):
            pass
        for (a, e), c in zip(pairs, consts):
            if id(a) not in vals:
                continue
            v = vals[id(a)]
            why = in_gamma(e.type, v)
            if why:
                bad += 1
                chk.violation("input", {
                    "input": text, "expression": name, "subexpression": emb_text(a),
                    "environment": {k: int(x) for k, x in env.items()}, "value": int(v),
                    "observed": atype_of(e.type), "expected": "value within inferred bounds: " + why})
                return bad
            if c is not None and int(c) != int(v):
                bad += 1
                chk.violation("input", {
                    "input": text, "expression": name, "subexpression": emb_text(a),
                    "environment": {k: int(x) for k, x in env.items()}, "value": int(v),
                    "observed": "constant_value=%r" % c, "expected": "constant_value equals evaluation"})
                return bad
    stats["oracle_envs"] = stats.get("oracle_envs", 0) + n_env
    # tightness: linear, single-occurrence, finite leaves ⇒ both ends attained at corners
    t = root_expr.type
    if t.which_type == "integer" and linear_once(ast, set()):
        mn, mx = t.integer.minimum_value, t.integer.maximum_value
        if mn != "-infinity" and mx != "infinity":
            corners = []
            for n in names:
                _, kind, size, _ = lv[n][1]
                vs = leaf_values(lv[n][1], r, False)
                corners.append([vs[0], vs[-1]])
            if len(corners) <= 12:
                got = set()
                for tup in itertools.product(*corners):
                    got.add(py_eval(ast, dict(zip(names, tup)), ann))
                stats["tight_checked"] = stats.get("tight_checked", 0) + 1
                if int(mn) not in got or int(mx) not in got:
                    bad += 1
                    chk.violation("input", {
                        "input": text, "expression": name, "observed": atype_of(t),
                        "expected": "tight: both ends attained for a linear expression without "
                                    "repeated variables; corner values %s" % sorted(got)[:8]})
    # tightness of `?:` with an independent, non-constant condition (`C05_tight_choice_independent`):
    # single-occurrence branches over disjoint leaves, a condition over other leaves that the
    # analysis did not fold and that attains both truth values
    if t.which_type == "integer" and ast[0] == "choice":
        cnd, tb, fb = ast[1], ast[2], ast[3]
        seen = set()
        cexpr = ann.get(id(cnd))
        if linear_once(tb, seen) and linear_once(fb, seen) and cexpr is not None \
                and not cexpr.type.boolean.has_field("value"):
            cl = {}
            collect_leaves(cnd, cl)
            mn, mx = t.integer.minimum_value, t.integer.maximum_value
            if not (set(cl) & seen) and mn != "-infinity" and mx != "infinity" and len(seen) <= 10:
                cnames = sorted(cl)
                cdoms = []
                for n in cnames:
                    a = cl[n]
                    cdoms.append(leaf_values(a[1], r, True) if a[0] == "leaf"
                                 else [False, True] if a[0] == "bleaf" else [0, 1, 7, 100, 127])
                size = 1
                for d in cdoms:
                    size *= len(d)
                truth = set()
                if size <= 4096:
                    for tup in itertools.product(*cdoms):
                        try:
                            truth.add(bool(py_eval(cnd, dict(zip(cnames, tup)), ann)))
                        except (ValueError, KeyError):
                            pass
                        if len(truth) == 2:
                            break
                if len(truth) == 2:
                    bl = {}
                    collect_leaves(tb, bl)
                    collect_leaves(fb, bl)
                    bnames = sorted(bl)
                    corners = []
                    for n in bnames:
                        vs = leaf_values(bl[n][1], r, False)
                        corners.append([vs[0], vs[-1]])
                    got = set()
                    for tup in itertools.product(*corners):
                        env = dict(zip(bnames, tup))
                        got.add(py_eval(tb, env, ann))
                        got.add(py_eval(fb, env, ann))
                    stats["tight_choice_checked"] = stats.get("tight_choice_checked", 0) + 1
                    if int(mn) not in got or int(mx) not in got:
                        bad += 1
                        chk.violation("input", {
                            "input": text, "expression": name, "observed": atype_of(t),
                            "expected": "tight: both ends attained for `c ? t : f` with single-occurrence "
                                        "branches and an independent condition that is true for some "
                                        "values and false for others; branch corner values %s"
                                        % sorted(got)[:8]})
    return bad


# ------------------------------------------------------------------ one module
def crash_key(exc):
    tb = traceback.extract_tb(exc.__traceback__)
    for fr in reversed(tb):
        fn = os.path.basename(fr.filename)
        if fn in ("expression_bounds.py", "ir_util.py", "constraints.py"):
            return "crash:%s:%s:%s" % (fn, fr.name, type(exc).__name__)
    fr = tb[-1]
    return "crash:%s:%s:%s" % (os.path.basename(fr.filename), fr.name, type(exc).__name__)


def compile_annotated(text):
    from compiler.front_end import constraints
    ir, errors, exc = emb.compile_text({"m.emb": text}, stop_before_step="check_constraints")
    if exc is not None or ir is None:
        return ir, errors, exc, []
    try:
        errs = constraints.check_constraints(ir)
    except Exception as e:  # noqa: BLE001
        return ir, errors, e, []
    return ir, errors, None, errs


def find_let(ir, name):
    for m in ir.module:
        if m.source_file_name != "m.emb":
            continue
        for t in m.type:
            if t.has_field("structure"):
                for f in t.structure.field:
                    if f.name.name.text == name:
                        return f.read_transform
    return None


def run_generated(chk, r, batch, stats, with_model, n_lets, depth, big, dynamic, oracle=True, widths=None):
    text, lets = gen_module(r, n_lets, depth, big, dynamic, widths)
    if widths:
        stats["edge_width_modules"] = stats.get("edge_width_modules", 0) + 1
    return run_text(chk, r, batch, stats, text, lets, with_model, "generated", oracle)


def run_text(chk, r, batch, stats, text, lets, with_model, origin, oracle=True):
    chk.count()
    ir, errors, exc, errs = compile_annotated(text)
    if exc is not None:
        # crash: attribute to a single let by recompiling them one at a time
        stats["crash_modules"] = stats.get("crash_modules", 0) + 1
        if len(lets) > 1:
            head = text.split("  let ")[0]
            for name, ast, _ in lets:
                inl = inline_refs(ast)
                t1 = head + "  let %s = %s\n" % (name, emb_text(inl))
                run_text(chk, r, batch, stats, t1, [(name, inl, t1.count("\n"))], with_model,
                         origin + "-split", oracle)
            return
        key = crash_key(exc)
        stats[key] = stats.get(key, 0) + 1
        chk.nontrivial("crash:" + text)
        detail = {"input": text, "observed": "exception %s: %s" % (type(exc).__name__, exc),
                  "expected": "an annotated IR or located errors (the bounds invariant "
                              "_assert_integer_constraints and the int() conversions never fail)",
                  "crash_site": key}
        chk.violation("input", detail, key=key)
        if with_model and lets:
            batch.ask("TREE " + sexp(lets[0][1]), "abs=crash", dict(detail), "treecrash")
        return
    if errors:
        stats["rejected_early"] = stats.get("rejected_early", 0) + 1
        chk.extra.setdefault("rejected_early_samples", [])
        if len(chk.extra["rejected_early_samples"]) < 3:
            chk.extra["rejected_early_samples"].append(
                {"input": text, "errors": emb.error_summary(errors)[:2]})
        return
    if with_model:
        check_module_nodes(chk, text, ir, errs, batch, stats, origin)
    gate_oracle(chk, text, ir, errs, stats, origin)
    full_roots = {}
    if errs and lets and not origin.endswith("-accepted"):
        # the header exists only for a module without errors: resubmit the lets no error points
        # at (and that do not refer to a dropped one) as a module of their own, for the header tie
        err_lines = set()
        for g in emb.error_summary(errs):
            for (_f, loc, _sev, _msg) in g:
                try:
                    a, b = loc.split("-")
                    err_lines.update(range(int(a.split(":")[0]), int(b.split(":")[0]) + 1))
                except ValueError:
                    pass
        dropped = set(n for n, _a, ln in lets if ln in err_lines)
        changed = True
        while changed:
            changed = False
            for n, a, ln in lets:
                if n not in dropped and ref_names(a) & dropped:
                    dropped.add(n)
                    changed = True
        keep = [(n, a, ln) for n, a, ln in lets if n not in dropped]
        all_lines = text.split("\n")
        let_lines = set(ln for _n, _a, ln in lets)
        if keep and len(keep) < len(lets) and not (err_lines - let_lines):
            kept_ln = set(ln for _n, _a, ln in keep)
            out_lines, new_lets = [], []
            for i, l in enumerate(all_lines, 1):
                if i in let_lines and i not in kept_ln:
                    continue
                out_lines.append(l)
                if i in kept_ln:
                    n, a = [(n, a) for n, a, ln in keep if ln == i][0]
                    new_lets.append((n, a, len(out_lines)))
            stats["accepted_resubmitted"] = stats.get("accepted_resubmitted", 0) + 1
            run_text(chk, r, batch, stats, "\n".join(out_lines), new_lets, with_model,
                     origin + "-accepted", oracle=False)
    if not errs:
        # accepted by the front end: generate the header and tie its template arguments
        ir_full, errors_full, exc_full = emb.compile_text({"m.emb": text})
        if exc_full is None and ir_full is not None and not errors_full:
            mods = [m for m in ir_full.module if m.source_file_name == "m.emb"]
            roots = virtual_roots(mods)
            full_roots = dict(roots)
            check_header(chk, text, ir_full, batch, stats, origin, with_model, mods,
                         [e for _n, e in roots])
    gk = gate_kinds_by_line(errs)
    for name, ast, line in lets:
        root = find_let(ir, name)
        if root is None:
            continue
        t = atype_of(root.type)
        chk.nontrivial(emb_text(ast))
        if with_model:
            # whole-tree query; a reference to a virtual field is the model's `vref` node: a
            # leaf for constant_value and for the gate (its own definition is gated as a
            # separate top-level expression)
            stats["tree_queries"] = stats.get("tree_queries", 0) + 1
            if has_ref(ast):
                stats["tree_queries_with_vref"] = stats.get("tree_queries_with_vref", 0) + 1
            if "(present " in sexp(ast):
                stats["tree_queries_with_present"] = stats.get("tree_queries_with_present", 0) + 1
            kinds = sorted(k for (_, k) in gk.get(line, []))
            want_gate = "ok" if not kinds else "err " + ",".join(kinds)
            batch.ask("TREE " + sexp(ast), "abs=%s cv=%s gate=%s" % (t, cv_of(root), want_gate),
                      {"input": text, "expression": name, "origin": origin}, "tree")
            # the typing discipline of `C05_no_crash` (Model/ExprType.lean `tyOf`) agrees with
            # the type the real front end assigned
            batch.ask("TYOF " + sexp(ast), {"integer": "int", "boolean": "bool",
                                            "enumeration": "enum"}.get(root.type.which_type, "?"),
                      {"input": text, "expression": name, "origin": origin}, "tyof")
            if name in full_roots:
                # whole tree: the calls the model emits for the generator's description of the
                # expression (its own annotations) == the calls expected on the real annotations
                nodes = []
                rendered_calls(full_roots[name], nodes)
                sigs = [spec_sig(n) for n in nodes]
                if all(sg is not None for sg in sigs):
                    stats["sigs_queries"] = stats.get("sigs_queries", 0) + 1
                    batch.ask("SIGS " + sexp(ast),
                              " ".join(["sigs"] + ["%s:%s" % (sg[0], ",".join(sg[1:])) for sg in sigs]),
                              {"input": text, "expression": name, "origin": origin}, "sigs")
        if oracle:
            oracle_expression(chk, text, name, ast, root, ir, r, stats)
        chk.sample({"emb": "let %s = %s" % (name, emb_text(ast)), "annotation": t}, limit=5)


def virtual_roots(modules):
    """(name, read_transform) of every virtual field of the modules' structures (sub-types too)"""
    out = []

    def types(ts):
        for t in ts:
            types(t.subtype)
            if t.has_field("structure"):
                for f in t.structure.field:
                    if f.has_field("read_transform"):
                        out.append((f.name.name.text, f.read_transform))
    for m in modules:
        types(m.type)
    return out


def ref_names(a):
    k = a[0]
    if k == "ref":
        return {a[1][0]} | ref_names(a[1][1])
    if k == "bin":
        return ref_names(a[2]) | ref_names(a[3])
    if k == "choice":
        return ref_names(a[1]) | ref_names(a[2]) | ref_names(a[3])
    if k == "max":
        return set().union(*[ref_names(x) for x in a[1]])
    if k in ("ub", "lb"):
        return ref_names(a[1])
    return set()


def has_ref(a):
    k = a[0]
    if k == "ref":
        return True
    if k == "bin":
        return has_ref(a[2]) or has_ref(a[3])
    if k == "choice":
        return any(has_ref(a[i]) for i in (1, 2, 3))
    if k == "max":
        return any(has_ref(x) for x in a[1])
    if k in ("ub", "lb"):
        return has_ref(a[1])
    return False


def inline_refs(a):
    k = a[0]
    if k == "ref":
        return inline_refs(a[1][1])
    if k == "bin":
        return ("bin", a[1], inline_refs(a[2]), inline_refs(a[3]))
    if k == "choice":
        return ("choice",) + tuple(inline_refs(a[i]) for i in (1, 2, 3))
    if k == "max":
        return ("max", [inline_refs(x) for x in a[1]])
    if k in ("ub", "lb"):
        return (k, inline_refs(a[1]))
    return a


def settle(chk, batch, stats):
    """Send all queries to the model and judge the answers."""
    if not batch.lines:
        batch.post = []
        return
    answers = common.Model("model_c05").ask(batch.lines)
    dis = 0
    for idx, expected, ctx, kind in batch.checks:
        ans = answers[idx]
        ok = ans == expected
        if kind == "gate":
            ok = sorted_gate(ans) == expected
        elif kind == "sigs":
            ok = ans.split() == expected.split()
        elif kind == "treeprefix":
            ok = ans.startswith(expected + " ")
        elif kind == "treecrash":
            ok = ans.startswith("abs=crash") or ans.endswith("gate=crash")
        elif kind == "tree":
            a = ans.split(" gate=")
            ok = a[0] + " gate=" + sorted_gate(a[1]) == expected if len(a) == 2 else False
        if ok:
            continue
        dis += 1
        if dis > 5:
            continue
        d = dict(ctx)
        d.update({"op": batch.lines[idx], "model": ans, "observed": expected,
                  "theorem_or_correspondence": "model_c05 %s vs expression_bounds/constraints" % kind})
        # spec oracle on the disagreeing input: does the real code violate the property there?
        found = 0
        if "input" in ctx and kind not in ("treecrash", "cpptype"):
            found = respec(chk, ctx["input"])
        if not found:
            d["expected"] = "real code satisfies the spec oracle on this input; the model differs"
            chk.violation("correspondence", d, found_input=False)
    for cb in batch.post:
        cb(answers)
    stats["disagreements"] = stats.get("disagreements", 0) + dis
    chk.extra["traces_validated_against_impl"] = \
        chk.extra.get("traces_validated_against_impl", 0) + len(batch.lines)
    batch.lines, batch.checks, batch.post = [], [], []


def respec(chk, text):
    """Spec oracle on every `let` of a module text whose expression we can re-derive:
    only generated modules carry an AST, so re-generate by parsing our own syntax."""
    lets = parse_lets(text)
    if not lets:
        return 0
    before = len(chk.violations)
    ir, errors, exc, errs = compile_annotated(text)
    if exc is not None or ir is None or errors:
        return 0
    r = common.rng("C05-respec")
    for name, ast, line in lets:
        root = find_let(ir, name)
        if root is not None:
            oracle_expression(chk, text, name, ast, root, ir, r, {})
    return len(chk.violations) - before


# --- tiny parser for the generator's own fully parenthesised syntax (replay/corpus) ---
def parse_lets(text):
    import re
    leaves, bools, enums = {}, {}, {}
    lid = [0]

    def nid():
        lid[0] += 1
        return lid[0]
    lets, env = [], {}
    _PRESENTS.clear()
    cur_if = None
    for ln, line in enumerate(text.split("\n"), 1):
        m = re.match(r"(\s+)if (.*):\s*$", line)
        if m:
            try:
                cond, rest = parse_expr(tokenize(m.group(2)), leaves, bools, enums, env)
            except (IndexError, KeyError, ValueError, AssertionError):
                return []
            if rest:
                return []
            cur_if = (len(m.group(1)), cond)
            continue
        m = re.match(r"\s*(?:bits|struct) \w+\((.*)\):", line)
        if m:
            for p in m.group(1).split(","):
                mm = re.match(r"\s*(\w+): (UInt|Int):(\d+)", p)
                if mm:
                    leaves[mm.group(1)] = (mm.group(1), {"UInt": "uint", "Int": "sint"}[mm.group(2)],
                                           int(mm.group(3)), nid())
        m = re.match(r"(\s+)(\w+) \[\+(\w+)\] (UInt|Int|Bcd|Flag|En) (\w+)", line)
        if m:
            ind, off, sz, ty, nm = m.groups()
            if cur_if is not None and len(ind) <= cur_if[0]:
                cur_if = None
            unit = 8 if "struct " in text and "bits " not in text else 1
            if ty == "Flag":
                bools[nm] = (nm, nid())
            elif ty == "En":
                enums[nm] = (nm, nid())
            else:
                size = int(sz) * unit if sz.isdigit() else None
                leaves[nm] = (nm, {"UInt": "uint", "Int": "sint", "Bcd": "bcd"}[ty], size, nid())
                _PRESENTS[nm] = (leaves[nm], cur_if[1] if cur_if is not None else ("t",))
        m = re.match(r"\s+let (\w+) = (.*)$", line)
        if m:
            try:
                ast, rest = parse_expr(tokenize(m.group(2)), leaves, bools, enums, env)
            except (IndexError, KeyError, ValueError, AssertionError):
                return []
            if rest:
                return []
            lets.append((m.group(1), ast, ln))
            env[m.group(1)] = ast
    return lets


_PRESENTS = {}     # field name → (leaf, existence-condition ast), filled by parse_lets


def tokenize(s):
    import re
    return re.findall(r"\$\w+|En\.\w+|\w+|==|!=|<=|>=|&&|\|\||[()?:,+\-*<>]", s)


def parse_expr(toks, leaves, bools, enums, env):
    t = toks[0]
    if t == "(":
        a, rest = parse_expr(toks[1:], leaves, bools, enums, env)
        op = rest[0]
        if op == "?":
            b, rest = parse_expr(rest[1:], leaves, bools, enums, env)
            assert rest[0] == ":"
            c, rest = parse_expr(rest[1:], leaves, bools, enums, env)
            assert rest[0] == ")"
            return ("choice", a, b, c), rest[1:]
        if op == ")":
            return a, rest[1:]
        name = {v: k for k, v in SEXP_OP.items()}[op]
        b, rest = parse_expr(rest[1:], leaves, bools, enums, env)
        assert rest[0] == ")"
        return ("bin", name, a, b), rest[1:]
    if t == "$present":
        assert toks[1] == "(" and toks[3] == ")"
        return ("present",) + _PRESENTS[toks[2]], toks[4:]
    if t in ("$max", "$upper_bound", "$lower_bound"):
        assert toks[1] == "("
        args, rest = [], toks[2:]
        while True:
            a, rest = parse_expr(rest, leaves, bools, enums, env)
            args.append(a)
            if rest[0] == ",":
                rest = rest[1:]
                continue
            assert rest[0] == ")"
            rest = rest[1:]
            break
        if t == "$max":
            return ("max", args), rest
        return ("ub" if t == "$upper_bound" else "lb", args[0]), rest
    if t == "true":
        return ("t",), toks[1:]
    if t == "false":
        return ("f",), toks[1:]
    if t.startswith("En."):
        return ("ec", (t[3:], {"AA": 1, "BB": 7, "CC": 100}[t[3:]])), toks[1:]
    if t.isdigit():
        return ("c", int(t)), toks[1:]
    if t in env:
        return ("ref", (t, env[t])), toks[1:]
    if t in leaves:
        return ("leaf", leaves[t]), toks[1:]
    if t in bools:
        return ("bleaf", bools[t]), toks[1:]
    if t in enums:
        return ("eleaf", enums[t]), toks[1:]
    raise KeyError(t)


# ------------------------------------------------------------------ corpus
HEAD = '[$default byte_order: "LittleEndian"]\nenum En:\n  AA = 1\n  BB = 7\n  CC = 100\n'
DYN = HEAD + "struct Foo:\n  0 [+1] UInt n\n  1 [+n] UInt dyn\n  0 [+1] UInt a0\n"
CORPUS = [
    # F5 (fixed by 0237141): zero-size leaf; a revert raises AssertionError
    "struct Foo:\n  0 [+0] UInt x\n  let y = x + 1\n",
    HEAD + "bits Foo:\n  0 [+8] UInt a0\n  let v0 = $upper_bound(((a0 >= 0) ? 1 : 100))\n",
    HEAD + "bits Foo:\n  0 [+8] UInt a0\n  0 [+64] UInt a1\n  let v0 = (true ? a0 : a1)\n",
    HEAD + "bits Foo:\n  0 [+64] UInt a0\n  0 [+64] Int a1\n  let v0 = (a0 + 1)\n  let v1 = (a1 - 1)\n"
           "  let v2 = (a0 == a1)\n  let v3 = ((a0 * 0) + a1)\n",
    HEAD + "bits Foo:\n  0 [+12] UInt a0\n  0 [+9] Int a1\n  let v0 = ((a0 * 12) + 7)\n"
           "  let v1 = ((a1 * 20) + 15)\n  let v2 = (v0 * v1)\n  let v3 = $max(v0, v1, 35)\n"
           "  let v4 = ((a0 > 5) ? v0 : v1)\n",
    DYN + "  let v0 = (dyn + 1)\n  let v1 = $max(dyn, 3)\n  let v2 = (dyn * a0)\n",
    # F8 (fixed: $upper_bound/$lower_bound of an infinite bound is the unbounded annotation,
    # no "constant infinity"); a revert raises ValueError / TypeError / AssertionError
    DYN + "  let v0 = ($upper_bound(dyn) * 2)\n",
    DYN + "  let v0 = ($upper_bound(dyn) + a0)\n",
    DYN + "  let v0 = ($upper_bound(dyn) - $upper_bound(dyn))\n",
    DYN + "  let v0 = ((a0 > 3) ? $upper_bound(dyn) : a0)\n",
    DYN + "  let v0 = ($lower_bound((dyn - 3)) * 2)\n  let v1 = $max($upper_bound(dyn), a0)\n",
    # constant_value of $upper_bound/$lower_bound (fixed: read from the annotation); a revert
    # raises KeyError.  The third one distinguishes "value of the argument" from "inferred bound".
    HEAD + "bits Foo:\n  0 [+8] UInt a0\n  let v0 = ($upper_bound(3) == 3)\n",
    HEAD + "bits Foo:\n  0 [+8] UInt a0\n  let v0 = (($lower_bound((a0 + 1)) == 1) && ($upper_bound((a0 * 2)) == 510))\n",
    HEAD + "bits Foo:\n  0 [+8] UInt a0\n  let v0 = ($upper_bound(((false && (a0 == 1)) ? a0 : 3)) == 255)\n",
    # $present: unconditional (constant-typed, constant_value unknown), conditional, inside && and ?:
    HEAD + "bits Foo:\n  0 [+8] UInt a0\n  0 [+1] Flag fl\n  if (a0 > 3):\n    0 [+4] Int c0\n  if fl:\n    0 [+64] UInt c1\n"
           "  let v0 = $present(a0)\n  let v1 = ($present(c0) && (c0 < 2))\n  let v2 = ($present(c1) ? c0 : (a0 + 1))\n"
           "  let v3 = ($present(a0) == true)\n  let v4 = ($present(c0) || $present(c1))\n",
    # `?:` with an independent condition (C05_tight_choice_independent), nested conditions
    HEAD + "bits Foo:\n  0 [+8] UInt a0\n  0 [+8] UInt a1\n  0 [+4] Int a2\n  0 [+1] Flag fl\n"
           "  let v0 = (((a0 > 3) || fl) ? (a1 + 1) : (2 * a2))\n  let v1 = (fl ? (a0 * a1) : $max(a2, 3))\n"
           "  let v2 = (((a0 + 1) > $upper_bound(a2)) ? (a1 - 7) : (a2 * 3))\n",
]


def pinned_findings(chk, r, batch, stats, with_model):
    """Re-execute the pinned input of every open finding of C05."""
    for k in chk.known:
        if k.get("property") != PROP or k.get("status") != "open":
            continue
        text = k["input"]
        if k["key"].startswith("crash:"):
            ir, errors, exc, errs = compile_annotated(text)
            chk.count()
            if exc is not None and crash_key(exc) == k["key"]:
                chk.report_known(k)
                lets = parse_lets(text)
                if with_model and lets:
                    batch.ask("TREE " + sexp(inline_refs(lets[-1][1])), "abs=crash",
                              {"input": text, "pinned": k["key"]}, "treecrash")
            elif exc is not None:
                chk.violation("input", {"input": text, "observed": repr(exc),
                                        "expected": "no exception", "crash_site": crash_key(exc)},
                              key=crash_key(exc))
        elif k["key"] == "tightness:choice-tautological-condition":
            ir, errors, exc, errs = compile_annotated(text)
            chk.count()
            if exc is None and ir is not None and not errors:
                root = find_let(ir, "v0")
                if root is not None and root.type.integer.maximum_value == "100":
                    chk.report_known(k)


def testdata_files():
    d = os.path.join(common.REPO, "testdata")
    out = []
    for fn in sorted(os.listdir(d)):
        if fn.endswith(".emb"):
            out.append(fn)
    return out


def run_testdata(chk, batch, stats, with_model=True):
    """The repository's own .emb files: node-wise + gate (all are accepted), model-free gate
    oracle, header tie."""
    from compiler.front_end import glue, constraints
    import compiler.util.parser_types  # noqa: F401
    d = os.path.join(common.REPO, "testdata")
    done = 0
    for fn in testdata_files():
        def reader(name, _d=d):
            for base in (common.REPO, _d):
                p = os.path.join(base, name)
                if os.path.exists(p):
                    with open(p) as f:
                        return f.read(), None
            return None, ["file not found: " + name]
        try:
            ir, _dbg, errors = glue.parse_emboss_file("testdata/" + fn, reader,
                                                      stop_before_step="check_constraints")
        except Exception as e:  # noqa: BLE001
            chk.violation("input", {"input": "testdata/" + fn, "observed": repr(e),
                                    "expected": "compiles"}, key=crash_key(e))
            continue
        chk.count()
        if errors or ir is None:
            stats["testdata_rejected"] = stats.get("testdata_rejected", 0) + 1
            continue
        errs = constraints.check_constraints(ir)
        # only the main module (imports are other testdata files, visited on their own)
        main = [m for m in ir.module if m.source_file_name == "testdata/" + fn]
        if with_model:
            check_module_nodes(chk, "testdata/" + fn, ir, errs, batch, stats, "testdata", modules=main)
        gate_oracle(chk, "testdata/" + fn, ir, errs, stats, "testdata", modules=main)
        if not errs:
            try:
                ir_full, _dbg, errors_full = glue.parse_emboss_file("testdata/" + fn, reader)
            except Exception:  # noqa: BLE001
                ir_full, errors_full = None, ["exception"]
            if ir_full is not None and not errors_full:
                mods = [m for m in ir_full.module if m.source_file_name == "testdata/" + fn]
                check_header(chk, "testdata/" + fn, ir_full, batch, stats, "testdata", with_model, mods,
                             [e for _n, e in virtual_roots(mods)])
        done += 1
    stats["testdata_files"] = done


# ------------------------------------------------------------------ entry points
def search(chk):
    """Model-free: spec oracle on corpus + generated expressions."""
    r = common.rng("C05-search")
    before = len(chk.violations)
    stats = {}
    batch = Batch()
    check_cpptypes(chk, batch, stats, False, edge_ranges())
    for text in CORPUS:
        lets = parse_lets(text)
        run_text(chk, r, batch, stats, text, lets, False, "corpus")
    if len(chk.violations) - before < 3:
        run_testdata(chk, batch, stats, with_model=False)
    for text, lets in edge_modules():
        if len(chk.violations) - before >= 3:
            break
        run_text(chk, r, batch, stats, text, lets, False, "edge")
    for i in range(250):
        if len(chk.violations) - before >= 3:
            break
        edge = r.random() < 0.2
        run_generated(chk, r, batch, stats, False, r.randint(2, 6), r.choice([1, 2, 2, 3]),
                      edge or r.random() < 0.3, (not edge) and r.random() < 0.15,
                      widths=EDGE_WIDTHS if edge else None)
    check_cpptypes(chk, batch, stats, False, sorted(RANGES))
    chk.extra["search_stats"] = stats
    return len(chk.violations) - before


def run(tier):
    chk = common.Check(PROP, tier, exes=["model_c05"])
    chk.cov["rule"] = ("one evaluation = one module compiled by the real front end (node-wise model "
                       "queries + spec-oracle environments are counted separately in `stats`); "
                       "non-trivial = a generated `let` expression (distinct by text) or a crashing module")
    chk.trusted.append("Python oracle (harness/corr/C05.py: py_eval, in_gamma) for the model-free search")
    chk.assumptions.append("references to virtual fields and $present(field) are the model constructors "
                           "`vref e` / `present a c` carrying the referenced definition / existence "
                           "condition; that the real annotation is a copy of that expression's is "
                           "checked node-wise in Python on every such node")
    if tier == "thorough":
        EXHAUSTIVE_LIMIT[0], SAMPLES[0] = 2 ** 14, 1500
    model_ok = common.proof_gate(chk, search)
    r = common.rng("C05")
    stats = {}
    batch = Batch()
    pinned_findings(chk, r, batch, stats, model_ok)
    check_cpptypes(chk, batch, stats, model_ok, edge_ranges())
    run_testdata(chk, batch, stats, with_model=model_ok)
    if model_ok:
        settle(chk, batch, stats)
    for text in CORPUS:
        run_text(chk, r, batch, stats, text, parse_lets(text), model_ok, "corpus")
    for text, lets in edge_modules():
        run_text(chk, r, batch, stats, text, lets, model_ok, "edge")
        stats["edge_modules"] = stats.get("edge_modules", 0) + 1
    if model_ok:
        settle(chk, batch, stats)
    n = 260 if tier == "quick" else 3000
    for i in range(n):
        edge = r.random() < 0.15
        big = edge or r.random() < 0.35
        dynamic = (not edge) and r.random() < 0.12
        run_generated(chk, r, batch, stats, model_ok, r.randint(2, 7), r.choice([1, 2, 2, 3, 3, 4]),
                      big, dynamic, widths=EDGE_WIDTHS if edge else None)
        if model_ok and len(batch.lines) > 20000:
            settle(chk, batch, stats)
    check_cpptypes(chk, batch, stats, model_ok, sorted(RANGES))
    if model_ok:
        settle(chk, batch, stats)
    chk.extra["stats"] = dict(sorted(stats.items()))
    return chk.finish()


def replay(path):
    rec = json.load(open(path))
    text = rec.get("input", "")
    if "range" in rec:
        from compiler.back_end.cpp import header_generator
        lo, hi = int(rec["range"][0]), int(rec["range"][1])
        print("_cpp_integer_type_for_range(%d, %d) = %r; first type holding the range: %s" % (
            lo, hi, header_generator._cpp_integer_type_for_range(lo, hi), spec_ctype(lo, hi)))
        return 0
    if text.startswith("testdata/"):
        print("testdata file:", text)
        return 0
    ir, errors, exc, errs = compile_annotated(text)
    print("exception:", repr(exc), crash_key(exc) if exc is not None else "")
    print("errors:", emb.error_summary(errors), emb.error_summary(errs))
    if ir is not None and exc is None:
        for name, ast, line in parse_lets(text):
            root = find_let(ir, name)
            if root is not None:
                print("let %s = %s  →  %s  constant_value=%s" % (
                    name, emb_text(ast), atype_of(root.type), cv_of(root)))
        if not errors and not errs:
            # the header tie: calls in the generated header vs the calls the property asks for
            ir_full, errors_full, exc_full = emb.compile_text({"m.emb": text})
            if exc_full is None and ir_full is not None and not errors_full:
                from compiler.back_end.cpp import header_generator
                try:
                    h, _herrs = header_generator.generate_header(ir_full)
                    print("header calls:", sorted(" ".join(k) for k in header_calls(h or "")))
                except Exception as e:  # noqa: BLE001
                    print("generate_header raised", repr(e))
                nodes = []
                for _n, root in virtual_roots([m for m in ir_full.module if m.source_file_name == "m.emb"]):
                    rendered_calls(root, nodes)
                print("expected for the virtual fields:",
                      sorted(set(" ".join(sg) for sg in map(spec_sig, nodes) if sg)))
        if True:
            why = [(str(e.source_location), spec_gate(e)) for e, top, attr, enumv in
                   iter_expressions([m for m in ir.module if m.source_file_name == "m.emb"])
                   if top and attr != "static_requirements" and not enumv and atype_of(e.type)]
            print("top-level expressions that do not fit one 64-bit type (spec oracle; accepted ones "
                  "are violations):", [w for w in why if w[1]])
        if "environment" in rec:
            lets = dict((n, a) for n, a, _ in parse_lets(text))
            a = lets.get(rec.get("expression"))
            if a is not None:
                root = find_let(ir, rec["expression"])
                pairs = []
                align(a, root, ir, pairs)
                ann = {id(x): e for x, e in pairs}
                print("environment", rec["environment"], "evaluates to",
                      py_eval(a, rec["environment"], ann))
    return 0
