"""C16 (round 2) — the plumbing around glue.parse_emboss_file, tied to `model_c16`:

  FINDREAD   emboss_front_end._find_in_dirs_and_read on real directory trees with file-system
             faults (directory instead of file, path through a file, over-long name, dangling /
             looping symlink, non-UTF-8 bytes, unreadable permissions, NUL in the name)
  READERR    glue.parse_module with a reader that reports errors → the "Unable to read file." group
  PATH       os.path.join / os.path.dirname as embossc uses them
  EMBOSSC    the real `embossc.main(argv)` with stubbed front end / back end (prescribed IR or
             error groups) and real output paths in a scratch directory
  FRONTEND   the real emboss_front_end.main(flags), same technique
  CODEGEN    the real emboss_codegen_cpp.main(flags), same technique
  TOKLOC     source locations of the tokens the real tokenizer produces on the explored inputs
  MERGE      parser_types.merge_source_locations
  SPAN       every SourceLocation(start, end) module_ir builds by hand while real inputs are parsed
             (recording stand-in for its `parser_types`), + oracle on every location of the finished IR

plus the file-system fault cases for the executables in subprocesses (`fs_cli_cases`).
"""
import contextlib
import importlib.machinery
import importlib.util
import io
import os
import types

from harness.lib import common

from compiler.front_end import emboss_front_end, glue
from compiler.util import error, parser_types

GOOD = '[$default byte_order: "LittleEndian"]\nstruct Header:\n  0 [+2]  UInt  kind\n'
LONG = "n" * 300 + ".emb"      # longer than NAME_MAX (255)
IS_ROOT = hasattr(os, "geteuid") and os.geteuid() == 0

# state of the target name in one import directory
STATES = ["absent", "file", "empty", "dir", "through-file", "dangling", "loop", "non-utf8", "mode000",
          "link-to-file"]


def build_state(root, name, state, text=GOOD):
    """Create `state` for `name` below directory `root`.  Returns False if not representable."""
    p = os.path.join(root, name)
    try:
        if state == "through-file":
            # a regular file where a directory of the path is expected
            first = name.split("/")[0]
            if "/" not in name:
                return False
            with open(os.path.join(root, first), "w") as f:
                f.write(GOOD)
            return True
        if state == "absent":
            return True
        os.makedirs(os.path.dirname(p) or root, exist_ok=True)
        if state == "file":
            with open(p, "w") as f:
                f.write(text)
        elif state == "empty":
            open(p, "w").close()
        elif state == "dir":
            os.makedirs(p, exist_ok=True)
        elif state == "dangling":
            os.symlink("nowhere-at-all", p)
        elif state == "loop":
            os.symlink(os.path.basename(p), p)
        elif state == "non-utf8":
            with open(p, "wb") as f:
                f.write(b"struct Foo:\n  0 [+1]  UInt  x  # \xff\xfe\n")
        elif state == "mode000":
            with open(p, "w") as f:
                f.write(text)
            os.chmod(p, 0)
        elif state == "link-to-file":
            with open(p + ".target", "w") as f:
                f.write(text)
            os.symlink(os.path.basename(p) + ".target", p)
        return True
    except (OSError, ValueError):
        return False


def classify_open(path):
    """What `open(path).read()` does — the primitive the model takes as given."""
    try:
        with open(path) as f:
            return ("t", f.read())
    except UnicodeError as e:
        return ("u", str(e))
    except OSError as e:
        return ("o", str(e))
    except ValueError as e:
        # open() rejects the name itself (embedded NUL); not an OSError, not a UnicodeError
        return ("v", str(e))
    except Exception as e:  # noqa: BLE001
        return ("x", type(e).__name__)


def gen_layout(r):
    ndirs = r.choice([1, 2, 2, 3])
    name = r.choice(["x.emb", "x.emb", "sub/x.emb", "common.emb/header.emb", LONG, "sub/" + LONG, ".", "", "a b.emb",
                     "x\x00y.emb", "../x.emb", "sub/", "é.emb"])
    states = [r.choice(STATES) for _ in range(ndirs)]
    return name, states


def tie_findread(chk, r, n):
    from harness.corr import C16 as base
    t = base.Tie(chk, "FINDREAD")
    t2 = base.Tie(chk, "READERR")
    dist = {}
    top = os.path.join(common.scratch(), "findread")
    for i in range(n):
        name, states = gen_layout(r)
        root = os.path.join(top, "c%d" % i)
        dirs = []
        ok = True
        for j, st in enumerate(states):
            d = os.path.join(root, "d%d" % j)
            os.makedirs(d, exist_ok=True)
            if "\x00" not in name:
                ok = build_state(d, name, st) and ok
            dirs.append(d)
        if not ok:
            continue
        probes = []
        for d in dirs:
            try:
                full = os.path.join(d, name)
            except Exception:  # noqa: BLE001
                full = None
            probes.append((d, classify_open(full) if full is not None else ("x", "ValueError")))
        for st, (_, (k, _v)) in zip(states, probes):
            dist["%s→%s" % (st, k)] = dist.get("%s→%s" % (st, k), 0) + 1
        try:
            text, errs = emboss_front_end._find_in_dirs_and_read(dirs)(name)
            if errs:
                want = "notfound " + "|".join(base.enc(e) for e in errs)
            else:
                want = "found " + base.enc(text)
            # spec: a truthy error list or a text, never both/neither
            spec_ok = (text is None) != (not errs)
        except Exception as e:  # noqa: BLE001
            want = "raised " + type(e).__name__
            # spec (property statement): a file that cannot be opened/decoded is reported, not raised
            spec_ok = not all(k in "touv" for _, (k, _v) in probes)
        line = "FINDREAD " + ("|".join("%s=%s:%s" % (base.enc(d), k, base.enc(v)) for d, (k, v) in probes) or "-")
        t.add(line, want, {"layout": {"name": name, "states": states}, "observed": want[:300],
                           "expected": "the text of the first import directory where the file can be read, or "
                                       "(None, one detail per directory + import path); no exception for OSError/ValueError (incl. UnicodeError)"},
              spec_ok)
        chk.nontrivial("findread:" + ",".join(k for _, (k, _v) in probes) + want[:8])
        if want.startswith("notfound"):
            # what glue.parse_module makes of it, rendered (no sources: the executables have none either)
            reader = emboss_front_end._find_in_dirs_and_read(dirs)
            for color in (False, True):
                try:
                    _, _, groups = glue.parse_module(name or "unnamed", lambda _n: reader(name))
                    wantr = "ok " + base.enc(error.format_errors(groups, {}, use_color=color))
                    spec2 = len(groups) == 1 and len(groups[0]) == len(dirs) + 2 and \
                        all(not m.location.is_synthetic and str(m.location.start) == "1:1" for m in groups[0])
                except Exception as e:  # noqa: BLE001
                    wantr, spec2 = "crash " + type(e).__name__, False
                t2.add("READERR %d %s %s" % (1 if color else 0, base.enc(name or "unnamed"),
                                             "|".join(base.enc(e) for e in errs) or "-"), wantr,
                       {"layout": {"name": name, "states": states}}, spec2)
    chk.extra["findread_probe_distribution"] = dist
    return t.flush() + t2.flush()


def tie_path(chk, r, n):
    from harness.corr import C16 as base
    t = base.Tie(chk, "PATH")
    parts = ["", ".", "/", "a", "a/", "/a", "a/b", "//", "a//b", "..", "out", "m.emb.h", "x/y/z.h", "./", "a/.", "///x", "é"]
    for _ in range(n):
        a, b = r.choice(parts), r.choice(parts)
        if r.random() < 0.3:
            a += r.choice(parts)
        j = os.path.join(a, b)
        t.add("PATH %s %s" % (base.enc(a), base.enc(b)), "join %s dirname %s" % (base.enc(j), base.enc(os.path.dirname(j))),
              {"a": a, "b": b})
    return t.flush()


# ---- the executables in-process, with stubbed front end / back end
_embossc = None


def load_embossc():
    global _embossc
    if _embossc is None:
        path = os.path.join(common.REPO, "embossc")
        loader = importlib.machinery.SourceFileLoader("embossc_c16", path)
        spec = importlib.util.spec_from_loader("embossc_c16", loader)
        _embossc = importlib.util.module_from_spec(spec)
        loader.exec_module(_embossc)
    return _embossc


def gen_groups(r, files, allow_empty_group=False):
    groups = []
    for _ in range(r.choice([1, 1, 2, 3])):
        g = []
        for _m in range(r.choice([1, 1, 2])):
            k = r.random()
            if k < 0.1:
                loc = None
            elif k < 0.2:
                loc = parser_types.SourceLocation((1, 1), (1, 2), is_synthetic=True)
            else:
                ln = r.choice([1, 1, 2, 3, 9])
                c = r.choice([1, 2, 5])
                loc = parser_types.SourceLocation((ln, c), (ln, c + r.choice([0, 1, 3])))
            mk = r.choice([error.error, error.error, error.warn, error.note])
            g.append(mk(r.choice(sorted(files) + ["other.emb", ""]), loc, r.choice(["Syntax error", "one\ntwo", "", "x" * 20])))
        groups.append(g)
    if allow_empty_group and r.random() < 0.04:
        groups.insert(r.randrange(len(groups) + 1), [])
    return groups


def _new_files(root):
    out = []
    for dp, _dn, fn in os.walk(root):
        for f in fn:
            out.append(os.path.relpath(os.path.join(dp, f), root))
    return sorted(out)


def _run_main(fn, cwd):
    """Call an executable's main in-process: (exit code | exception, stderr text, stdout text)."""
    err, out = io.StringIO(), io.StringIO()
    old = os.getcwd()
    os.chdir(cwd)
    try:
        with contextlib.redirect_stderr(err), contextlib.redirect_stdout(out):
            try:
                rc = fn()
            except SystemExit as e:
                rc = ("SystemExit", e.code)
            except Exception as e:  # noqa: BLE001
                rc = e
    finally:
        os.chdir(old)
    return rc, err.getvalue(), out.getvalue()


def _answer(base, rc, stderr, cwd, before):
    if isinstance(rc, Exception):
        if type(rc) is FileNotFoundError:
            return "raised FileNotFoundError"
        return "raised " + ("OSError" if isinstance(rc, OSError) else type(rc).__name__)
    if isinstance(rc, tuple):
        return "raised SystemExit(%r)" % (rc[1],)
    new = [f for f in _new_files(cwd) if f not in before]
    if len(new) > 1:
        return "exit %s wrote-several %r" % (rc, new)
    if new:
        with open(os.path.join(cwd, new[0]), newline="") as f:
            content = f.read()
        return "exit %s %s %s %s" % (rc, base.enc(stderr), base.enc(os.path.normpath(new[0])), base.enc(content))
    return "exit %s %s none none" % (rc, base.enc(stderr))


def _norm_model(base, cwd):
    """The model answers with the path string `embossc` hands to open(); the real run is observed
    as a file below the working directory: compare normalised relative paths."""
    def norm(got):
        p = got.split(" ")
        if len(p) == 5 and p[0] == "exit" and p[3] != "none":
            try:
                p[3] = base.enc(os.path.normpath(os.path.relpath(os.path.join(cwd, base.dec(p[3])), cwd)))
            except Exception:  # noqa: BLE001
                pass
        return " ".join(p)
    return norm


class _Patched:
    """Replace module attributes for the duration of a block (restored afterwards)."""

    def __init__(self, *triples):
        self.triples = triples
        self.saved = []

    def __enter__(self):
        for mod, name, val in self.triples:
            self.saved.append((mod, name, getattr(mod, name)))
            setattr(mod, name, val)

    def __exit__(self, *a):
        for mod, name, val in self.saved:
            setattr(mod, name, val)


def tie_executables(chk, r, n):
    from harness.corr import C16 as base
    from compiler.back_end.cpp import emboss_codegen_cpp, header_generator
    t = base.Tie(chk, "EMBOSSC/FRONTEND/CODEGEN")
    emb = load_embossc()
    top = os.path.join(common.scratch(), "exe")
    fake_utils = types.SimpleNamespace(
        IrDataSerializer=type("S", (), {"__init__": lambda self, ir: None, "to_json": lambda self, **k: "J",
                                        "from_json": staticmethod(lambda cls, text: _CURRENT["ir"])}))
    for i in range(n):
        cwd = os.path.join(top, "e%d" % i)
        os.makedirs(cwd, exist_ok=True)
        files = {"m.emb": "struct Foo:\n  0 [+1]  UInt  x\n", "dir/n.emb": "a\nb\n"}
        input_name = r.choice(["m.emb", "m.emb", "dir/n.emb", "deep/er/q.emb"])
        srcs = {k: v for k, v in files.items() if r.random() < 0.8}
        ir = types.SimpleNamespace(module=[types.SimpleNamespace(source_file_name=k, source_text=v) for k, v in srcs.items()])
        _CURRENT["ir"] = ir
        color = r.random() < 0.5
        front_errs = gen_groups(r, files, allow_empty_group=True) if r.random() < 0.35 else None
        back_errs = gen_groups(r, files, allow_empty_group=True) if r.random() < 0.3 else None
        header = r.choice(["H", "// header\n", "", "é\n"])
        dbg = types.SimpleNamespace(modules={input_name: types.SimpleNamespace()})

        def fake_parse(file_name, reader, stop_before_step=None):
            return (None, dbg, front_errs) if front_errs else (ir, dbg, [])

        def fake_header(ir_, config=None):
            return (None, back_errs) if back_errs else (header, [])
        which = r.choice(["embossc", "embossc", "frontend", "codegen"])
        # output location
        kind = r.choice(["default", "path", "file", "both", "empty-path", "through-file", "target-is-dir", "abs-file"])
        op = of = None
        mk = wr = 1
        if kind in ("path", "both"):
            op = r.choice(["out", "out/", "out/deep", ".", "./x/../out"])
        if kind in ("file", "both"):
            of = r.choice(["h.h", "sub/h.h", "./h.h"])
        if kind == "empty-path":
            op = ""
        if kind == "through-file":
            with open(os.path.join(cwd, "plain"), "w") as f:
                f.write("x")
            op, mk = "plain/inner", 0
        if kind == "target-is-dir":
            of, wr = "isdir", 0
            os.makedirs(os.path.join(cwd, "isdir"), exist_ok=True)
        if kind == "abs-file":
            of = os.path.join(cwd, "abs", "h.h")
        before = _new_files(cwd)
        patches = [(glue, "parse_emboss_file", fake_parse), (header_generator, "generate_header", fake_header),
                   (emboss_front_end, "_warn_if_cached_parser_is_mismatched", lambda c: None)]
        fr = "E" + base.enc_groups(front_errs) if front_errs else "I" + base.enc_sources(srcs)
        bk = "E" + base.enc_groups(back_errs) if back_errs else "H" + base.enc(header)
        ctx = {"which": which, "output_kind": kind, "front_errors": repr(front_errs)[:400], "back_errors": repr(back_errs)[:400]}
        if which == "embossc":
            argv = ["embossc", "--color-output", "always" if color else "never"]
            if op is not None:
                argv += ["--output-path", op]
            if of is not None:
                argv += ["--output-file", of]
            argv.append(input_name)
            with _Patched(*patches):
                rc, stderr, _ = _run_main(lambda: emb.main(argv), cwd)
            want = _answer(base, rc, stderr, cwd, before)
            line = "EMBOSSC %d %s %s %s %s %s %d%d" % (1 if color else 0, fr, bk, "none" if op is None else base.enc(op),
                                                      "none" if of is None else base.enc(of), base.enc(input_name), mk, wr)
            # spec (property statement): errors → exit 1 with a message; otherwise exit 0 and one header file;
            # a traceback only for an unwritable output location (not an input-text matter)
            well = all(front_errs or [[1]]) and all(back_errs or [[1]])
            out_ok = kind not in ("empty-path", "through-file", "target-is-dir") or (kind == "empty-path" and of is None and "/" in input_name)
            if front_errs or back_errs:
                spec_ok = (not well) or (want.startswith("exit 1 ") and want.split(" ")[2] != "-")
            else:
                spec_ok = (not out_ok) or want.startswith("exit 0 - ")
        else:
            # --output-file of the split executables: the directory must exist already (no makedirs there)
            okind = r.choice(["none", "plain-name", "in-subdir", "target-is-dir", "through-file", "abs"])
            of, wr = None, 1
            if okind == "plain-name":
                of = "o.out"
            elif okind == "in-subdir":
                of = "sub/o.out"
                os.makedirs(os.path.join(cwd, "sub"), exist_ok=True)
            elif okind == "target-is-dir":
                of, wr = "isdir2", 0
                os.makedirs(os.path.join(cwd, "isdir2"), exist_ok=True)
            elif okind == "through-file":
                with open(os.path.join(cwd, "plain2"), "w") as f:
                    f.write("x")
                of, wr = "plain2/o.out", 0
            elif okind == "abs":
                of = os.path.join(cwd, "o.abs")
            ctx["output_kind"] = okind
            with open(os.path.join(cwd, "ir.json"), "w") as f:
                f.write("{}")
            before = _new_files(cwd)
            argv = ["exe", "--color-output", "always" if color else "never"]
            if of is not None:
                argv += ["--output-file", of]
            if which == "frontend":
                flags = emboss_front_end._parse_command_line(argv + [input_name])
                with _Patched(*(patches + [(emboss_front_end, "ir_data_utils", fake_utils)])):
                    rc, stderr, _ = _run_main(lambda: emboss_front_end.main(flags), cwd)
                line = "FRONTEND %d %s %s %d" % (1 if color else 0, fr, "none" if of is None else base.enc(of), wr)
                errs_here = front_errs
            else:
                flags = emboss_codegen_cpp._parse_command_line(argv + ["--input-file", "ir.json"])
                with _Patched(*(patches + [(emboss_codegen_cpp, "ir_data_utils", fake_utils)])):
                    rc, stderr, _ = _run_main(lambda: emboss_codegen_cpp.main(flags), cwd)
                line = "CODEGEN %d %s %s %s %d" % (1 if color else 0, base.enc_sources(srcs), bk,
                                                   "none" if of is None else base.enc(of), wr)
                errs_here = back_errs
            want = _answer(base, rc, stderr, cwd, before)
            if errs_here:
                spec_ok = (not all(errs_here)) or (want.startswith("exit 1 ") and want.split(" ")[2] != "-")
            else:
                spec_ok = (not wr) or want.startswith("exit 0 - ")
        t.add(line, want, ctx, spec_ok, norm=_norm_model(base, cwd))
        chk.nontrivial("exe:%s:%s:%s" % (which, kind, want[:12]))
    return t.flush()


_CURRENT = {}


# ---- source locations
def tie_locations(chk, r, cases, n_tokens, n_merges):
    from harness.corr import C16 as base
    from compiler.front_end import tokenizer
    t = base.Tie(chk, "TOKLOC/MERGE")
    locs_by_file = []
    budget = n_tokens
    for c in cases:
        if budget <= 0:
            break
        text = c["files"].get(c["main"])
        if not text:
            continue
        try:
            toks, errs = tokenizer.tokenize(text, c["main"])
        except Exception:  # noqa: BLE001
            continue
        if errs or not toks:
            continue
        lines = text.splitlines()
        real = []
        for tok in toks[: max(20, budget // 20)]:
            loc = tok.source_location
            ln, col = loc.start.line, loc.start.column
            real.append(loc)
            if ln == len(lines) + 1:
                # the Dedents after the last line
                spec_ok = tok.symbol == "Dedent" and (col, loc.end.line, loc.end.column) == (1, ln, 1)
                t.add("MERGE %s" % base.enc_loc(loc), "loc " + base.enc_loc(loc), {"token": repr(tok)[:200]}, spec_ok)
                continue
            line = lines[ln - 1] if 1 <= ln <= len(lines) else None
            width = loc.end.column - col
            # spec: the location is where the token's text is, inside its line
            spec_ok = line is not None and loc.end.line == ln and col - 1 + width <= len(line) and \
                (tok.symbol in ("Dedent", '"\\n"') or line[col - 1:col - 1 + width] == tok.text)
            t.add("TOKLOC %d %d %d" % (ln, col - 1, width), base.enc_loc(loc),
                  {"token": repr(tok)[:200], "input": text[:2000]}, spec_ok)
            budget -= 1
        locs_by_file.append((lines, real))
    for _ in range(n_merges):
        if not locs_by_file:
            break
        lines, real = r.choice(locs_by_file)
        k = r.choice([1, 2, 2, 3, 5])
        i = r.randrange(len(real))
        pick = sorted(r.sample(range(len(real)), min(k, len(real)))) if r.random() < 0.8 else \
            [r.randrange(len(real)) for _x in range(k)]
        chosen = [real[j] for j in pick]
        ordered = pick == sorted(pick)
        if r.random() < 0.3:
            chosen.insert(r.randrange(len(chosen) + 1), parser_types.SourceLocation())
        if r.random() < 0.15:
            j = r.randrange(len(chosen))
            chosen[j] = chosen[j]._replace(is_synthetic=True)
        nodes = [types.SimpleNamespace(source_location=x) for x in chosen]
        if r.random() < 0.1:
            nodes.append(object())      # a node without source_location is skipped
        try:
            m = parser_types.merge_source_locations(*nodes)
            want = "none" if m is None else "loc " + base.enc_loc(m)
            # spec: merging locations that lie in the file, in order, gives a location in the file
            spec_ok = True
            if m is not None and ordered:
                spec_ok = base.position_problem(m.start, lines) is None and base.position_problem(m.end, lines) is None \
                    and m.start <= m.end
        except AssertionError:
            want, spec_ok = "assert", not ordered
        t.add("MERGE " + "/".join(base.enc_loc(x) for x in chosen), want, {"locations": [str(x) for x in chosen]}, spec_ok)
        _ = i
    return t.flush()


# ---- module_ir's hand-built locations (round 3)
class _RecordingParserTypes:
    """Stands in for the module `parser_types` inside `module_ir` while a file is parsed: every
    `SourceLocation(...)` and `merge_source_locations(...)` call module_ir makes is recorded
    with its arguments and its result (or the AssertionError); everything else is the real module."""

    def __init__(self, real, log):
        self._real, self._log = real, log

    def __getattr__(self, name):
        return getattr(self._real, name)

    def SourceLocation(self, *args, **kwargs):
        try:
            res = self._real.SourceLocation(*args, **kwargs)
        except AssertionError:
            self._log.append(("new", args, kwargs, "assert"))
            raise
        self._log.append(("new", args, kwargs, res))
        return res

    def merge_source_locations(self, *nodes):
        locs = [getattr(n, "source_location", None) for n in nodes]
        try:
            res = self._real.merge_source_locations(*nodes)
        except AssertionError:
            self._log.append(("merge", locs, {}, "assert"))
            raise
        self._log.append(("merge", locs, {}, res))
        return res


def _ir_locations(node, path="module", out=None, parent=None):
    """(path, location, location of the nearest enclosing node that has one) of every node of a
    module IR that carries a source location."""
    from compiler.util import ir_data, ir_data_utils
    if out is None:
        out = []
    if not isinstance(node, ir_data.Message):
        return out
    loc = getattr(ir_data_utils.reader(node), "source_location", None) if hasattr(node, "source_location") else None
    if isinstance(node, ir_data.Import) and not ir_data_utils.reader(node).file_name.text:
        # the prelude import module_ir synthesizes: a zero-width location at the first import / doc /
        # attribute / type, or (1, 1) in a module that has none of them, while the module node then
        # spans only the end-of-line tokens (" " → module at 1:2, import at 1:1).  Not something the
        # user wrote; no containment required of it.
        parent = None
    if loc is not None:
        out.append((path + ":" + type(node).__name__, loc, parent))
    if loc:
        parent = loc
    for spec, value in ir_data_utils.get_set_fields(node):
        if spec.name != "source_location" and spec.is_dataclass:
            if spec.is_sequence:
                for i, v in enumerate(value):
                    _ir_locations(v, "%s.%s[%d]" % (path, spec.name, i), out, parent)
            else:
                _ir_locations(value, path + "." + spec.name, out, parent)
    return out


def tie_module_ir(chk, r, cases, n_files, n_ops):
    """SPAN tie + IR-location oracle.  For explored inputs that tokenize and parse: build the
    module IR with the real `module_ir.build_ir` while its `parser_types` is the recording
    stand-in.  (a) every `SourceLocation(start, end)` module_ir constructs: model `mkLoc` vs the
    real constructor; spec: both arguments are boundaries of tokens of this file (or the
    `(1, 1)` of an empty module / the falsy default) — the hypothesis of
    `C16_module_ir_locations` — and the result lies inside the file; (b) its hand-made
    `merge_source_locations` calls go to the MERGE op; (c) every location of every node of the
    finished IR lies inside the file, start <= end, both ends are token boundaries, and the
    location lies within the location of the enclosing node (unless `is_disjoint_from_parent`)."""
    from harness.corr import C16 as base
    from compiler.front_end import tokenizer, parser, module_ir
    t = base.Tie(chk, "SPAN/MODULE_IR")
    stats = {"files": 0, "constructor_calls": 0, "merge_calls": 0, "ir_nodes_with_location": 0, "shapes": {}}
    bad_nodes = 0
    budget = n_ops
    seen_ops = set()
    for c in cases:
        if stats["files"] >= n_files:
            break
        text = c["files"].get(c["main"])
        if not text:
            continue
        try:
            toks, errs = tokenizer.tokenize(text, c["main"])
            if errs or not toks:
                continue
            pr = parser.parse_module(toks)
            if pr.error:
                continue
        except Exception:  # noqa: BLE001
            continue
        lines = text.splitlines()
        bounds = {(1, 1)}
        starts, ends = set(), set()
        for tok in toks:
            sl = tok.source_location
            bounds.add((sl.start.line, sl.start.column))
            bounds.add((sl.end.line, sl.end.column))
            starts.add((sl.start.line, sl.start.column))
            ends.add((sl.end.line, sl.end.column))
        log = []
        real_pt = module_ir.parser_types
        module_ir.parser_types = _RecordingParserTypes(real_pt, log)
        try:
            ir = module_ir.build_ir(pr.parse_tree)
        except Exception:  # noqa: BLE001  (a crash here is the exploration's business)
            ir = None
        finally:
            module_ir.parser_types = real_pt
        stats["files"] += 1
        for kind, args, kwargs, res in log:
            if kind == "new":
                stats["constructor_calls"] += 1
                extra = set(kwargs) - {"start", "end"}
                a = list(args)
                start = kwargs.get("start", a[0] if a else None)
                end = kwargs.get("end", a[1] if len(a) > 1 else None)
                if start is None and end is None and not extra:
                    continue            # SourceLocation(): the falsy default
                if extra or start is None or end is None:
                    stats["shapes"]["other-kwargs"] = stats["shapes"].get("other-kwargs", 0) + 1
                    continue
                sp, ep = tuple(start), tuple(end)
                shape = ("start" if sp in starts else "end" if sp in ends else "?") + "→" + \
                        ("end" if ep in ends else "start" if ep in starts else "?")
                stats["shapes"][shape] = stats["shapes"].get(shape, 0) + 1
                want = "assert" if res == "assert" else "loc " + base.enc_loc(res)
                # spec: the arguments are token boundaries of this file, in order, and the result lies in the file
                spec_ok = sp in bounds and ep in bounds and res != "assert" and \
                    base.position_problem(res.start, lines) is None and base.position_problem(res.end, lines) is None
                op = "SPAN %d %d %d %d" % (sp[0], sp[1], ep[0], ep[1])
                if spec_ok and op in seen_ops:
                    continue
                seen_ops.add(op)
                if budget > 0 or not spec_ok:
                    budget -= 1
                    t.add(op, want, {"input": text[:3000], "call": "SourceLocation(%r, %r)" % (sp, ep)}, spec_ok)
            else:
                stats["merge_calls"] += 1
                locs = [x for x in args if x is not None]
                if not locs:
                    continue
                want = "assert" if res == "assert" else ("none" if res is None else "loc " + base.enc_loc(res))
                spec_ok = res != "assert" and (res is None or (
                    base.position_problem(res.start, lines) is None and base.position_problem(res.end, lines) is None))
                op = "MERGE " + "/".join(base.enc_loc(x) for x in locs)
                if spec_ok and op in seen_ops:
                    continue
                seen_ops.add(op)
                if budget > 0 or not spec_ok:
                    budget -= 1
                    t.add(op, want, {"input": text[:3000], "call": "merge_source_locations(%s)" % ", ".join(str(x) for x in locs)}, spec_ok)
        if ir is not None:
            for path, loc, parent in _ir_locations(ir):
                if not loc:
                    continue
                stats["ir_nodes_with_location"] += 1
                chk.count()
                problem = base.position_problem(loc.start, lines) or base.position_problem(loc.end, lines)
                if problem is None and not loc.start <= loc.end:
                    problem = "start after end"
                if problem is None and ((loc.start.line, loc.start.column) not in bounds or
                                        (loc.end.line, loc.end.column) not in bounds):
                    problem = "an end of the location is not a token boundary"
                # parser_types.SourceLocation: a node lies within its parent unless it says otherwise
                if problem is None and parent and not loc.is_disjoint_from_parent and \
                        not (parent.start <= loc.start and loc.end <= parent.end):
                    problem = "not inside the enclosing node's location %s" % (parent,)
                if problem is not None:
                    bad_nodes += 1
                    if bad_nodes <= 3:
                        chk.violation("input", {"input": text[:3000], "main": c["main"], "node": path, "location": str(loc),
                                                "observed": "IR node %s has location %s: %s" % (path, loc, problem),
                                                "expected": "every location module_ir attaches to an IR node lies inside the "
                                                            "file and runs from a token boundary to a token boundary",
                                                "theorem_or_correspondence": "C16_module_ir_locations (hypotheses on real IR)"},
                                      key="ir-location:" + problem.split(" outside")[0].split(" location ")[0][:40])
    for k, v in stats["shapes"].items():
        chk.nontrivial("span-shape:" + k)
    stats["ir_nodes_with_bad_location"] = bad_nodes
    chk.extra["module_ir_locations"] = stats
    return t.flush() + bad_nodes


# ---- file-system faults for the executables in subprocesses
def fs_cli_cases(r, n):
    """Layouts for run_cli: the main file or an import that exists in some import directory but
    cannot be opened as a text file.  `expect` is the spec: exit 0 iff some import directory (in
    order) provides a readable file, and that file is a valid module."""
    main_imp = 'import "%s" as dep\n[$default byte_order: "LittleEndian"]\nstruct Message:\n  0 [+4]  UInt  length\n'
    cases = []
    faults = ["dir", "through-file", "dangling", "loop", "non-utf8", "mode000", "absent", "long-name"]
    readable = {"file", "link-to-file", "empty"} | ({"mode000"} if IS_ROOT else set())
    for fault in faults:
        for role in ("main", "import"):
            for where in (["only"] if role == "main" else ["only", "first-of-two", "second-of-two", "both"]):
                name = "common.emb/header.emb" if fault == "through-file" else (LONG if fault == "long-name" else "dep/x.emb")
                st = "absent" if fault == "long-name" else fault
                states = {"only": [st], "first-of-two": [st, "file"], "second-of-two": [r.choice(["file", "link-to-file"]), st],
                          "both": [st, r.choice([s for s in STATES if s not in ("file", "link-to-file", "empty")])]}[where]
                # the first directory where open() succeeds wins; the other states fail with OSError/UnicodeError
                expect = 0 if any(s in readable for s in states) else 1
                cases.append({"kind": "cli/fs-%s-%s-%s" % (fault, role, where), "fs": {"name": name, "states": states, "role": role,
                                                                                      "main_text": main_imp % name},
                              "main": name if role == "main" else "top.emb", "expect": expect, "raw": {}})
    r.shuffle(cases)
    # one of each fault first, then the rest
    seen, head, tail = set(), [], []
    for c in cases:
        k = (c["fs"]["states"][0], c["fs"]["role"])
        (tail if k in seen else head).append(c)
        seen.add(k)
    return (head + tail)[:n]


def build_fs_case(d, c):
    """Create the directories of an fs case below `d`; returns the --import-dir list."""
    fs = c["fs"]
    dirs = []
    for j, st in enumerate(fs["states"]):
        root = os.path.join(d, "in%d" % j)
        os.makedirs(root, exist_ok=True)
        if not build_state(root, fs["name"], st):
            return None
        dirs.append(root)
    if fs["role"] == "import":
        with open(os.path.join(dirs[0], "top.emb"), "w") as f:
            f.write(fs["main_text"])
    return dirs
