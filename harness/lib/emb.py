"""In-process access to the real Emboss compiler in $VERIF_REPO (default /repo).

Importing the front end costs ~4 s once (cached parser tables); afterwards a small
module compiles in ~25 ms.  Everything is imported from the *current working tree*.
"""

import json

from harness.lib import common  # noqa: F401  (puts REPO on sys.path, sets the guard)

from compiler.front_end import glue
from compiler.util import ir_data_utils
from compiler.util import test_util


def compile_text(files, main="m.emb", stop_before_step=None):
    """files: {name: text}.  Returns (ir or None, errors(list of groups), exception or None).

    Exceptions are *caught and returned*: for most properties an uncaught exception
    is itself a finding (C16)."""
    try:
        kw = {}
        if stop_before_step is not None:
            kw["stop_before_step"] = stop_before_step
        ir, _debug, errors = glue.parse_emboss_file(main, test_util.dict_file_reader(files), **kw)
        return ir, errors, None
    except Exception as e:  # noqa: BLE001
        return None, [], e


def ir_to_dict(ir):
    return json.loads(ir_data_utils.IrDataSerializer(ir).to_json())


def error_summary(errors):
    """Canonical, location-bearing summary of error groups: list of lists of
    (file, 'line:col-line:col', severity, first line of message)."""
    out = []
    for group in errors:
        g = []
        for m in group:
            loc = m.location
            g.append((m.source_file, str(loc) if loc is not None else "", str(m.severity),
                      m.message.split("\n")[0]))
        out.append(g)
    return out


def generate_header(ir):
    """Real C++ back end: returns (header text or None, errors)."""
    from compiler.back_end.cpp import header_generator
    return header_generator.generate_header(ir)
