"""Direct instantiation of the runtime's scalar view templates (shared by C02 and C03).

A *configuration* is (ty, k, c, o, order, mode, align):
  ty    uint | int | bcd | flag | float | enum{u,s}{8,16,32,64}
  k     field width in bits (Parameters::kBits)            c  container size in bits
  o     bit offset inside the container                    order  le | be | null
  mode  direct (view over BitBlock; k == c, o == 0) | offset (view over
        OffsetBitBlock<BitBlock<...>> obtained with BitBlock::GetOffsetStorage(o, k))
  align kAlignment of the ContiguousBuffer (1, 2, 4, 8): selects the MemoryAccessor
        specialisation (memcpy path vs aligned pointer-cast path)

The offset is a run-time argument of `GetOffsetStorage`, so one compiled *shape*
(`shape_of(cfg)`: the configuration without `o`) serves every offset.
`cpp_source(shapes)` emits one translation unit whose `main` reads lines
`<shape index> <o> <hex|-> <argT> <value>` and prints, per line,
`cmp= ok= rd= could= try= after= ok2= rd2=` — the same text the Lean driver prints for
`SCALAR ...`.  `spec(cfg, data, argT, value)` is the independent oracle written from the
language reference / the property statements (pure integer arithmetic).
"""
import collections
import os

from harness.lib import common, cppbuild

Config = collections.namedtuple("Config", "ty k c o order mode align")

ARGT = ["i8", "u8", "i16", "u16", "i32", "u32", "i64", "u64"]
ARGT_C = {"i8": "::std::int8_t", "u8": "::std::uint8_t", "i16": "::std::int16_t",
          "u16": "::std::uint16_t", "i32": "::std::int32_t", "u32": "::std::uint32_t",
          "i64": "::std::int64_t", "u64": "::std::uint64_t"}


def argt_range(t):
    w = int(t[1:])
    return (-(1 << (w - 1)), (1 << (w - 1)) - 1) if t[0] == "i" else (0, (1 << w) - 1)


def least_width(bits):
    for w in (8, 16, 32, 64):
        if bits <= w:
            return w
    raise ValueError(bits)


def is_enum(ty):
    return ty.startswith("enum")


def enum_info(ty):
    """(underlying width, signed)"""
    return int(ty[5:]), ty[4] == "s"


def config_valid(cfg):
    ty, k, c, o, order, mode, align = cfg
    if c % 8 or not 8 <= c <= 64 or not 1 <= k <= 64 or o > 255:
        return False
    if order == "null" and c != 8:
        return False
    if mode == "direct" and (o != 0 or k != c):
        return False
    if ty == "flag" and k != 1:
        return False
    if ty == "float" and k not in (32, 64):
        return False
    if is_enum(ty) and k > enum_info(ty)[0]:
        return False
    return True


def native_argts(cfg):
    """Argument types that exist for this view's TryToWrite."""
    ty, k = cfg.ty, cfg.k
    if ty in ("uint", "int"):
        return list(ARGT)
    if ty == "bcd":
        return ["u%d" % least_width(k)]
    if ty == "flag":
        return ["u8"]
    if ty == "float":
        return ["u%d" % k]
    uw, signed = enum_info(ty)
    return [("i" if signed else "u") + str(uw)]


# ------------------------------------------------------------------ C++ text
PRELUDE = cppbuild.CHECK_PRELUDE + r"""
#include <cstdint>
#include <cstring>
#include <type_traits>
#include "runtime/cpp/emboss_prelude.h"
#include "runtime/cpp/emboss_enum_view.h"
#include "runtime/cpp/emboss_memory_util.h"
#include "runtime/cpp/emboss_view_parameters.h"

namespace es = ::emboss::support;
namespace ep = ::emboss::prelude;

enum class EU8 : ::std::uint8_t { kZ = 0 };
enum class EU16 : ::std::uint16_t { kZ = 0 };
enum class EU32 : ::std::uint32_t { kZ = 0 };
enum class EU64 : ::std::uint64_t { kZ = 0 };
enum class ES8 : ::std::int8_t { kZ = 0 };
enum class ES16 : ::std::int16_t { kZ = 0 };
enum class ES32 : ::std::int32_t { kZ = 0 };
enum class ES64 : ::std::int64_t { kZ = 0 };

struct Ctx {
  unsigned char *buf;
  ::std::size_t n;
  ::std::size_t o;  // bit offset handed to GetOffsetStorage (a run-time value in the API)
  int argt;  // index into i8 u8 i16 u16 i32 u32 i64 u64
  long long sv;
  unsigned long long uv;
};

static void HexOut(const unsigned char *p, ::std::size_t n) {
  if (n == 0) { ::std::fputs("-", stdout); return; }
  for (::std::size_t i = 0; i < n; ++i) ::std::printf("%02x", p[i]);
}

template <typename T>
static void PrintInt(T v) {
  if (::std::is_signed<T>::value) ::std::printf("%lld", static_cast<long long>(v));
  else ::std::printf("%llu", static_cast<unsigned long long>(v));
}
static void PrintVal(bool v) { ::std::printf("%d", v ? 1 : 0); }
static void PrintVal(float v) { ::std::uint32_t b; ::std::memcpy(&b, &v, 4); PrintInt(b); }
static void PrintVal(double v) { ::std::uint64_t b; ::std::memcpy(&b, &v, 8); PrintInt(b); }
template <typename T, typename = typename ::std::enable_if< ::std::is_integral<T>::value && !::std::is_same<T, bool>::value>::type>
static void PrintVal(T v) { PrintInt(v); }
template <typename T, typename = typename ::std::enable_if< ::std::is_enum<T>::value>::type, typename = void>
static void PrintVal(T v) { PrintInt(static_cast<typename ::std::underlying_type<T>::type>(v)); }

template <typename T>
static bool SameBits(T a, T b) { return ::std::memcmp(&a, &b, sizeof a) == 0; }

template <class V>
static void Before(const V &v, bool *cmp) {
  *cmp = v.IsComplete();
  const bool ok = v.Ok();
  ::std::printf("cmp=%d ok=%d rd=", *cmp ? 1 : 0, ok ? 1 : 0);
  if (*cmp) {
    auto r = v.UncheckedRead();
    PrintVal(r);
    if (ok) {
      auto r2 = v.Read();
      if (!SameBits(r, r2)) ::std::fputs("!read-differs-from-unchecked-read", stdout);
    }
  } else {
    ::std::fputs("-", stdout);
  }
}

template <class V>
static void After(const V &v, const Ctx &x, bool could, bool tried) {
  ::std::printf(" could=%d try=%d after=", could ? 1 : 0, tried ? 1 : 0);
  HexOut(x.buf, x.n);
  const bool cmp = v.IsComplete();
  const bool ok = v.Ok();
  ::std::printf(" ok2=%d rd2=", ok ? 1 : 0);
  if (cmp) PrintVal(v.UncheckedRead()); else ::std::fputs("-", stdout);
  ::std::fputs("\n", stdout);
}

// Integer-like views (UIntView, IntView): templated CouldWriteValue/TryToWrite.
template <int kMask, class V>
static void RunInt(const V &v, const Ctx &x) {
  bool cmp; Before(v, &cmp);
  bool could = false, tried = false, handled = false;
#define EMBOSS_VERIF_ARG(bit, T, field)                                   \
  if constexpr ((kMask & (1 << bit)) != 0) {                              \
    if (x.argt == bit) {                                                  \
      const T a = static_cast<T>(x.field);                                \
      could = V::CouldWriteValue(a); tried = v.TryToWrite(a); handled = true; \
    }                                                                     \
  }
  EMBOSS_VERIF_ARG(0, ::std::int8_t, sv)
  EMBOSS_VERIF_ARG(1, ::std::uint8_t, uv)
  EMBOSS_VERIF_ARG(2, ::std::int16_t, sv)
  EMBOSS_VERIF_ARG(3, ::std::uint16_t, uv)
  EMBOSS_VERIF_ARG(4, ::std::int32_t, sv)
  EMBOSS_VERIF_ARG(5, ::std::uint32_t, uv)
  EMBOSS_VERIF_ARG(6, ::std::int64_t, sv)
  EMBOSS_VERIF_ARG(7, ::std::uint64_t, uv)
#undef EMBOSS_VERIF_ARG
  if (!handled) { ::std::puts(" argt-not-compiled"); return; }
  After(v, x, could, tried);
}

template <class V>
static void RunBcd(const V &v, const Ctx &x) {
  bool cmp; Before(v, &cmp);
  const typename V::ValueType a = static_cast<typename V::ValueType>(x.uv);
  const bool could = V::CouldWriteValue(a);
  const bool tried = v.TryToWrite(a);
  After(v, x, could, tried);
}

template <class V>
static void RunFlag(const V &v, const Ctx &x) {
  bool cmp; Before(v, &cmp);
  const bool a = x.uv != 0;
  const bool could = V::CouldWriteValue(a);
  const bool tried = v.TryToWrite(a);
  After(v, x, could, tried);
}

template <class V, class U>
static void RunFloat(const V &v, const Ctx &x) {
  bool cmp; Before(v, &cmp);
  const U bits = static_cast<U>(x.uv);
  typename V::ValueType a;
  ::std::memcpy(&a, &bits, sizeof a);
  const bool could = V::CouldWriteValue(a);
  const bool tried = v.TryToWrite(a);
  After(v, x, could, tried);
}

template <class V, class E>
static void RunEnum(const V &v, const Ctx &x) {
  bool cmp; Before(v, &cmp);
  using Under = typename ::std::underlying_type<E>::type;
  const E a = static_cast<E>(::std::is_signed<Under>::value ? static_cast<Under>(x.sv)
                                                            : static_cast<Under>(x.uv));
  const bool could = V::CouldWriteValue(a);
  const bool tried = v.TryToWrite(a);
  After(v, x, could, tried);
}
"""

MAIN = r"""
static int HexVal(int ch) {
  if (ch >= '0' && ch <= '9') return ch - '0';
  if (ch >= 'a' && ch <= 'f') return ch - 'a' + 10;
  return -1;
}

int main() {
  static char line[1 << 12];
  while (::std::fgets(line, sizeof line, stdin)) {
    int idx = -1, off = 0;
    char hex[256], argt[8], val[64];
    if (::std::sscanf(line, "%d %d %255s %7s %63s", &idx, &off, hex, argt, val) != 5 ||
        idx < 0 || idx >= kNumConfigs || off < 0) {
      ::std::puts("bad-line");
      ::std::fflush(stdout);
      continue;
    }
    ::std::size_t n = 0;
    if (!(hex[0] == '-' && hex[1] == 0)) n = ::std::strlen(hex) / 2;
    // Heap buffer of exactly the stated size: ASan sees every stray byte.
    unsigned char *buf = new unsigned char[n];
    for (::std::size_t i = 0; i < n; ++i)
      buf[i] = static_cast<unsigned char>(HexVal(hex[2 * i]) * 16 + HexVal(hex[2 * i + 1]));
    Ctx x;
    x.buf = buf;
    x.n = n;
    x.o = static_cast< ::std::size_t>(off);
    x.argt = -1;
    static const char *const kNames[8] = {"i8", "u8", "i16", "u16", "i32", "u32", "i64", "u64"};
    for (int i = 0; i < 8; ++i) if (::std::strcmp(kNames[i], argt) == 0) x.argt = i;
    x.sv = ::std::strtoll(val, nullptr, 10);
    x.uv = ::std::strtoull(val, nullptr, 10);
    if (val[0] == '-') x.uv = static_cast<unsigned long long>(x.sv);
    else x.sv = static_cast<long long>(x.uv);
    kConfigs[idx](x);
    ::std::fflush(stdout);
    delete[] buf;
  }
  return 0;
}
"""

ORDERER = {"le": "LittleEndianByteOrderer", "be": "BigEndianByteOrderer", "null": "NullByteOrderer"}
ENUM_CPP = {"enumu8": "EU8", "enumu16": "EU16", "enumu32": "EU32", "enumu64": "EU64",
            "enums8": "ES8", "enums16": "ES16", "enums32": "ES32", "enums64": "ES64"}


def shape_of(cfg):
    return cfg._replace(o=0)


def normalise_align(cfgs, r):
    """One alignment per shape (keeps the number of template instantiations down)."""
    chosen = {}
    out = []
    for c in cfgs:
        key = shape_of(c)._replace(align=0)
        if key not in chosen:
            chosen[key] = c.align
        out.append(c._replace(align=chosen[key]))
    return list(dict.fromkeys(out))


def argt_mask(cfg, argts):
    m = 0
    for t in argts:
        m |= 1 << ARGT.index(t)
    return m


def config_function(i, cfg, argts):
    ty, k, c, o, order, mode, align = cfg
    buf_t = "es::ContiguousBuffer<unsigned char, %d, 0>" % align
    bb_t = "es::BitBlock<es::%s<%s>, %d>" % (ORDERER[order], buf_t, c)
    params = "es::FixedSizeViewParameters<%d, es::AllValuesAreOk>" % k
    bv_t = "BB" if mode == "direct" else "es::OffsetBitBlock<BB>"
    if ty == "uint":
        view_t, call = "ep::UIntView<P, BV>", "RunInt<%d>(v, x)" % argt_mask(cfg, argts)
    elif ty == "int":
        view_t, call = "ep::IntView<P, BV>", "RunInt<%d>(v, x)" % argt_mask(cfg, argts)
    elif ty == "bcd":
        view_t, call = "ep::BcdView<P, BV>", "RunBcd(v, x)"
    elif ty == "flag":
        view_t, call = "ep::FlagView<P, BV>", "RunFlag(v, x)"
    elif ty == "float":
        view_t, call = "ep::FloatView<P, BV>", "RunFloat<V, ::std::uint%d_t>(v, x)" % k
    else:
        e = ENUM_CPP[ty]
        view_t, call = "es::EnumView<%s, P, BV>" % e, "RunEnum<V, %s>(v, x)" % e
    make = "bb" if mode == "direct" else "bb.GetOffsetStorage<1, 0>(x.o, %d)" % k
    return ("static void Cfg%d(const Ctx &x) {  // %s\n"
            "  using BB = %s;\n  using P = %s;\n  using BV = %s;\n  using V = %s;\n"
            "  const BB bb{%s{x.buf, x.n}};\n  const V v{%s};\n  %s;\n}\n" % (
                i, " ".join(map(str, cfg)), bb_t, params, bv_t, view_t, buf_t, make, call))


def cpp_source(configs, argts_of):
    parts = [PRELUDE]
    for i, cfg in enumerate(configs):
        parts.append(config_function(i, cfg, argts_of[i]))
    parts.append("static const int kNumConfigs = %d;\n" % len(configs))
    parts.append("static void (*const kConfigs[])(const Ctx &) = {%s};\n" % ", ".join(
        "Cfg%d" % i for i in range(len(configs))))
    parts.append(MAIN)
    return "".join(parts)


# ------------------------------------------------------------------ spec oracle
def container_value(order, data):
    """Value of the container taken in the field's byte order (language reference:
    'byte_order'): little endian = first byte least significant."""
    if order == "be":
        return int.from_bytes(bytes(data), "big")
    return int.from_bytes(bytes(data), "little")


def container_bytes(order, nbytes, value):
    return list(value.to_bytes(nbytes, "big" if order == "be" else "little"))


def field_bits(o, w, x):
    return (x // 2 ** o) % 2 ** w


def twos(w, d):
    return d - 2 ** w if d >= 2 ** (w - 1) else d


def bcd_digits(w, d):
    return [(d >> (4 * i)) & 0xF for i in range((w + 3) // 4)]


def decode(ty, w, d):
    """(ok, logical value) of the w covered bits d, per the documentation."""
    if ty == "uint" or ty == "float" or ty == "flag":
        return True, d
    if ty == "int":
        return True, twos(w, d)
    if ty == "bcd":
        ds = bcd_digits(w, d)
        return all(x <= 9 for x in ds), sum(x * 10 ** i for i, x in enumerate(ds))
    _uw, signed = enum_info(ty)
    return True, twos(w, d) if signed else d


def encode(ty, w, v):
    """The w-bit pattern that represents logical value v, or None if not representable."""
    if ty == "flag":
        return v if v in (0, 1) else None
    if ty in ("uint", "float") or (is_enum(ty) and not enum_info(ty)[1]):
        return v if 0 <= v < 2 ** w else None
    if ty == "int" or is_enum(ty):
        return v % 2 ** w if -(2 ** (w - 1)) <= v < 2 ** (w - 1) else None
    if ty == "bcd":
        if v < 0:
            return None
        n = (w + 3) // 4
        if v >= 10 ** n:
            return None
        d = 0
        for i in range(n):
            d |= ((v // 10 ** i) % 10) << (4 * i)
        return d if d < 2 ** w else None
    raise ValueError(ty)


def spec(cfg, data, argt, value):
    """Expected observable behaviour per the property statements of C02 and C03.
    Returns dict(cmp, ok, rd, could, tried, after, ok2, rd2); rd/rd2 None if incomplete."""
    ty, k, c, o, order, mode, _align = cfg
    complete = len(data) * 8 == c and o + k <= c
    could = encode(ty, k, value) is not None
    out = {"cmp": complete, "could": could}
    if not complete:
        out.update(ok=False, rd=None, tried=False, after=list(data), ok2=False, rd2=None)
        return out
    x = container_value(order, data)
    ok, rd = decode(ty, k, field_bits(o, k, x))
    out.update(ok=ok, rd=rd)
    if not could:
        out.update(tried=False, after=list(data), ok2=ok, rd2=rd)
        return out
    e = encode(ty, k, value)
    x2 = x - field_bits(o, k, x) * 2 ** o + e * 2 ** o
    ok2, rd2 = decode(ty, k, e)
    out.update(tried=True, after=container_bytes(order, c // 8, x2), ok2=ok2, rd2=rd2)
    return out


def spec_line(cfg, data, argt, value):
    s = spec(cfg, data, argt, value)
    def b(x):
        return "1" if x else "0"
    def r(x):
        return "-" if x is None else str(x)
    def h(d):
        return "".join("%02x" % x for x in d) or "-"
    return "cmp=%s ok=%s rd=%s could=%s try=%s after=%s ok2=%s rd2=%s" % (
        b(s["cmp"]), b(s["ok"]), r(s["rd"]), b(s["could"]), b(s["tried"]), h(s["after"]),
        b(s["ok2"]), r(s["rd2"]))


def parse_line(line):
    d = {}
    for tok in line.split():
        if "=" in tok:
            a, b = tok.split("=", 1)
            d[a] = b
    return d


READ_KEYS = ("cmp", "ok", "rd")
WRITE_KEYS = ("could", "try", "after", "ok2", "rd2")


# ------------------------------------------------------------------ generators
def all_types():
    return ["uint", "int", "bcd", "flag", "float"] + sorted(ENUM_CPP)


def types_for(k):
    ts = ["uint", "int", "bcd"]
    if k == 1:
        ts.append("flag")
    if k in (32, 64):
        ts.append("float")
    for e in sorted(ENUM_CPP):
        if k <= enum_info(e)[0]:
            ts.append(e)
    return ts


def triples():
    """All (c, o, w) with o + w <= c."""
    for c in range(8, 65, 8):
        for w in range(1, c + 1):
            for o in range(0, c - w + 1):
                yield c, o, w


def boundary_triples():
    for c in range(8, 65, 8):
        for w in range(1, c + 1):
            yield c, 0, w
            if c - w:
                yield c, c - w, w


def pick_align(r, c, mode):
    if r.random() < 0.5:
        return 1
    return r.choice([2, 4, 8])


MUST_WIDTHS = (1, 2, 3, 4, 5, 7, 8, 9, 12, 15, 16, 17, 24, 31, 32, 33, 48, 63, 64)


def quick_configs(r, n_random=40):
    """Boundary offsets (o = 0 and o = c - w) for every container size and — per seed — the
    boundary widths plus a random ~45% of the other widths (the thorough tier enumerates
    all); one (type, byte order, alignment) per (c, w), weighted so that every type is
    frequent; a direct-mode shape per (c, type); the special shapes; random interior triples."""
    out = []
    core = ["uint", "int", "bcd"]
    chosen = {}
    for c, o, w in boundary_triples():
        if (c, w) not in chosen:
            keep = w in MUST_WIDTHS or w >= c - 1 or r.random() < 0.45
            ts = types_for(w)
            ty = r.choice(core) if r.random() < 0.6 else r.choice(ts)
            order = "null" if c == 8 and r.random() < 0.34 else r.choice(["le", "be"])
            chosen[(c, w)] = (ty, order) if keep else None
        if chosen[(c, w)] is None:
            continue
        ty, order = chosen[(c, w)]
        out.append(Config(ty, w, c, o, order, "offset", pick_align(r, c, "offset")))
    for c in range(8, 65, 8):
        for ty in types_for(c):
            if is_enum(ty) and r.random() < 0.6:
                continue
            order = "null" if c == 8 and r.random() < 0.3 else r.choice(["le", "be"])
            out.append(Config(ty, c, c, 0, order, "direct", pick_align(r, c, "direct")))
    allt = list(triples())
    for _ in range(n_random):
        c, o, w = r.choice(allt)
        ty = r.choice(types_for(w))
        order = "null" if c == 8 and r.random() < 0.3 else r.choice(["le", "be"])
        out.append(Config(ty, w, c, o, order, "offset", pick_align(r, c, "offset")))
    out.extend(special_configs())
    out.extend(enum_grid(r))
    return normalise_align([c for c in dict.fromkeys(out) if config_valid(c)], r)


def enum_grid(r):
    """EnumView over the whole (w, uw, W) grid — field width, width of the enum's underlying
    type, width of the bit view's value type (W = least_width(c)) — for both signednesses:
    w = uw = W, w = uw < W (the case repaired by the ToBitViewValue fix), w < uw <= W,
    w <= W < uw (value type narrower than the enum), at the top of the container and at a
    random offset."""
    out = []
    for sign in "su":
        for uw in (8, 16, 32, 64):
            ty = "enum%s%d" % (sign, uw)
            for c in (8, 16, 24, 32, 40, 64):
                top = min(uw, c)
                ks = {top, max(1, top - 1), r.randint(1, top)}
                if sign == "u" and r.random() < 0.5:
                    ks.discard(max(1, top - 1))
                for k in sorted(ks):
                    order = "null" if c == 8 and r.random() < 0.3 else r.choice(["le", "be"])
                    out.append(Config(ty, k, c, c - k, order, "offset", 1))
                    if c - k > 1:
                        out.append(Config(ty, k, c, r.randint(0, c - k - 1), order, "offset", 1))
    return out


def special_configs():
    out = []
    # flags and floats inside bits, both orders
    for c in (8, 16, 24, 64):
        for o in (0, 3, c - 1):
            for order in ("le", "be"):
                out.append(Config("flag", 1, c, o, order, "offset", 1))
    out.append(Config("flag", 1, 8, 5, "null", "offset", 1))
    for order in ("le", "be"):
        out.append(Config("float", 32, 64, 0, order, "offset", 1))
        out.append(Config("float", 32, 64, 32, order, "offset", 8))
        out.append(Config("float", 32, 40, 5, order, "offset", 1))
        out.append(Config("float", 64, 64, 0, order, "offset", 1))
    # signed enums narrower than their underlying type (candidate finding F14) and at it
    for ty, k, c, o in (("enums8", 4, 8, 0), ("enums8", 4, 8, 4), ("enums8", 8, 16, 4),
                        ("enums8", 8, 8, 0), ("enums16", 9, 16, 3), ("enums16", 16, 32, 16),
                        ("enums32", 24, 24, 0), ("enums64", 33, 40, 7), ("enums64", 64, 64, 0),
                        ("enums16", 8, 8, 0), ("enumu64", 8, 8, 0), ("enumu8", 3, 64, 61)):
        for order in ("le", "be"):
            out.append(Config(ty, k, c, o, order, "offset", 1))
    for ty, k in (("enums8", 8), ("enums16", 8), ("enums16", 16), ("enums32", 24),
                  ("enums32", 32), ("enums64", 40), ("enums64", 64), ("enumu64", 8)):
        for order in ("le", "be"):
            out.append(Config(ty, k, k, 0, order, "direct", 1))
    # field not inside its container (OffsetBitBlock ok_ == false)
    for ty in ("uint", "int", "bcd"):
        out.append(Config(ty, 8, 8, 1, "le", "offset", 1))
        out.append(Config(ty, 5, 16, 12, "be", "offset", 1))
        out.append(Config(ty, 64, 64, 200, "le", "offset", 1))
    return out


def thorough_configs(r):
    """Every (c, o, w) triple x {uint, int, bcd} x {le, be} (+ null for c == 8), plus the
    other types on every triple where they exist (one byte order per (c, w, type), drawn per
    seed)."""
    out = list(quick_configs(r))
    other_order = {}
    for c, o, w in triples():
        for order in ["le", "be"] + (["null"] if c == 8 else []):
            for ty in ("uint", "int", "bcd"):
                out.append(Config(ty, w, c, o, order, "offset", pick_align(r, c, "offset")))
        for ty in types_for(w)[3:]:
            if (c, w, ty) not in other_order:
                other_order[(c, w, ty)] = r.choice(["le", "be"])
            out.append(Config(ty, w, c, o, other_order[(c, w, ty)], "offset", 1))
    return normalise_align([c for c in dict.fromkeys(out) if config_valid(c)], r)


def contents_for(cfg, r, n):
    """n container contents: all-zero, all-ones, single-bit walks, sign/BCD boundaries
    placed in the field, random; a few wrong-size buffers."""
    ty, k, c, o, order, mode, _ = cfg
    nb = c // 8
    full = (1 << c) - 1
    vals = [0, full]
    inside = o + k <= c
    if inside:
        fm = ((1 << k) - 1) << o
        pats = [fm, full ^ fm, 1 << o, 1 << (o + k - 1), fm ^ (1 << (o + k - 1)),
                full ^ (1 << (o + k - 1)), full ^ (1 << o)]
        if o > 0:
            pats.append(1 << (o - 1))
        if o + k < c:
            pats.append(1 << (o + k))
        if ty == "bcd":
            nn = (k + 3) // 4
            nines = sum(9 << (4 * i) for i in range(nn)) & ((1 << k) - 1)
            pats.append(nines << o)
            for _ in range(6):
                i = r.randrange(nn)
                d = sum(r.randrange(10) << (4 * j) for j in range(nn))
                d = (d & ~(0xF << (4 * i))) | (r.choice([9, 10, 15, 8]) << (4 * i))
                pats.append(((d & ((1 << k) - 1)) << o) | (r.getrandbits(c) & (full ^ fm)))
            for _ in range(6):
                d = sum(r.randrange(10) << (4 * j) for j in range(nn)) & ((1 << k) - 1)
                pats.append((d << o) | (r.getrandbits(c) & (full ^ fm)))
        if ty == "float":
            for bits in ((0x7F800000, 0x7FC00001, 0xFF800000, 0x80000000, 0x7FA00000, 1) if k == 32 else
                         (0x7FF0000000000000, 0x7FF8000000000001, 0x8000000000000000,
                          0x7FF4000000000000, 1)):
                pats.append((bits << o) | (r.getrandbits(c) & (full ^ fm)))
        vals.extend(pats)
    while len(vals) < n - 2:
        if r.random() < 0.25:
            vals.append(1 << r.randrange(c))
        else:
            vals.append(r.getrandbits(c))
    vals = vals[:n - 2]
    out = [container_bytes("le", nb, v) for v in vals]
    # wrong-size buffers (IsComplete() must be false) — for every byte orderer:
    # NullByteOrderer reports the real storage size since `fix: make a one-byte field without
    # byte order report its real storage size` (before it answered 1 for any non-null buffer,
    # so a 0- or 2-byte buffer was "complete" and the 0-byte one was read past its end)
    out.append([r.getrandbits(8) for _ in range(nb - 1)])
    out.append([r.getrandbits(8) for _ in range(nb + 1)])
    return out


def write_values_for(cfg, argts, r, n):
    """n (argT, value): in-range boundaries, just outside, argument-type min/max, random."""
    ty, k = cfg.ty, cfg.k
    cands = []
    if ty == "flag":
        base = [0, 1]
    elif ty == "float":
        base = [0, 1, (1 << k) - 1, 1 << (k - 1), 0x7FC00001 if k == 32 else 0x7FF8000000000001]
    elif ty == "bcd":
        n4, rem = divmod(k, 4)
        mx = 10 ** n4 * (2 ** rem) - 1
        base = [0, 1, 9, 10, 99, 100, mx, mx - 1, mx + 1, mx + 10, 2 ** k - 1, 2 ** k]
    else:
        base = [0, 1, -1, 2 ** k - 1, 2 ** k, 2 ** k + 1, 2 ** (k - 1) - 1, 2 ** (k - 1),
                2 ** (k - 1) + 1, -(2 ** (k - 1)), -(2 ** (k - 1)) - 1, -(2 ** (k - 1)) + 1,
                2 ** k - 2, -2]
    for t in argts:
        lo, hi = argt_range(t)
        for v in base + ([lo, hi, lo + 1, hi - 1] if ty != "flag" else []):
            if lo <= v <= hi:
                cands.append((t, v))
    cands = list(dict.fromkeys(cands))
    r.shuffle(cands)
    out = cands[:max(0, n - n // 3)]
    while len(out) < n:
        t = r.choice(argts)
        lo, hi = argt_range(t)
        if ty == "flag":
            v = r.randrange(2)
        elif r.random() < 0.6:
            v = r.randrange(-(2 ** k), 2 ** (k + 1))
            if ty in ("bcd",):
                v = r.randrange(0, 10 ** ((k + 3) // 4) + 5)
        else:
            v = r.randrange(lo, hi + 1)
        out.append((t, min(hi, max(lo, v))))
    return out


# ------------------------------------------------------------------ execution
def hexs(d):
    return "".join("%02x" % x for x in d) or "-"


def model_line(cfg, data, argt, value, path):
    return "SCALAR %s %d %d %d %s %s %s %s %s %d" % (
        cfg.ty, cfg.k, cfg.c, cfg.o, cfg.order, cfg.mode, path, hexs(data), argt, value)


def struct_line(cfg, byte_off, store, argt, value, path):
    """STRUCT op: the field's container at byte `byte_off` of the structure's backing store;
    the model answers with the whole store afterwards (`storeTryToWrite`)."""
    return "STRUCT %d %s %s %d %d %d %s %s %s %s %d" % (
        byte_off, hexs(store), cfg.ty, cfg.k, cfg.c, cfg.o, cfg.order, cfg.mode, path, argt, value)


def shape_argts(shape, r):
    if shape.ty in ("uint", "int"):
        return ["i64", "u64", r.choice(ARGT[:6])]
    return native_argts(shape)


def build_cases(cfgs, r, n_per):
    """[(cfg, data, argT, value)] — n_per contents per configuration, one write each."""
    shapes = list(dict.fromkeys(shape_of(c) for c in cfgs))
    argts = {s: shape_argts(s, r) for s in shapes}
    cases = []
    for cfg in cfgs:
        cs = contents_for(cfg, r, n_per)
        ws = write_values_for(cfg, argts[shape_of(cfg)], r, len(cs))
        for d, (t, v) in zip(cs, ws):
            cases.append((cfg, d, t, v))
    return shapes, argts, cases


def execute(shapes, argts, cases, noopt=False, per_tu=60, workers=int(os.environ.get("VERIF_JOBS", "8")), compiler="g++"):
    """Compile the shapes (parallel, ASan+UBSan, EMBOSS_CHECK live), run every case on the
    real templates.  Returns one output line per case; a line starting with `CRASH`
    records a sanitizer report / tripped runtime check / crash on that case."""
    # few, large translation units: the fixed cost per unit (runtime headers + sanitizer
    # instrumentation) is about ten shapes' worth
    n_tus = max(1, min(workers, -(-len(shapes) // per_tu)))
    size = -(-len(shapes) // n_tus)
    tus = [shapes[i:i + size] for i in range(0, len(shapes), size)]
    jobs = []
    for tu in tus:
        jobs.append(dict(src_text=cpp_source(tu, [argts[s] for s in tu]), name="scalar",
                         std="c++17", compiler=compiler,
                         defines=("EMBOSS_NO_OPTIMIZATIONS",) if noopt else ()))
    built = cppbuild.compile_many(jobs, workers=workers)
    for b, log in built:
        if b is None:
            raise common.InfraError("direct-template harness does not compile: " + log[:3000])
    tu_of = {}
    for ti, tu in enumerate(tus):
        for li, s in enumerate(tu):
            tu_of[s] = (ti, li)
    per = [[] for _ in tus]
    for ci, (cfg, d, t, v) in enumerate(cases):
        ti, li = tu_of[shape_of(cfg)]
        per[ti].append((ci, "%d %d %s %s %d" % (li, cfg.o, hexs(d), t, v)))
    out = [None] * len(cases)

    def run_tu(ti):
        todo = per[ti]
        restarts = 0
        while todo:
            res = cppbuild.run(built[ti][0], "\n".join(l for _, l in todo) + "\n", timeout=600)
            if res.kind == "timeout":
                raise common.InfraError("direct-template harness timed out")
            got = res.out.split("\n")
            if got and got[-1] == "":
                got.pop()
            complete = got if res.kind == "ok" else got[:-1] if (got and not got[-1].endswith(" ")
                                                                 and "rd2=" not in got[-1]) else got
            for (ci, _), g in zip(todo, complete):
                out[ci] = g
            if res.kind == "ok":
                if len(complete) != len(todo):
                    raise common.InfraError("harness answered %d lines for %d" % (len(complete), len(todo)))
                return
            k = len(complete)
            if k >= len(todo):
                raise common.InfraError("harness failed after the last line: %r" % res)
            partial = got[k] if len(got) > k else ""
            out[todo[k][0]] = "CRASH %s partial=%r %s" % (
                res.kind, partial, " | ".join(res.err.strip().split("\n")[:3]))
            todo = todo[k + 1:]
            restarts += 1
            if restarts >= 12:
                # the crashing cases recorded so far are reported; do not grind through
                # thousands of restarts of a thoroughly broken build
                for ci, _ in todo:
                    out[ci] = "SKIPPED after %d crashes of this translation unit" % restarts
                return

    import concurrent.futures
    with concurrent.futures.ThreadPoolExecutor(max_workers=workers) as ex:
        list(ex.map(run_tu, range(len(tus))))
    return out


def finding_key(cfg, value):
    """Narrow predicates of the listed open findings (see findings.d/C02.json, C03.json)."""
    if is_enum(cfg.ty) and enum_info(cfg.ty)[1]:
        uw = enum_info(cfg.ty)[0]
        if cfg.k < uw:
            return "signed-enum-in-field-narrower-than-underlying-type"
        # (`signed-enum-negative-value-in-bits-wider-than-field` — k == uw inside a wider
        # container — was repaired by `fix: let a negative value of a signed enum be written
        # to a full-width field inside a wider bits`: no routing, a recurrence is a violation)
    return None
