"""Write-inference half of C03: real `write_inference.py` (through the real front end) vs the
Lean model (`WMETHOD` op of model_c03) vs the independent substitute-and-evaluate oracle, and
the generated virtual-field write methods executed in C++.

A module is one struct with physical integer fields and `let` fields: aliases, alias chains,
ADD/SUB chains (reference on either side, depth 1-4), transforms onto transforms, and the
non-invertible shapes (`x * 2`, `x + y`, `x - x`, `$max(x, 3)`, reference to a parameter,
reference to a constant `let`, `[requires]` on aliases).
"""
import json
import os

from harness.lib import common, cppbuild, emb, scalarcpp as S

from compiler.util import ir_data

FN_NAME = {int(v): v.name for v in ir_data.FunctionMapping}
OPNAME = {"ADDITION": "add", "SUBTRACTION": "sub", "MULTIPLICATION": "mul"}


# ------------------------------------------------------------------ generator
def gen_struct(r, idx):
    """Returns (text, info) — info: physical fields [(name, type, nbytes, offset)]."""
    lines = ['[$default byte_order: "%s"]' % r.choice(["LittleEndian", "BigEndian"]),
             '[(cpp) namespace: "vw%d"]' % idx]
    has_param = r.random() < 0.5
    lines.append("struct Top%s:" % ("(p: UInt:8)" if has_param else ""))
    phys = []
    off = 0
    for i in range(r.randint(2, 4)):
        ty = r.choice(["UInt", "Int"])
        nb = r.choice([1, 1, 2, 2, 3, 4, 8])
        name = "f%d" % i
        lines.append("  %d [+%d] %s %s" % (off, nb, ty, name))
        phys.append((name, ty, nb, off))
        off += nb
    names = [p[0] for p in phys]          # things a let may reference
    writable_guess = list(names)
    lines.append("  let kk = %d" % r.randint(1, 50))
    n_let = r.randint(5, 10)
    for j in range(n_let):
        name = "v%d" % j
        shape = r.random()
        base = r.choice(writable_guess)
        req = ""
        if shape < 0.15:
            expr = base                                     # alias
            if r.random() < 0.3:
                req = "    [requires: this < %d]" % r.randint(50, 5000)
        elif shape < 0.65:
            expr = base                                     # ADD/SUB chain
            for _ in range(r.randint(1, 4)):
                c = str(r.randint(0, 300))
                form = r.randrange(4)
                expr = ["(%s + %s)", "(%s + %s)", "(%s - %s)", "(%s - %s)"][form] % (
                    (expr, c) if form in (0, 2) else (c, expr))
            expr = expr[1:-1]
            if r.random() < 0.15:
                req = "    [requires: this >= %d]" % r.randint(-100, 100)
        else:
            other = r.choice(names)
            expr = r.choice([
                "%s * 2" % base, "%s + %s" % (base, other), "%s - %s" % (base, base),
                "$max(%s, 3)" % base, "p" if has_param else "%s * 1" % base, "%s + kk" % base,
                "kk + 3", "(%s + 1) * 1" % base, "%s + (2 * 3)" % base, "(3 - 1) - %s" % base,
                "%s == 3 ? 1 : 2" % base, "$max(1, 2) + %s" % base])
        lines.append("  let %s = %s" % (name, expr))
        if req:
            lines.append(req)
        names.append(name)
        writable_guess.append(name)
    return "\n".join(lines) + "\n", phys


# ------------------------------------------------------------------ IR walker
class Unmodelled(Exception):
    pass


def strip_name(ref):
    return tuple(ref["path"][-1]["canonical_name"]["object_path"]), len(ref["path"])


def expr_of(e, index):
    """IR JSON expression → model s-expression text (independent walker)."""
    if "constant" in e:
        return "c%d" % int(e["constant"]["value"])
    if "field_reference" in e:
        name, plen = strip_name(e["field_reference"])
        if plen != 1:
            raise Unmodelled("nested reference")
        return "r%d" % index.get(name, 999)
    if "builtin_reference" in e:
        nm = e["builtin_reference"]["canonical_name"]["object_path"][-1]
        return "lv" if nm == "$logical_value" else "l:" + nm.replace(" ", "_")
    if "boolean_constant" in e:
        return "l:bool_%s" % e["boolean_constant"].get("value", False)
    if "constant_reference" in e:
        return "l:constref"
    if "function" in e:
        f = e["function"]
        args = [expr_of(a, index) for a in f.get("args", [])]
        fname = FN_NAME[int(f["function"])] if not isinstance(f["function"], str) else f["function"]
        op = OPNAME.get(fname, fname.lower())
        if len(args) == 1:
            return "( u %s %s )" % (op, args[0])
        if len(args) == 2:
            return "( b %s %s %s )" % (op, args[0], args[1])
        if len(args) == 3:
            return "( t %s %s %s %s )" % (op, args[0], args[1], args[2])
        raise Unmodelled("function of %d arguments" % len(args))
    raise Unmodelled("expression kind %s" % sorted(e))


def py_eval(e, env, lv):
    """Independent evaluator over Python ints; None = not evaluable here."""
    if "constant" in e:
        return int(e["constant"]["value"])
    if "field_reference" in e:
        return env.get(strip_name(e["field_reference"])[0])
    if "builtin_reference" in e:
        nm = e["builtin_reference"]["canonical_name"]["object_path"][-1]
        return lv if nm == "$logical_value" else None
    if "function" in e:
        f = e["function"]
        fname = FN_NAME[int(f["function"])]
        args = [py_eval(a, env, lv) for a in f.get("args", [])]
        if any(a is None for a in args):
            return None
        if fname == "ADDITION":
            return args[0] + args[1]
        if fname == "SUBTRACTION":
            return args[0] - args[1]
        if fname == "MULTIPLICATION":
            return args[0] * args[1]
        if fname == "MAXIMUM":
            return max(args)
        return None
    return None


def real_write_method(f, index):
    wm = f.get("write_method", {})
    if wm.get("physical"):
        return "physical"
    if wm.get("read_only"):
        return "read_only"
    if "alias" in wm:
        return "alias %d" % index.get(strip_name(wm["alias"])[0], 999)
    if "transform" in wm:
        t = wm["transform"]
        return "transform %d %s" % (index.get(strip_name(t["destination"])[0], 999),
                                    expr_of(t["function_body"], index))
    return "none"


# ------------------------------------------------------------------ generated C++ of a transform
CPPT = {"::std::int32_t": "int32", "::std::uint32_t": "uint32",
        "::std::int64_t": "int64", "::std::uint64_t": "uint64"}
TYPE_RANGE = {"int32": (-2 ** 31, 2 ** 31 - 1), "uint32": (0, 2 ** 32 - 1),
              "int64": (-2 ** 63, 2 ** 63 - 1), "uint64": (0, 2 ** 64 - 1)}


def cpp_type_for_range(lo, hi):
    """Independent restatement of the back end's rule (doc comment of
    `_cpp_integer_type_for_range`: int32, uint32, int64, uint64 in that order)."""
    for name in ("int32", "uint32", "int64", "uint64"):
        a, b = TYPE_RANGE[name]
        if a <= lo and hi <= b:
            return name
    return None


def int_range(e):
    t = e.get("type", {}).get("integer")
    if not t:
        return None
    try:
        return int(t["minimum_value"]), int(t["maximum_value"])
    except (KeyError, ValueError):
        return None


def typed_body_of(e):
    """function_body → model expression, the way the back end looks at it: a node typed as a
    constant (`modulus == "infinity"`) is a literal of its `modular_value`."""
    t = e.get("type", {}).get("integer")
    if t and t.get("modulus") == "infinity":
        return "c%d" % int(t["modular_value"])
    if "builtin_reference" in e:
        nm = e["builtin_reference"]["canonical_name"]["object_path"][-1]
        if nm == "$logical_value":
            return "lv"
        raise Unmodelled("builtin " + nm)
    if "function" in e:
        f = e["function"]
        fname = FN_NAME[int(f["function"])]
        if fname in ("ADDITION", "SUBTRACTION") and len(f.get("args", [])) == 2:
            return "( b %s %s %s )" % (OPNAME[fname], typed_body_of(f["args"][0]), typed_body_of(f["args"][1]))
        raise Unmodelled("function " + fname)
    raise Unmodelled("expression kind %s" % sorted(e))


_LIT = __import__("re").compile(
    r"::emboss::support::Maybe</\*\*/(::std::u?int\d+_t)>\(static_cast</\*\*/::std::u?int\d+_t>\("
    r"\(?-?\d+U?LL(?: - 1\))?\)\)")
_LV = "::emboss::support::Maybe</**/decltype(emboss_reserved_local_value)>(emboss_reserved_local_value)"
_OP = __import__("re").compile(r"::emboss::support::(Sum|Difference)</\*\*/([^<>]*)>\(")


def parse_rendered(text, i=0):
    """Template arguments (IntermediateT, ResultT, LeftT, RightT) of every Sum/Difference
    call of a rendered transform, preorder.  Returns (list, end index); raises ValueError."""
    if text.startswith(_LV, i):
        return [], i + len(_LV)
    m = _LIT.match(text, i)
    if m:
        return [], m.end()
    m = _OP.match(text, i)
    if not m:
        raise ValueError("unrecognised rendering at %r" % text[i:i + 80])
    targs = tuple(CPPT.get(x.strip(), x.strip()) for x in m.group(2).split(","))
    a, j = parse_rendered(text, m.end())
    if not text.startswith(", ", j):
        raise ValueError("expected second operand at %r" % text[j:j + 40])
    b, k = parse_rendered(text, j + 2)
    if not text.startswith(")", k):
        raise ValueError("expected ) at %r" % text[k:k + 40])
    return [targs] + a + b, k + 1


def camel(name):
    return "".join(w[:1].upper() + w[1:] for w in name.split("_"))


def rendered_transforms(header):
    """{CamelName: (parameter type, rendered transform text)} of the virtual views that have
    write methods, read off the generated header."""
    import re
    out = {}
    parts = re.split(r"class EmbossReservedVirtual(\w+)View final \{", header)
    for k in range(1, len(parts) - 1, 2):
        body = parts[k + 1]
        m = re.search(r"bool TryToWrite\((::std::u?int\d+_t) emboss_reserved_local_value\) \{(.*?)\n    \}",
                      body, re.S)
        if not m:
            continue
        t = re.search(r"const auto emboss_reserved_local_maybe_new_value = (.*?);\n", m.group(2), re.S)
        if t:
            out[parts[k]] = (CPPT.get(m.group(1), m.group(1)), t.group(1))
    return out


def check_types(chk, text, fields, header, stats, model_exe):
    """Type-selection tie: for every transform virtual field the C++ parameter type and the
    (IntermediateT, ResultT, LeftT, RightT) of every node of the rendered inverse, read off
    the generated header, against the Lean model (`VWRITE`, `cppTypes`) and against the
    independent restatement of the rule applied to the IR's bounds."""
    rend = rendered_transforms(header)
    lines, meta = [], []
    for f in fields:
        wm = f.get("write_method", {})
        nm = f["name"]["name"]["text"]
        if "transform" not in wm or nm.startswith("$"):
            continue
        rng = int_range(f["read_transform"])
        stats["winf_types_fields"] += 1
        if rng is None or camel(nm) not in rend:
            stats["winf_types_unjudged"] += 1
            continue
        param, rtext = rend[camel(nm)]
        try:
            real_types, _ = parse_rendered(rtext)
            body = typed_body_of(wm["transform"]["function_body"])
        except (ValueError, Unmodelled) as e:
            stats["winf_types_unparsed"] += 1
            continue
        # independent expectation from the IR bounds
        def walk(e, acc):
            t = e.get("type", {}).get("integer", {})
            if t.get("modulus") == "infinity" or "function" not in e:
                return acc
            args = e["function"]["args"]
            rs = [int_range(e)] + [int_range(a) for a in args]
            acc.append((cpp_type_for_range(min(r[0] for r in rs), max(r[1] for r in rs)),
                        cpp_type_for_range(*rs[0]), cpp_type_for_range(*rs[1]), cpp_type_for_range(*rs[2])))
            for a in args:
                walk(a, acc)
            return acc
        exp_types = walk(wm["transform"]["function_body"], [])
        exp_param = cpp_type_for_range(*rng)
        chk.count()
        if (param, real_types) != (exp_param, exp_types):
            stats["winf_types_failing"] += 1
            if stats["winf_types_failing"] <= 4:
                chk.violation("input", {"input": text, "kind_of_input": "winf", "field": nm,
                                        "observed": "parameter %s, template arguments %s" % (param, real_types),
                                        "expected": "parameter %s, template arguments %s (type for the hull of "
                                                    "result and operand ranges / for each range)" % (exp_param, exp_types)})
        root = int_range(wm["transform"]["function_body"])
        lines.append("VWRITE %d %d %d %s" % (rng[0], rng[1], rng[0], body))
        meta.append((nm, param, real_types, root))
    if model_exe and lines:
        for (nm, param, real_types, root), ans in zip(meta, common.Model(model_exe).ask(lines)):
            d = S.parse_line(ans)
            mt = [] if d.get("types") in (None, "-") else [tuple(x.split("/")) for x in d["types"].split(",")]
            mr = d.get("range")
            if d.get("param") != param or mt != real_types or mr != "%d..%d" % root:
                stats["winf_types_model_disagreements"] += 1
                if stats["winf_types_model_disagreements"] <= 4:
                    chk.violation("correspondence", {
                        "input": text, "kind_of_input": "winf", "field": nm,
                        "observed": "parameter %s, template arguments %s, range of the inverse %d..%d" % (
                            (param, real_types) + root),
                        "model": ans,
                        "expected": "generated header agrees with the restated type rule; the model differs",
                        "theorem_or_correspondence": "model_c03 VWRITE (cppTypes/rangeOf) vs header_generator"},
                        found_input=False)


# ------------------------------------------------------------------ the check
def check_module(chk, text, stats, model_exe):
    """Front-end level comparison for one module.  Returns (ir, struct dict, index) or None."""
    ir, errors, exc = emb.compile_text({"m.emb": text})
    chk.count()
    if exc is not None or errors or ir is None:
        stats["winf_rejected"] += 1
        return None
    d = emb.ir_to_dict(ir)
    struct = d["module"][0]["type"][0]
    fields = struct["structure"]["field"]
    index = {tuple(f["name"]["canonical_name"]["object_path"]): i for i, f in enumerate(fields)}
    descr, unmodelled = [], set()
    for i, f in enumerate(fields):
        if "read_transform" not in f:
            descr.append("P")
            continue
        req = any(a["name"]["text"] == "requires" for a in f.get("attribute", []))
        try:
            descr.append("%s %s" % ("V1" if req else "V0", expr_of(f["read_transform"], index)))
        except Unmodelled:
            descr.append("V0 l:unmodelled")
            unmodelled.add(i)
    lines = ["WMETHOD %d %s" % (i, " ; ".join(descr)) for i in range(len(fields))]
    answers = common.Model(model_exe).ask(lines) if model_exe else [None] * len(lines)
    for i, f in enumerate(fields):
        name = f["name"]["name"]["text"]
        try:
            real = real_write_method(f, index)
        except Unmodelled:
            stats["winf_unmodelled"] += 1
            continue
        kind = real.split()[0]
        stats["winf_method:" + kind] += 1
        chk.count()
        # (b) independent oracle: substitute and evaluate
        failing = None
        if kind == "transform":
            t = f["write_method"]["transform"]
            dest = strip_name(t["destination"])[0]
            for v in (-1000, -1, 0, 1, 2, 7, 100, 255, 256, 65535, 10 ** 6, -(2 ** 40), 2 ** 62):
                u = py_eval(t["function_body"], {}, v)
                if u is None:
                    failing = "function_body not evaluable at v=%d" % v
                    break
                back = py_eval(f["read_transform"], {dest: u}, None)
                if back != v:
                    failing = "v=%d: inverse gives %r, read_transform then gives %r" % (v, u, back)
                    break
            chk.nontrivial(("winf", text, name))
        elif kind == "alias":
            tgt = strip_name(f["write_method"]["alias"])[0]
            rt = f.get("read_transform", {})
            if "field_reference" not in rt or strip_name(rt["field_reference"])[0] != tgt:
                failing = "alias target is not the field the virtual field reads"
            chk.nontrivial(("winf", text, name))
        if failing:
            stats["winf_failing"] += 1
            if stats["winf_failing"] <= 8:
                chk.violation("input", {"input": text, "kind_of_input": "winf", "field": name,
                                        "observed": real, "expected": failing})
        if answers[i] is not None and i not in unmodelled and answers[i] != real:
            stats["winf_model_disagreements"] += 1
            if not failing and stats["winf_model_disagreements"] <= 6:
                chk.violation("correspondence", {
                    "input": text, "kind_of_input": "winf", "field": name, "op": lines[i],
                    "observed": real, "model": answers[i],
                    "expected": "real write method passes the substitute-and-evaluate oracle; the model differs",
                    "theorem_or_correspondence": "model_c03 WMETHOD vs write_inference._add_write_method"},
                    found_input=False)
        if answers[i] == "out-of-fuel":
            stats["winf_out_of_fuel"] += 1
    return ir, struct, index


# ------------------------------------------------------------------ C++ level
def phys_cfg(ty, nb, order):
    return S.Config("uint" if ty == "UInt" else "int", nb * 8, nb * 8, 0, order, "direct", 1)


def resolve_alias(f, byname):
    """Follow `alias` write methods (an alias accessor returns the target's own view)."""
    for _ in range(30):
        wm = f.get("write_method", {})
        if "alias" not in wm:
            return f
        f = byname[strip_name(wm["alias"])[0]]
    return f


def candidate_values(f, byname, physmap, r):
    """Values for `view.<f>().TryToWrite(v)`: around both ends of the field's own range, the
    extremes of the C++ parameter type, small numbers, random in range / in type — all values
    of the parameter type (an out-of-type value would be converted by the call itself)."""
    tgt = resolve_alias(f, byname)
    key = ("Top", tgt["name"]["name"]["text"])
    if key in physmap:
        ty, nb, _ = physmap[key]
        k = 8 * nb
        lo, hi = (0, 2 ** k - 1) if ty == "UInt" else (-(2 ** (k - 1)), 2 ** (k - 1) - 1)
        a, b = (-2 ** 63, 2 ** 64 - 1)          # IntT is a template parameter there
    else:
        rng = int_range(tgt["read_transform"])
        if rng is None:
            return []
        lo, hi = rng
        a, b = TYPE_RANGE[cpp_type_for_range(lo, hi)]
    vals = [lo - 1, lo, lo + 1, hi - 1, hi, hi + 1, a, b, a + 1, b - 1, 0, 1, -1, (lo + hi) // 2,
            lo - 2 ** 31, hi + 2 ** 31, lo - 2 ** 32, hi + 2 ** 32]
    vals += [r.randint(lo, hi) for _ in range(3)] + [r.randint(a, b) for _ in range(2)]
    vals += [r.randint(lo - 300, hi + 300) for _ in range(2)]
    out = [v for v in dict.fromkeys(vals) if a <= v <= b]
    head, tail = out[:8], out[8:]
    r.shuffle(tail)
    return head + tail[:6]


WINF_DRIVER = r"""
static void Hex(const unsigned char *p, size_t n) { for (size_t i = 0; i < n; ++i) std::printf("%02x", p[i]); if (!n) std::printf("-"); }
template <class T> static typename std::enable_if<std::is_signed<T>::value>::type PrintInt(T x) { std::printf("%lld", static_cast<long long>(x)); }
template <class T> static typename std::enable_if<!std::is_signed<T>::value>::type PrintInt(T x) { std::printf("%llu", static_cast<unsigned long long>(x)); }
template <class F> static void Run(F f, unsigned char *buf, size_t n, bool neg, long long sv, unsigned long long uv) {
  // the value is a value of the parameter type (the harness guarantees it), so the implicit
  // conversion at the call keeps it
  const bool could = neg ? f.CouldWriteValue(sv) : f.CouldWriteValue(uv);
  const bool tried = neg ? f.TryToWrite(sv) : f.TryToWrite(uv);
  std::printf("could=%d try=%d after=", could, tried); Hex(buf, n);
  const bool ok = f.Ok();
  std::printf(" ok=%d rd=", ok);
  if (ok) PrintInt(f.Read()); else std::printf("-");
  std::printf("\n");
}
int main() {
  static char line[4096];
  while (std::fgets(line, sizeof line, stdin)) {
    int fi; char hex[1024]; char val[64];
    if (std::sscanf(line, "%d %1023s %63s", &fi, hex, val) != 3) { std::puts("bad-line"); continue; }
    size_t n = (hex[0] == '-') ? 0 : std::strlen(hex) / 2;
    unsigned char *buf = new unsigned char[n];
    for (size_t i = 0; i < n; ++i) { unsigned x; std::sscanf(hex + 2 * i, "%2x", &x); buf[i] = static_cast<unsigned char>(x); }
    const bool neg = val[0] == '-';
    const long long sv = neg ? std::strtoll(val, nullptr, 10) : 0;
    const unsigned long long uv = neg ? 0 : std::strtoull(val, nullptr, 10);
    auto view = ::vw@IDX@::MakeTopView(@PARAM@buf, n);
    switch (fi) {
"""


def cpp_part(chk, mods, stats, model_exe):
    """mods: [(idx, text, ir, struct, index, phys)].  Executes the generated virtual write
    methods and compares with the oracle built from the IR + the scalar spec, and with the
    Lean model (VWRITE per transform hop, SCALAR at the physical end)."""
    hdir = os.path.join(common.scratch(), "winfhdr")
    os.makedirs(hdir, exist_ok=True)
    r = common.rng("C03-winf-cpp")
    jobs, plans = [], []
    for idx, text, ir, struct, index, phys in mods:
        header, herr = emb.generate_header(ir)
        if header is None or herr:
            raise common.InfraError("header generation failed for winf module: %r" % (herr,))
        with open(os.path.join(hdir, "w%d.emb.h" % idx), "w") as f:
            f.write(header)
        fields = struct["structure"]["field"]
        check_types(chk, text, fields, header, stats, model_exe)
        order = "le" if "LittleEndian" in text.split("\n")[0] else "be"
        physmap = {("Top", n): (ty, nb, off) for n, ty, nb, off in phys}
        size = sum(p[2] for p in phys)
        byname = {tuple(f["name"]["canonical_name"]["object_path"]): f for f in fields}
        # `let v1 = v0` with v0 virtual: the generated accessor v1() does not compile
        # (`decltype(this->v0())()` needs the deleted default constructor of the virtual view
        # class) — a C07 matter, reported there.  Neither it nor anything reading through it
        # is called here.
        def refs_of(e, acc):
            if isinstance(e, dict):
                if "field_reference" in e:
                    acc.add(strip_name(e["field_reference"])[0])
                for x in e.values():
                    refs_of(x, acc)
            elif isinstance(e, list):
                for x in e:
                    refs_of(x, acc)
            return acc
        broken = set()
        for f in fields:
            wm = f.get("write_method", {})
            rt = f.get("read_transform", {})
            if "field_reference" in rt and "read_transform" in byname.get(
                    strip_name(rt["field_reference"])[0], {}) and \
                    not any(a["name"]["text"] == "requires" for a in f.get("attribute", [])):
                broken.add(tuple(f["name"]["canonical_name"]["object_path"]))
        changed = True
        while changed:
            changed = False
            for f in fields:
                key = tuple(f["name"]["canonical_name"]["object_path"])
                if key not in broken and refs_of(f.get("read_transform", {}), set()) & broken:
                    broken.add(key)
                    changed = True
        targets = []
        for f in fields:
            wm = f.get("write_method", {})
            nm = f["name"]["name"]["text"]
            if tuple(f["name"]["canonical_name"]["object_path"]) in broken:
                stats["winf_cpp_alias_of_virtual_skipped"] += 1
                continue
            if ("transform" in wm or "alias" in wm) and not nm.startswith("$"):
                targets.append(nm)
        has_param = "(p: UInt:8)" in text
        src = [cppbuild.CHECK_PRELUDE, "#include <cstdint>\n#include <cstdlib>\n#include <cstring>\n#include <type_traits>\n",
               '#include "w%d.emb.h"\n' % idx,
               WINF_DRIVER.replace("@IDX@", str(idx)).replace("@PARAM@", "7, " if has_param else "")]
        for i, nm in enumerate(targets):
            src.append("      case %d: Run(view.%s(), buf, n, neg, sv, uv); break;\n" % (i, nm))
        src.append("      default: std::puts(\"bad-field\");\n    }\n    std::fflush(stdout);\n"
                   "    delete[] buf;\n  }\n  return 0;\n}\n")
        jobs.append(dict(src_text="".join(src), name="winf%d" % idx, std="c++17", extra=("-I" + hdir,)))
        plans.append((idx, text, targets, byname, physmap, size, order))
    built = cppbuild.compile_many(jobs, workers=8)
    for (b, log), plan in zip(built, plans):
        if b is None:
            raise common.InfraError("winf driver does not compile:\n%s\n%s" % (plan[1], log[:3000]))
    for (binary, _), (idx, text, targets, byname, physmap, size, order) in zip(built, plans):
        lines, meta = [], []
        for pin in pinned_winf(chk):      # pinned inputs (open findings, fixed ones, corpus)
            if pin.get("emb") == text and pin["field"] in targets:
                lines.append("%d %s %d" % (targets.index(pin["field"]), pin["data"], pin["value"]))
                meta.append((pin["field"], list(bytes.fromhex(pin["data"])), pin["value"]))
        for i, nm in enumerate(targets):
            for v in candidate_values(byname[("Top", nm)], byname, physmap, r):
                data = [r.getrandbits(8) for _ in range(size)]
                if r.random() < 0.15:      # truncated buffer: some field's bytes are missing
                    data = data[:r.randrange(size)]
                lines.append("%d %s %d" % (i, S.hexs(data), v))
                meta.append((nm, data, v))
        res = cppbuild.run(binary, "\n".join(lines) + "\n", timeout=300)
        out = res.out.split("\n")
        if res.kind != "ok":
            k = len([o for o in out if o.startswith("could=")])
            nm, data, v = meta[min(k, len(meta) - 1)]
            chk.violation("input", {"input": text, "kind_of_input": "winf", "field": nm,
                                    "data": S.hexs(data), "value": v,
                                    "observed": "%s: %s" % (res.kind, res.err[-1200:]),
                                    "expected": "no sanitizer report / tripped runtime check"})
            out = [o for o in out if o.startswith("could=")]    # judge what was answered before
        preds = model_predict(model_exe, meta, byname, physmap, order) if model_exe else [None] * len(meta)
        for (nm, data, v), rl, pred in zip(meta, out, preds):
            chk.count()
            exp = expect_virtual_write(nm, data, v, byname, physmap, order)
            stats["winf_cpp_cases"] += 1
            if len(data) < size:
                stats["winf_cpp_truncated_buffer"] += 1
            if exp is None:
                stats["winf_cpp_unjudged"] += 1
                continue
            stats["winf_cpp_" + rl.split(" after=")[0].replace(" ", ",")] += 1
            failing = rl != exp
            if failing:
                stats["winf_cpp_failing"] += 1
                if stats["winf_cpp_failing"] <= 6:
                    chk.violation("input", {"input": text, "kind_of_input": "winf", "field": nm,
                                            "data": S.hexs(data), "value": v, "observed": rl,
                                            "expected": exp})
            if pred is not None and rl.split(" ok=")[0] != pred:
                stats["winf_cpp_model_disagreements"] += 1
                if not failing and stats["winf_cpp_model_disagreements"] <= 4:
                    chk.violation("correspondence", {
                        "input": text, "kind_of_input": "winf", "field": nm, "data": S.hexs(data),
                        "value": v, "observed": rl, "model": pred,
                        "expected": "generated write method satisfies the oracle here; the model differs",
                        "theorem_or_correspondence": "model_c03 VWRITE+SCALAR vs generated virtual write methods"},
                        found_input=False)


def pinned_winf(chk):
    """Pinned write-inference inputs: findings of this property (open *and* fixed: a fixed
    entry suppresses nothing, its input stays in reach) and corpus/C03/*.json."""
    out = []
    for k in chk.known:
        pin = k.get("input") if isinstance(k.get("input"), dict) else {}
        if k.get("property") == chk.prop and pin.get("kind") == "winf":
            out.append(pin)
    cdir = os.path.join(common.VERIF, "corpus", chk.prop)
    if os.path.isdir(cdir):
        for fn in sorted(os.listdir(cdir)):
            if fn.endswith(".json"):
                pin = json.load(open(os.path.join(cdir, fn)))
                if pin.get("kind") == "winf" and pin not in out:
                    out.append(pin)
    return out


def model_predict(model_exe, cases, byname, physmap, order):
    """`could=… try=… after=…` predicted by the Lean model for each (field, buffer, value):
    one VWRITE per transform hop (range check + the inverse as the C++ computes it), SCALAR
    for the physical field at the end; `[requires]` through the oracle's evaluator (ValueIsOk
    is abstract in the model).  None = not predicted."""
    st = [{"cur": byname[("Top", nm)], "u": v, "done": None} for nm, _data, v in cases]
    model = common.Model(model_exe)
    for _round in range(24):
        lines, who = [], []
        for i, s_ in enumerate(st):
            if s_["done"] is not None:
                continue
            data = cases[i][1]
            # walk requires / aliases down to the next transform or the physical field
            while True:
                cur = s_["cur"]
                key = ("Top", cur["name"]["name"]["text"])
                if key in physmap:
                    ty, nb, off = physmap[key]
                    u = s_["u"]
                    cont = data[off:off + nb] if off + nb <= len(data) else []
                    argt = "i64" if -2 ** 63 <= u < 2 ** 63 else "u64"
                    lines.append(S.model_line(phys_cfg(ty, nb, order), cont, argt, u, "opt"))
                    who.append((i, "phys"))
                    break
                rq = requires_ok(cur, s_["u"])
                if rq is None:
                    s_["done"] = "unpredicted"
                    break
                if not rq:
                    s_["done"] = "refused"
                    break
                wm = cur["write_method"]
                if "alias" in wm:
                    s_["cur"] = byname[strip_name(wm["alias"])[0]]
                    continue
                if "transform" in wm:
                    rng = int_range(cur["read_transform"])
                    try:
                        body = typed_body_of(wm["transform"]["function_body"])
                    except Unmodelled:
                        rng = None
                    if rng is None:
                        s_["done"] = "unpredicted"
                        break
                    lines.append("VWRITE %d %d %d %s" % (rng[0], rng[1], s_["u"], body))
                    who.append((i, "transform"))
                    break
                s_["done"] = "unpredicted"
                break
        if not lines:
            break
        for (i, kind), ans in zip(who, model.ask(lines)):
            s_ = st[i]
            d = S.parse_line(ans)
            if kind == "phys":
                if "could" not in d or d.get("try") not in ("0", "1"):
                    s_["done"] = "model: " + ans
                    continue
                data = cases[i][1]
                after = list(data)
                if d["try"] == "1":
                    ty, nb, off = physmap[("Top", s_["cur"]["name"]["name"]["text"])]
                    after[off:off + nb] = list(bytes.fromhex(d["after"]))
                s_["done"] = "could=%s try=%s after=%s" % (d["could"], d["try"], S.hexs(after))
            else:
                if d.get("check") == "0":
                    s_["done"] = "refused"
                elif d.get("check") == "1" and d.get("inv", "").lstrip("-").isdigit():
                    s_["u"] = int(d["inv"])
                    s_["cur"] = byname[strip_name(s_["cur"]["write_method"]["transform"]["destination"])[0]]
                else:
                    s_["done"] = "model: " + ans
    out = []
    for s_, (nm, data, v) in zip(st, cases):
        if s_["done"] == "refused":
            out.append("could=0 try=0 after=%s" % S.hexs(data))
        elif s_["done"] in (None, "unpredicted"):
            out.append(None)
        else:
            out.append(s_["done"])
    return out


def requires_ok(f, v):
    """Evaluate a `[requires: this <op> const]` attribute of the shapes the generator writes."""
    for a in f.get("attribute", []):
        if a["name"]["text"] != "requires":
            continue
        fn = a["value"]["expression"]["function"]
        name = FN_NAME[int(fn["function"])]
        c = py_eval(fn["args"][1], {}, None)
        if c is None:
            return None
        if name == "LESS":
            return v < c
        if name == "GREATER_OR_EQUAL":
            return v >= c
        return None
    return True


def expect_virtual_write(nm, data, v, byname, physmap, order):
    """Oracle for `view.<nm>().TryToWrite(v)`: follow alias/transform down to the physical
    field with the *independent* evaluator, apply the scalar spec there, then read back."""
    f = byname[("Top", nm)]
    u = v
    chain_ok = True
    cur = f
    hops = 0
    while ("Top", cur["name"]["name"]["text"]) not in physmap:
        hops += 1
        if hops > 20:
            return None
        rq = requires_ok(cur, u)
        if rq is None:
            return None
        chain_ok = chain_ok and rq
        wm = cur["write_method"]
        if "alias" in wm:
            cur = byname[strip_name(wm["alias"])[0]]
        elif "transform" in wm:
            u = py_eval(wm["transform"]["function_body"], {}, u)
            if u is None:
                return None
            cur = byname[strip_name(wm["transform"]["destination"])[0]]
        else:
            return None
    ty, nb, off = physmap[("Top", cur["name"]["name"]["text"])]
    cfg = phys_cfg(ty, nb, order)
    present = off + nb <= len(data)        # the destination's bytes are in the buffer
    cont = data[off:off + nb] if present else []
    sp = S.spec(cfg, cont, "i64", u)
    could = chain_ok and sp["could"]
    tried = could and present
    after = list(data)
    if tried:
        after[off:off + nb] = sp["after"]
    # read back the virtual field from the resulting buffer; a dependency whose [requires]
    # fails makes the dependent value unknown (not Ok)
    BAD = object()

    def read_field(fd, buf, depth=0):
        key = ("Top", fd["name"]["name"]["text"])
        if key in physmap:
            t2, n2, o2 = physmap[key]
            if o2 + n2 > len(buf):
                return BAD                  # bytes missing: the field (and what reads it) is not Ok()
            s2 = S.spec(phys_cfg(t2, n2, order), buf[o2:o2 + n2], "i64", 0)
            return s2["rd"]
        if depth > 20:
            return None
        env = {}

        def refs(e):
            if isinstance(e, dict):
                if "field_reference" in e:
                    k2 = strip_name(e["field_reference"])[0]
                    if k2 in byname:
                        env[k2] = read_field(byname[k2], buf, depth + 1)
                for x in e.values():
                    refs(x)
            elif isinstance(e, list):
                for x in e:
                    refs(x)
        refs(fd["read_transform"])
        if any(x is None for x in env.values()):
            return None
        if any(x is BAD for x in env.values()):
            return BAD
        val = py_eval(fd["read_transform"], env, None)
        if val is None:
            return None
        rq = requires_ok(fd, val)
        if rq is None:
            return None
        return val if rq else BAD
    rd = read_field(f, after)
    if rd is None:
        return None
    ok = rd is not BAD
    return "could=%d try=%d after=%s ok=%d rd=%s" % (could, tried, S.hexs(after), ok, rd if ok else "-")


def run_winf(chk, tier, model_exe, stats, budget="run"):
    r = common.rng("C03-winf-" + tier + budget)
    n = 60 if tier == "quick" else 600
    n_cpp = 6 if tier == "quick" else 24
    mods = []
    # the example of the source comment first
    corpus = [('[$default byte_order: "LittleEndian"]\n[(cpp) namespace: "vw9000"]\nstruct Top:\n'
               '  0 [+4] Int f0\n  let v0 = 2 + ((3 - f0) - 10)\n  let v1 = v0\n  let v2 = v1 + 1\n',
               [("f0", "Int", 4, 0)], 9000)]
    for pin in pinned_winf(chk):   # modules of the pinned write-inference inputs (findings, corpus)
        if all(pin["emb"] != c[0] for c in corpus):
            corpus.append((pin["emb"], [tuple(p) for p in pin.get("phys", [["f0", "UInt", 4, 0]])],
                           int(pin["emb"].split('namespace: "vw')[1].split('"')[0])))
    n_cpp += len(corpus)
    types_only, n_types_only = 0, (16 if tier == "quick" else 10 ** 6)
    for i in range(n):
        if i < len(corpus):
            text, phys, idx = corpus[i]
        else:
            text, phys = gen_struct(r, i)
            idx = i
        got = check_module(chk, text, stats, model_exe)
        if got is not None and len(mods) < n_cpp:
            ir, struct, index = got
            mods.append((idx, text, ir, struct, index, phys))
        elif got is not None and types_only < n_types_only:
            # type-selection tie only (header generated, not compiled)
            types_only += 1
            header, herr = emb.generate_header(got[0])
            if header is not None and not herr:
                check_types(chk, text, got[1]["structure"]["field"], header, stats, model_exe)
    stats["winf_modules"] = n
    if mods:
        cpp_part(chk, mods, stats, model_exe)
    chk.sample({"winf_module": mods[-1][1]} if mods else {}, limit=6)


def replay_winf(rec):
    text = rec["input"]
    ir, errors, exc = emb.compile_text({"m.emb": text})
    print("front end:", repr(exc), emb.error_summary(errors))
    if ir is None:
        return 0
    d = emb.ir_to_dict(ir)
    fields = d["module"][0]["type"][0]["structure"]["field"]
    index = {tuple(f["name"]["canonical_name"]["object_path"]): i for i, f in enumerate(fields)}
    for f in fields:
        try:
            print(f["name"]["name"]["text"], "->", real_write_method(f, index))
        except Unmodelled as e:
            print(f["name"]["name"]["text"], "-> unmodelled", e)
    print("expected:", rec.get("expected"))
    return 0
