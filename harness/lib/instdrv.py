"""Instantiate-everything C++ driver for a generated Emboss header (C07's tie).

From the front end's IR (JSON form) of a module, emit a translation unit that names every
generated view class and alias, every Make*View overload, every field accessor and
`has_` method (recursively through nested structures and arrays), every virtual-field view,
every documented method of the leaf views (doc/cpp-reference.md), the enum helpers, the text
methods, and `static_assert`s the static constants against the values the front end computed.

Only documented API is used, so that a compile error is the header's, not the driver's.
"""
import re

from harness.lib import cppgen


class Mod:
    def __init__(self, ir_dict, index=0):
        self.ir = ir_dict
        self.m = ir_dict["module"][index]
        self.file = self.m.get("source_file_name", "")
        self.types = {}          # (module_file, object_path tuple) -> (type dict, module dict)
        for mod in ir_dict["module"]:
            f = mod.get("source_file_name", "")
            for t, _anc in cppgen.walk_types(mod):
                self.types[(f, tuple(t["name"]["canonical_name"]["object_path"]))] = (t, mod)

    def find(self, ref):
        cn = ref["canonical_name"]
        return self.types.get((cn.get("module_file", ""), tuple(cn["object_path"])))

    def cpp_name(self, t, mod):
        ns = cppgen.module_namespace(mod) if mod.get("source_file_name", "") else ["emboss", "prelude"]
        return "::" + "::".join(ns + list(t["name"]["canonical_name"]["object_path"]))


def mangle(path):
    return "_".join(path)


def kind_of_type(t):
    if "structure" in t:
        return "bits" if t.get("addressable_unit") == 1 else "struct"
    if "enumeration" in t:
        return "enum"
    return "external"


def int_type_for_range(lo, hi):
    for size in (32, 64):
        if lo >= -(2 ** (size - 1)) and hi <= 2 ** (size - 1) - 1:
            return "::std::int%d_t" % size
        if lo >= 0 and hi <= 2 ** size - 1:
            return "::std::uint%d_t" % size
    return None


def cpp_int_literal(v):
    if v == -(1 << 63):
        return "(-9223372036854775807LL - 1)"
    if v >= (1 << 63):
        return "%dULL" % v
    return "%dLL" % v


class Driver:
    def __init__(self, ir_dict, main, traits=True, use_equals=True, force_equals=False):
        self.mod = Mod(ir_dict)
        self.main = main
        self.traits = traits
        self.use_equals = use_equals
        self.force_equals = force_equals      # also on structures with parameters (open finding)
        self._unsafe = {}
        self._c_textout, self._c_textin = {}, {}
        self.force = set()                    # names of open findings NOT to steer around
        self.out = []
        self.static = []
        self.funcs = []
        self.emitted = set()
        self.stats = {"views": 0, "fields": 0, "virtuals": 0, "arrays": 0, "enums": 0, "constants": 0,
                      "params": 0, "aliases": 0}

    # ------------------------------------------------------------- leaves
    def leaf_reads(self, e, writable, textable=True):
        s = ["(void)%s.Ok();" % e, "(void)%s.IsComplete();" % e, "(void)%s.IsAggregate();" % e,
             "if (%s.Ok()) { auto x = %s.Read(); (void)x; auto y = %s.UncheckedRead(); (void)y;" % (e, e, e)]
        if writable:
            s.append("  (void)%s.CouldWriteValue(x); (void)%s.TryToWrite(x); %s.Write(x); %s.UncheckedWrite(x);" % (e, e, e, e))
        s.append("}")
        if self.traits and textable:
            s.append("(void)::emboss::WriteToString(%s);" % e)
            if writable:
                s.append('(void)::emboss::UpdateFromText(%s, ::std::string("0"));' % e)
        return s

    def use_type_expr(self, tdict, e, writable, depth, in_bits=False):
        """Statements using a view expression `e` of an (atomic or array) type."""
        if "array_type" in tdict:
            self.stats["arrays"] += 1
            a = "a%d" % depth
            s = ["{ auto %s = %s;" % (a, e), "(void)%s.Ok(); (void)%s.IsComplete(); (void)%s.ElementCount();" % (a, a, a),
                 "(void)%s.IsAggregate();" % a]
            base = tdict
            while "array_type" in base:
                base = base["array_type"]["base_type"]
            bfound = self.mod.find(base["atomic_type"]["reference"]) if "atomic_type" in base else None
            if self.traits:      # (arrays of parameterised structures too: fixed by a37c4e1)
                s.append("(void)::emboss::WriteToString(%s);" % a)
            if not in_bits or "bits-iter" in self.force:      # open finding `iterate-array-inside-bits`
                s.append("for (auto it = %s.begin(); it != %s.end(); ++it) { (void)*it; }" % (a, a))
                s.append("for (auto it = %s.rbegin(); it != %s.rend(); ++it) { (void)*it; }" % (a, a))
            s.append("if (%s.ElementCount() > 0) {" % a)
            s += self.use_type_expr(tdict["array_type"]["base_type"], "%s[0]" % a, writable, depth + 1, in_bits)
            s.append("} }")
            return s
        ref = tdict["atomic_type"]["reference"]
        found = self.mod.find(ref)
        if found is None:
            return ["(void)%s.Ok();" % e]
        t, mod = found
        k = kind_of_type(t)
        if k in ("struct", "bits"):
            fn = self.use_fn(t, mod)
            return ["%s(%s);" % (fn + ("_w" if writable else "_r"), e)]
        if k == "enum":
            return self.leaf_reads(e, writable)
        return self.leaf_reads(e, writable)          # prelude externals: UInt/Int/Bcd/Flag/Float

    def equals_unsafe(self, t, seen=()):
        """Open finding `equals-on-structure-with-parameters`: Equals()/UncheckedEquals() of a
        structure that has runtime parameters (or contains one that has) does not compile."""
        # fixed by a37c4e1: Equals()/UncheckedEquals() are used on every structure (no steering any more;
        # reverting the fix makes every module with a parameterised structure fail to compile)
        return False
        key = id(t)
        if key in self._unsafe:
            return self._unsafe[key]
        if key in seen:
            return False
        r = bool(t.get("runtime_parameter"))
        if not r and "structure" in t:
            for f in t["structure"].get("field", []):
                ty = f.get("type")
                while ty and "array_type" in ty:
                    ty = ty["array_type"]["base_type"]
                if ty and "atomic_type" in ty:
                    found = self.mod.find(ty["atomic_type"]["reference"])
                    if found and "structure" in found[0] and self.equals_unsafe(found[0], seen + (key,)):
                        r = True
                        break
        self._unsafe[key] = r
        return r

    def _transitive(self, t, local, cache, seen=()):
        key = id(t)
        if key in cache:
            return cache[key]
        if key in seen:
            return False
        r = local(t)
        if not r and "structure" in t:
            for f in t["structure"].get("field", []):
                ty = f.get("type")
                while ty and "array_type" in ty:
                    ty = ty["array_type"]["base_type"]
                if ty and "atomic_type" in ty:
                    found = self.mod.find(ty["atomic_type"]["reference"])
                    if found and "structure" in found[0] and self._transitive(found[0], local, cache, seen + (key,)):
                        r = True
                        break
        cache[key] = r
        return r

    def text_out_unsafe(self, t):
        """Former finding `text-output-of-array-of-parameterized-structures` (fixed by a37c4e1): no steering."""
        return False

        def local(x):
            for f in x.get("structure", {}).get("field", []):
                ty = f.get("type")
                if ty and "array_type" in ty:
                    while "array_type" in ty:
                        ty = ty["array_type"]["base_type"]
                    found = self.mod.find(ty["atomic_type"]["reference"]) if "atomic_type" in ty else None
                    if found and found[0].get("runtime_parameter"):
                        return True
            return False
        return self._transitive(t, local, self._c_textout)

    def text_in_unsafe(self, t):
        """Former finding `text-input-of-writable-virtual-enum-field` (fixed by d48a2f1): no steering."""
        return False

        def local(x):
            for f in x.get("structure", {}).get("field", []):
                if "read_transform" in f and "transform" in f.get("write_method", {}) and \
                        "enumeration" in f["read_transform"].get("type", {}):
                    return True
            return False
        return self._transitive(t, local, self._c_textin)

    # ---------------------------------------------------------- structures
    def use_fn(self, t, mod):
        path = t["name"]["canonical_name"]["object_path"]
        fn = "use_" + re.sub(r"\W", "_", mod.get("source_file_name", "") or "prelude") + "__" + mangle(path)
        key = fn
        if key in self.emitted:
            return fn
        self.emitted.add(key)
        for writable in (False, True):
            body = self.struct_body(t, mod, writable)
            self.funcs.append("template <class V> static void %s%s(V v) {\n  %s\n}\n" % (
                fn, "_w" if writable else "_r", "\n  ".join(body)))
        return fn

    def struct_body(self, t, mod, writable):
        units = "Bits" if t.get("addressable_unit") == 1 else "Bytes"
        s = ["(void)v.Ok(); (void)v.IsComplete(); (void)v.SizeIsKnown(); (void)v.IsAggregate();",
             "if (v.SizeIsKnown()) (void)v.SizeIn%s();" % units, "(void)v.BackingStorage();",
             "(void)v.Equals(v); (void)v.UncheckedEquals(v);" if (self.use_equals and not self.equals_unsafe(t)) else "",
             "(void)v.IntrinsicSizeIn%s().Ok(); if (v.IntrinsicSizeIn%s().Ok()) (void)v.IntrinsicSizeIn%s().Read();" % (units, units, units),
             "(void)V::MaxSizeIn%s().Read(); (void)V::MinSizeIn%s().Read();" % (units, units)]
        if writable and units == "Bytes":        # documented for `struct` views only
            s.append("if (v.Ok()) { v.CopyFrom(v); v.UncheckedCopyFrom(v); } (void)v.TryToCopyFrom(v);")
        if self.traits:
            if not self.text_out_unsafe(t):
                s.append("(void)::emboss::WriteToString(v); (void)::emboss::WriteToString(v, ::emboss::MultilineText());")
            if writable and not self.text_in_unsafe(t):
                s.append('(void)::emboss::UpdateFromText(v, ::std::string("{}"));')
        for sub in t.get("subtype", []) or []:
            if "enumeration" in sub:
                # the `using <Enum> = ...;` inside the view class
                s.append("{ typename V::%s e = static_cast<typename V::%s>(0); (void)e; }" % (
                    sub["name"]["name"]["text"], sub["name"]["name"]["text"]))
        for f in t["structure"].get("field", []):
            s += self.field_uses(t, f, writable)
        return s

    def field_uses(self, t, f, writable):
        nm = f["name"]["name"]["text"]
        if f["name"].get("is_anonymous"):
            return []
        cpp = {"$size_in_bits": "IntrinsicSizeInBits", "$size_in_bytes": "IntrinsicSizeInBytes",
               "$max_size_in_bits": "MaxSizeInBits", "$min_size_in_bits": "MinSizeInBits",
               "$max_size_in_bytes": "MaxSizeInBytes", "$min_size_in_bytes": "MinSizeInBytes"}.get(nm, nm)
        s = ["(void)v.has_%s().Known(); (void)v.has_%s().ValueOr(false);" % (cpp, cpp)]
        self.stats["fields"] += 1
        wm = f.get("write_method", {})
        if "read_transform" in f:
            self.stats["virtuals"] += 1
            if "alias" in wm:
                self.stats["aliases"] += 1
                # `IsComplete()` is documented for views of physical fields only: leave it out when the alias
                # names a virtual field of this structure (the view returned is that field's virtual view)
                path = wm["alias"].get("path", [])
                target = path[-1].get("canonical_name", {}).get("object_path", [None])[-1] if len(path) == 1 else None
                virtual_target = any(g["name"]["name"]["text"] == target and "read_transform" in g
                                     for g in t["structure"].get("field", []))
                s.append("(void)v.%s().Ok(); (void)v.%s().IsAggregate();" % (cpp, cpp))
                if not virtual_target:
                    s.append("(void)v.%s().IsComplete();" % cpp)
                return s
            e = "v.%s()" % cpp
            s += ["(void)%s.Ok(); (void)%s.IsAggregate();" % (e, e),
                  "if (%s.Ok()) { auto x = %s.Read(); (void)x; auto y = %s.UncheckedRead(); (void)y;" % (e, e, e)]
            if writable and "transform" in wm:
                s.append("  (void)%s.CouldWriteValue(x); (void)%s.TryToWrite(x); %s.Write(x); %s.UncheckedWrite(x);" % (e, e, e, e))
            s.append("}")
            if self.traits:
                s.append("(void)::emboss::WriteToString(%s);" % e)
            return s
        s += self.use_type_expr(f["type"], "v.%s()" % cpp, writable, 0, in_bits=(t.get("addressable_unit") == 1))
        return s

    # ------------------------------------------------------------ constants
    def constants(self, t, mod):
        """static_asserts of the static constants against the IR values."""
        if not ("structure" in t):
            return
        if t.get("runtime_parameter"):
            pass
        view = self.view_type(t, mod)
        for f in t["structure"].get("field", []):
            if "read_transform" not in f or "alias" in f.get("write_method", {}):
                continue
            nm = f["name"]["name"]["text"]
            cpp = {"$size_in_bits": "IntrinsicSizeInBits", "$size_in_bytes": "IntrinsicSizeInBytes",
                   "$max_size_in_bits": "MaxSizeInBits", "$min_size_in_bits": "MinSizeInBits",
                   "$max_size_in_bytes": "MaxSizeInBytes", "$min_size_in_bytes": "MinSizeInBytes"}.get(nm, nm)
            rt = f["read_transform"]
            ex = f.get("existence_condition", {})
            exists_const = ex.get("type", {}).get("boolean", {}).get("value") is True or \
                ex.get("boolean_constant", {}).get("value") is True
            ty = rt.get("type", {})
            if not exists_const:
                continue
            if "integer" in ty and ty["integer"].get("modulus") == "infinity":
                v = int(ty["integer"]["modular_value"])
                self.static.append('static_assert(%s::%s().Read() == %s, "%s");' % (
                    view, cpp, cpp_int_literal(v), nm))
                self.stats["constants"] += 1
                if nm in ("$size_in_bytes", "$size_in_bits"):
                    self.static.append('static_assert(%s::SizeIn%s() == %s, "size");' % (
                        view, "Bytes" if nm.endswith("bytes") else "Bits", cpp_int_literal(v)))
            elif "boolean" in ty and "value" in ty["boolean"]:
                self.static.append('static_assert(%s::%s().Read() == %s, "%s");' % (
                    view, cpp, "true" if ty["boolean"]["value"] else "false", nm))
                self.stats["constants"] += 1
            elif "enumeration" in ty and "value" in ty["enumeration"]:
                found = self.mod.find(ty["enumeration"]["name"])
                if found:
                    en = self.mod.cpp_name(*found)
                    self.static.append('static_assert(%s::%s().Read() == static_cast<%s>(%s), "%s");' % (
                        view, cpp, en, cpp_int_literal(int(ty["enumeration"]["value"])), nm))
                    self.stats["constants"] += 1

    def view_type(self, t, mod, writer=False):
        name = self.mod.cpp_name(t, mod)
        if t.get("addressable_unit") == 1:
            # `bits`: only usable over a BitBlock
            ns, _, base = name.rpartition("::")
            size = fixed_size(t)
            size = 8 if size is None else max(8, (size + 7) // 8 * 8)
            return ("%s::Generic%sView< ::emboss::support::BitBlock< ::emboss::support::LittleEndianByteOrderer<"
                    " ::emboss::support::ReadWriteContiguousBuffer>, %d>>" % (ns, base, size))
        return name + ("Writer" if writer else "View")

    # --------------------------------------------------------------- main
    def param_args(self, t):
        args = []
        for p in t.get("runtime_parameter", []) or []:
            ty = p.get("type", {})
            if "enumeration" in ty:
                found = self.mod.find(ty["enumeration"]["name"])
                args.append("static_cast<%s>(0)" % (self.mod.cpp_name(*found) if found else "int"))
            else:
                args.append("0")
            self.stats["params"] += 1
        return args

    def build(self, prelude=""):
        m = self.mod.m
        body = []
        for t, anc in cppgen.walk_types(m):
            k = kind_of_type(t)
            cpp = self.mod.cpp_name(t, m)
            if k == "enum":
                self.stats["enums"] += 1
                body.append("{ %s e = static_cast<%s>(0); (void)e;" % (cpp, cpp))
                for v in t["enumeration"].get("value", [])[:0]:
                    pass
                if self.traits:
                    body.append("  (void)TryToGetNameFromEnum(e); (void)EnumIsKnown(e); "
                                '(void)TryToGetEnumFromName("x", &e); ::std::ostringstream os; os << e; }')
                else:
                    body.append("}")
                continue
            if k == "external":
                continue
            self.stats["views"] += 1
            fn = self.use_fn(t, m)
            self.constants(t, m)
            args = self.param_args(t)
            pa = "".join(a + ", " for a in args)
            ns, _, base = cpp.rpartition("::")
            if k == "struct":
                body += [
                    "{ ::std::vector<unsigned char> buf(256, 0);",
                    "  auto w = %s::Make%sView(%sbuf.data(), buf.size()); %s_w(w); %s_r(w);" % (ns, base, pa, fn, fn),
                    "  auto w2 = %s::Make%sView(%s&buf); %s_r(w2);" % (ns, base, pa, fn),
                    "  auto w3 = %s::MakeAligned%sView<unsigned char, 1>(%sbuf.data(), buf.size()); %s_r(w3);" % (ns, base, pa, fn),
                    "  const unsigned char *cp = buf.data();",
                    "  auto r = %s::Make%sView(%scp, buf.size()); %s_r(r);" % (ns, base, pa, fn),
                    "  %sWriter ww(%sbuf.data(), buf.size()); %s_w(ww);" % (cpp, pa, fn),
                    "  %sView rv(%scp, buf.size()); %s_r(rv);" % (cpp, pa, fn),
                    "  %sView rv2(ww); rv = ww; (void)rv2; %sWriter dflt; (void)dflt.Ok();" % (cpp, cpp),
                    ("  (void)ww.Equals(rv); (void)rv.UncheckedEquals(ww);" if (self.use_equals and not self.equals_unsafe(t)) else "") +
                    " if (rv.Ok()) (void)ww.TryToCopyFrom(rv);",
                    "}"]
            else:
                vt = self.view_type(t, m)
                size = fixed_size(t)
                nbytes = 1 if size is None else max(1, (size + 7) // 8)
                body += [
                    "{ ::std::vector<unsigned char> buf(%d, 0);" % nbytes,
                    "  %s bv(%s::emboss::support::BitBlock< ::emboss::support::LittleEndianByteOrderer<"
                    " ::emboss::support::ReadWriteContiguousBuffer>, %d>(::emboss::support::ReadWriteContiguousBuffer("
                    "buf.data(), buf.size())));" % (vt, pa, nbytes * 8),
                    "  %s_w(bv); %s_r(bv);" % (fn, fn), "}"]
        head = [prelude, '#include "%s.h"' % self.main, "#include <sstream>", "#include <string>", "#include <vector>"]
        if self.traits:
            head.append('#include "runtime/cpp/emboss_text_util.h"')
        return "\n".join(head) + "\n" + "\n".join(self.funcs) + "\n" + "\n".join(self.static) + \
            "\nint main() {\n  " + "\n  ".join(body) + "\n  return 0;\n}\n"


def fixed_size(t):
    for a in cppgen.attr_list(t):
        if a["name"]["text"] == "fixed_size_in_bits" and "expression" in a.get("value", {}):
            return cppgen.const_int(a["value"]["expression"])
    return None


def is_const_type(e):
    """`ir_util.is_constant_type`: the expression's type is inhabited by a single value — then
    (and only then) `_render_expression(...).is_constant` holds and the back end emits the
    constexpr form of a virtual field."""
    ty = e.get("type", {})
    return ("integer" in ty and ty["integer"].get("modulus") == "infinity") or \
        ("boolean" in ty and "value" in ty["boolean"]) or ("enumeration" in ty and "value" in ty["enumeration"])


def is_static_expr(e):
    """No field reference anywhere in the expression (so the back end emits a constexpr view)."""
    if isinstance(e, dict):
        if "field_reference" in e:
            return False
        return all(is_static_expr(v) for k, v in e.items() if k != "type")
    if isinstance(e, list):
        return all(is_static_expr(v) for v in e)
    return True
