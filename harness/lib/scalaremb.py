"""Real generated headers for random .emb modules with scalar fields of every type, in
structs and in `bits`, both byte orders (shared by C02 and C03).

Ties the *view-type selection* of the C++ back end (`_get_cpp_type_reader_of_field`,
`_get_cpp_view_type_for_physical_type`: which view template, which kBits, BitBlock size,
byte orderer, bit offset, enum underlying type) to the model: for every leaf field the
expected (type, k, c, o, byte order, direct/offset) is derived here from the .emb text we
generated, the field is read and written through the generated accessors, and the result is
compared with the Lean model's `SCALAR` answer and judged by the spec oracle.  The whole
structure buffer is observed, so bytes outside the field's container must be unchanged.
"""
import collections
import os

from harness.lib import common, cppbuild, emb, scalarcheck, scalarcpp as S

Leaf = collections.namedtuple("Leaf", "cpp cfg byte_off")   # cfg: scalarcpp.Config


ENUMS = [
    # name, attributes, values, model type
    ("EnumDefault", "", [("AAA", 1), ("BBB", 200)], "enumu64"),
    ("EnumNeg", "", [("NEG", -5), ("POS", 7)], "enums64"),
    ("EnumSignedEight", "  [maximum_bits: 8]\n  [is_signed: true]\n", [("NEG", -1), ("POS", 1)], "enums8"),
    ("EnumSignedSixteen", "  [maximum_bits: 16]\n  [is_signed: true]\n", [("NEG", -300)], "enums16"),
    ("EnumSignedThirtyTwo", "  [maximum_bits: 32]\n", [("NEG", -70000)], "enums32"),
    ("EnumUnsignedEight", "  [maximum_bits: 8]\n", [("MAX", 255)], "enumu8"),
    ("EnumUnsignedSixteen", "  [maximum_bits: 16]\n", [("MAX", 65535)], "enumu16"),
    ("EnumUnsignedThirtyTwo", "  [maximum_bits: 32]\n  [is_signed: false]\n", [("MAX", 1)], "enumu32"),
]
ENUM_OF_TY = {e[3]: e[0] for e in ENUMS}
EMB_TYPE = {"uint": "UInt", "int": "Int", "bcd": "Bcd", "flag": "Flag", "float": "Float"}


def emb_type(ty):
    return EMB_TYPE.get(ty) or ENUM_OF_TY[ty]


def gen_module(r, idx, default_order):
    """Returns (text, [Leaf], struct size in bytes)."""
    lines = []
    if default_order:
        lines.append('[$default byte_order: "%s"]' % default_order)
    lines.append('[(cpp) namespace: "vt%d"]' % idx)
    for name, attrs, values, _ty in ENUMS:
        lines.append("enum %s:" % name)
        if attrs:
            lines.append(attrs.rstrip("\n"))
        for n, v in values:
            lines.append("  %s = %d" % (n, v))
    leaves = []
    bits_defs = []
    struct_lines = []
    off = 0
    n_fields = r.randint(5, 9)
    nbits = 0
    for fi in range(n_fields):
        kind = r.random()
        order = default_order or "Null"
        override = None
        if default_order and r.random() < 0.45:
            override = "BigEndian" if default_order == "LittleEndian" else "LittleEndian"
            order = override
        oname = {"LittleEndian": "le", "BigEndian": "be", "Null": "null"}[order]
        if kind < 0.45:
            # a `bits` block of 1..8 bytes (1 byte only when there is no byte order)
            cbytes = r.randint(1, 8) if default_order else 1
            c = cbytes * 8
            bname = "BitsBlock%d" % nbits
            nbits += 1
            bl = ["bits %s:" % bname]
            o = 0
            j = 0
            while o < c:
                w = min(c - o, r.choice([1, 1, 2, 3, 4, 5, 7, 8, 9, 12, 16, 17, 24, 31, 32, 33, 64]))
                cands = [t for t in S.types_for(w) if t != "float" or w in (32, 64)]
                ty = r.choice(["uint", "int", "bcd"]) if r.random() < 0.5 else r.choice(cands)
                if w == 1 and r.random() < 0.5:
                    ty = "flag"
                fname = "a%d" % j
                bl.append("  %d [+%d] %s %s" % (o, w, emb_type(ty), fname))
                leaves.append(Leaf("f%d().%s()" % (fi, fname),
                                   S.Config(ty, w, c, o, oname, "offset", 1), off))
                o += w
                j += 1
            bits_defs.append("\n".join(bl))
            struct_lines.append("  %d [+%d] %s f%d" % (off, cbytes, bname, fi))
            if override:
                struct_lines.append('    [byte_order: "%s"]' % override)
            off += cbytes
        else:
            nbytes = r.randint(1, 8) if default_order else 1
            w = nbytes * 8
            cands = [t for t in S.types_for(w) if t != "flag"]
            ty = r.choice(["uint", "int", "bcd"]) if r.random() < 0.4 else r.choice(cands)
            struct_lines.append("  %d [+%d] %s f%d" % (off, nbytes, emb_type(ty), fi))
            if override:
                struct_lines.append('    [byte_order: "%s"]' % override)
            leaves.append(Leaf("f%d()" % fi, S.Config(ty, w, w, 0, oname, "direct", 1), off))
            off += nbytes
    text = "\n".join(lines + bits_defs + ["struct Top:"] + struct_lines) + "\n"
    return text, leaves, off


def driver_source(idx, leaves, argts):
    parts = [S.PRELUDE, '#include "m%d.emb.h"\n' % idx]
    for i, leaf in enumerate(leaves):
        ty, k = leaf.cfg.ty, leaf.cfg.k
        if ty in ("uint", "int"):
            call = "RunInt<%d>(v, x)" % S.argt_mask(leaf.cfg, argts[i])
        elif ty == "bcd":
            call = "RunBcd(v, x)"
        elif ty == "flag":
            call = "RunFlag(v, x)"
        elif ty == "float":
            call = "RunFloat<V, ::std::uint%d_t>(v, x)" % k
        else:
            call = "RunEnum<V, typename V::ValueType>(v, x)"
        parts.append("static void Cfg%d(const Ctx &x) {  // %s\n"
                     "  const auto view = ::vt%d::MakeTopView(x.buf, x.n);\n"
                     "  const auto v = view.%s;\n  using V = decltype(view.%s);\n  %s;\n}\n" % (
                         i, " ".join(map(str, leaf.cfg)), idx, leaf.cpp, leaf.cpp, call))
    parts.append("static const int kNumConfigs = %d;\n" % len(leaves))
    parts.append("static void (*const kConfigs[])(const Ctx &) = {%s};\n" % ", ".join(
        "Cfg%d" % i for i in range(len(leaves))))
    parts.append(S.MAIN)
    return "".join(parts)


def header_part(chk, prop, tier, model_exe, stats, budget="run"):
    r = common.rng(prop + "-emb-" + tier + budget)
    n_mod = 3 if tier == "quick" else 24
    n_per = 24 if tier == "quick" else 48
    mods = []
    hdir = os.path.join(common.scratch(), "embhdr")
    os.makedirs(hdir, exist_ok=True)
    for idx in range(n_mod):
        order = [None, "LittleEndian", "BigEndian"][idx % 3] if idx else "LittleEndian"
        text, leaves, size = gen_module(r, idx, order)
        ir, errors, exc = emb.compile_text({"m.emb": text})
        if exc is not None or errors or ir is None:
            # the generator only writes modules the language reference allows
            raise common.InfraError("generated module rejected: %r %r\n%s" % (
                exc, emb.error_summary(errors), text))
        header, herr = emb.generate_header(ir)
        if header is None or herr:
            raise common.InfraError("header generation failed: %r\n%s" % (herr, text))
        with open(os.path.join(hdir, "m%d.emb.h" % idx), "w") as f:
            f.write(header)
        argts = [S.shape_argts(l.cfg, r) for l in leaves]
        mods.append((idx, text, leaves, size, argts))
    jobs = [dict(src_text=driver_source(idx, leaves, argts), name="emb%d" % idx, std="c++17",
                 extra=("-I" + hdir,)) for idx, _t, leaves, _s, argts in mods]
    built = cppbuild.compile_many(jobs, workers=8)
    for (b, log), m in zip(built, mods):
        if b is None:
            # a header the compiler emitted does not compile: C07's business, but it would
            # silently remove this tie, so it is an infrastructure failure here
            raise common.InfraError("generated header does not compile:\n%s\n%s" % (m[1], log[:3000]))
    stats["emb_modules"] = len(mods)
    for (idx, text, leaves, size, argts), (binary, _log) in zip(mods, built):
        lines, meta = [], []
        for i, leaf in enumerate(leaves):
            cfg = leaf.cfg
            nb = cfg.c // 8
            cs = S.contents_for(cfg, r, n_per)
            cs = [c for c in cs if len(c) == nb]          # containers of the right size
            ws = S.write_values_for(cfg, argts[i], r, len(cs))
            for cont, (t, v) in zip(cs, ws):
                data = [r.getrandbits(8) for _ in range(size)]
                data[leaf.byte_off:leaf.byte_off + nb] = cont
                lines.append("%d 0 %s %s %d" % (i, S.hexs(data), t, v))
                meta.append((leaf, data, t, v))
        res = cppbuild.run(binary, "\n".join(lines) + "\n", timeout=600)
        out = res.out.split("\n")
        if res.kind != "ok" or len(out) < len(lines):
            k = max(0, len([o for o in out if "rd2=" in o]))
            leaf, data, t, v = meta[min(k, len(meta) - 1)]
            chk.violation("input", {"input": text, "kind_of_input": "emb-module", "field": leaf.cpp,
                                    "data": S.hexs(data), "argt": t, "value": v,
                                    "observed": "%s: %s" % (res.kind, res.err[-1500:]),
                                    "expected": "no sanitizer report / runtime check on a complete structure"})
            continue
        model = None
        if model_exe:
            model = common.Model(model_exe).ask([
                S.struct_line(leaf.cfg, leaf.byte_off, data, t, v, "opt")
                for leaf, data, t, v in meta])
        for j, (leaf, data, t, v) in enumerate(meta):
            chk.count()
            cfg = leaf.cfg
            nb = cfg.c // 8
            cont = data[leaf.byte_off:leaf.byte_off + nb]
            rl = out[j]
            stats["emb:" + cfg.ty] += 1
            # split the observed whole-structure buffer into container and the rest
            d = S.parse_line(rl)
            after = d.get("after", "")
            whole = list(bytes.fromhex(after)) if after not in ("", "-") else []
            outside_ok = (len(whole) == len(data) and whole[:leaf.byte_off] == data[:leaf.byte_off]
                          and whole[leaf.byte_off + nb:] == data[leaf.byte_off + nb:])
            local = rl.replace("after=" + after, "after=" + S.hexs(whole[leaf.byte_off:leaf.byte_off + nb]))
            why = scalarcheck.compare_with_spec(prop, (cfg, cont, t, v), local)
            if not why and prop == "C03" and not outside_ok:
                why = "bytes outside the field's container changed"
            if d.get("cmp") == "1":
                chk.nontrivial(("emb", idx, leaf.cpp))
            fk = S.finding_key(cfg, v)
            if why:
                report = True
                if chk.known_finding(fk) is None:
                    stats["failing_cases"] += 1
                    dedup = ("emb", idx, leaf.cpp, why.split(":")[0])
                    report = dedup not in stats["_reported"] and len(stats["_reported"]) < 12
                    stats["_reported"].add(dedup)
                else:
                    stats["known_finding_cases"] += 1
                if report:
                    chk.violation("input", {"input": text, "kind_of_input": "emb-module",
                                            "field": leaf.cpp, "config": cfg._asdict(),
                                            "data": S.hexs(data), "argt": t, "value": v,
                                            "observed": rl, "expected": why}, key=fk)
            if model is not None:
                keys = scalarcheck.KEYS[prop]
                if scalarcheck.project(model[j], keys) != scalarcheck.project(rl, keys):   # whole store (STRUCT op)
                    stats["model_disagreements"] += 1
                    if not why and stats["model_disagreements"] <= 8:
                        chk.violation("correspondence", {
                            "input": text, "kind_of_input": "emb-module", "field": leaf.cpp,
                            "config": cfg._asdict(), "data": S.hexs(data), "argt": t, "value": v,
                            "observed": rl, "model": model[j],
                            "expected": "the generated view behaves per the spec; the model of the "
                                        "expected view type (from the .emb text) differs",
                            "theorem_or_correspondence": "view-type selection of header_generator vs SCALAR"},
                            found_input=False)
        chk.sample({"emb_module": text[:400], "fields": len(leaves)}, limit=5)


def replay(rec):
    text = rec["input"]
    ir, errors, exc = emb.compile_text({"m.emb": text})
    print("front end:", repr(exc), emb.error_summary(errors))
    if ir is None:
        return 0
    header, herr = emb.generate_header(ir)
    hdir = os.path.join(common.scratch(), "embhdr")
    os.makedirs(hdir, exist_ok=True)
    import re
    idx = int(re.search(r'namespace: "vt(\d+)"', text).group(1))
    with open(os.path.join(hdir, "m%d.emb.h" % idx), "w") as f:
        f.write(header)
    cfg = S.Config(**rec["config"]) if "config" in rec else None
    if cfg is None:
        print("no field recorded")
        return 0
    leaf = Leaf(rec["field"], cfg, 0)
    src = driver_source(idx, [leaf], [[rec["argt"]]])
    b, log = cppbuild.compile_one(src, name="replay", std="c++17", extra=("-I" + hdir,))
    if b is None:
        print("does not compile:", log[:2000])
        return 0
    res = cppbuild.run(b, "0 0 %s %s %d\n" % (rec["data"], rec["argt"], rec["value"]))
    print("real:", res.out.strip(), res.kind, res.err[-500:])
    print("expected:", rec.get("expected"))
    return 0


# ------------------------------------------------------------------ /repo/testdata modules
TESTDATA = ["uint_sizes.emb", "int_sizes.emb", "bcd.emb", "bits.emb", "float.emb", "enum.emb",
            "anonymous_bits.emb", "explicit_sizes.emb", "start_size_range.emb", "alignments.emb",
            "nested_structure.emb", "requires.emb"]
PRELUDE_TY = {"UInt": "uint", "Int": "int", "Bcd": "bcd", "Flag": "flag", "Float": "float"}


def testdata_leaves(ir):
    """Independent walk of the IR of a testdata module: every unconditional, constant-located
    physical scalar field of a parameterless top-level struct, directly or one `bits` level
    down.  Returns (namespace, [(struct name, struct size, [Leaf])]); anything else is skipped."""
    from compiler.util import ir_util
    mod = ir.module[0]
    ns_attr = ir_util.get_attribute(mod.attribute, "namespace")
    if ns_attr is None:
        return None, []
    ns = ns_attr.string_constant.text.strip(":")
    out = []

    def const(e):
        try:
            return ir_util.constant_value(e)
        except Exception:  # noqa: BLE001
            return None

    def scalar_type(field, unit):
        """(model type, k bits) or None."""
        t = field.type
        if not t.has_field("atomic_type") or t.atomic_type.runtime_parameter:
            return None
        size = const(field.location.size)
        if size is None:
            return None
        k = size * unit
        td = ir_util.find_object(t.atomic_type.reference, ir)
        if td.has_field("external"):
            nm = td.name.canonical_name.object_path[-1]
            if td.name.canonical_name.module_file != "" or nm not in PRELUDE_TY:
                return None
            return PRELUDE_TY[nm], k
        if td.has_field("enumeration"):
            mb = ir_util.get_integer_attribute(td.attribute, "maximum_bits")
            sg = ir_util.get_boolean_attribute(td.attribute, "is_signed")
            uw = S.least_width(mb)
            return "enum%s%d" % ("s" if sg else "u", uw), k
        return None

    def usable(field):
        return (not ir_util.field_is_virtual(field) and const(field.existence_condition) is True
                and const(field.location.start) is not None and const(field.location.size) is not None
                and not ir_util.get_attribute(field.attribute, "requires"))

    for td in mod.type:
        if not td.has_field("structure") or td.addressable_unit != 8 or td.runtime_parameter:
            continue
        fields = td.structure.field
        phys = [f for f in fields if not ir_util.field_is_virtual(f)]
        if not phys or not all(usable(f) or const(f.location.start) is not None and
                               const(f.location.size) is not None for f in phys):
            continue
        size = max(const(f.location.start) + const(f.location.size) for f in phys)
        leaves = []
        for f in phys:
            if not usable(f) or f.name.is_anonymous:
                continue
            start, nbytes = const(f.location.start), const(f.location.size)
            bo = ir_util.get_attribute(f.attribute, "byte_order")
            order = {"LittleEndian": "le", "BigEndian": "be", "Null": "null", None: None}[
                bo.string_constant.text if bo else None]
            name = f.name.name.text
            if nbytes < 1 or nbytes > 8 or order is None:
                continue
            if order == "null" and nbytes != 1:
                continue
            st = scalar_type(f, 8)
            if st is not None:
                ty, k = st
                cfg = S.Config(ty, k, k, 0, order, "direct", 1)
                if S.config_valid(cfg):
                    leaves.append(Leaf("%s()" % name, cfg, start))
                continue
            t = f.type
            if t.has_field("atomic_type") and not t.atomic_type.runtime_parameter:
                sub = ir_util.find_object(t.atomic_type.reference, ir)
                if sub.has_field("structure") and sub.addressable_unit == 1 and not sub.runtime_parameter:
                    c = nbytes * 8
                    for g in sub.structure.field:
                        if not usable(g) or g.name.is_anonymous:
                            continue
                        st = scalar_type(g, 1)
                        if st is None:
                            continue
                        ty, k = st
                        cfg = S.Config(ty, k, c, const(g.location.start), order, "offset", 1)
                        if S.config_valid(cfg) and cfg.o + cfg.k <= c:
                            leaves.append(Leaf("%s().%s()" % (name, g.name.name.text), cfg, start))
        if leaves:
            out.append((td.name.name.text, size, leaves))
    return ns, out


def testdata_driver(ns, structs, argts, include):
    parts = [S.PRELUDE, '#include "%s"\n' % include]
    i = 0
    for sname, _size, leaves in structs:
        for leaf in leaves:
            ty, k = leaf.cfg.ty, leaf.cfg.k
            if ty in ("uint", "int"):
                call = "RunInt<%d>(v, x)" % S.argt_mask(leaf.cfg, argts[i])
            elif ty == "bcd":
                call = "RunBcd(v, x)"
            elif ty == "flag":
                call = "RunFlag(v, x)"
            elif ty == "float":
                call = "RunFloat<V, ::std::uint%d_t>(v, x)" % k
            else:
                call = "RunEnum<V, typename V::ValueType>(v, x)"
            parts.append("static void Cfg%d(const Ctx &x) {  // %s.%s\n"
                         "  const auto view = ::%s::Make%sView(x.buf, x.n);\n"
                         "  const auto v = view.%s;\n  using V = decltype(view.%s);\n  %s;\n}\n" % (
                             i, sname, leaf.cpp, ns, sname, leaf.cpp, leaf.cpp, call))
            i += 1
    parts.append("static const int kNumConfigs = %d;\n" % i)
    parts.append("static void (*const kConfigs[])(const Ctx &) = {%s};\n" % ", ".join(
        "Cfg%d" % j for j in range(i)))
    parts.append(S.MAIN)
    return "".join(parts)


def testdata_part(chk, prop, tier, model_exe, stats, budget="run"):
    """Scalar fields of /repo/testdata modules through their generated headers."""
    r = common.rng(prop + "-testdata-" + tier + budget)
    files = TESTDATA if tier == "thorough" else TESTDATA[:6]
    hdir = os.path.join(common.scratch(), "tdhdr")
    os.makedirs(hdir, exist_ok=True)
    jobs, plans = [], []
    for fn in files:
        path = os.path.join(common.REPO, "testdata", fn)
        try:
            text = open(path).read()
        except OSError:
            continue
        ir, errors, exc = emb.compile_text({"testdata/" + fn: text}, main="testdata/" + fn)
        if exc is not None or errors or ir is None:
            stats["testdata_not_compiled"] += 1
            continue
        ns, structs = testdata_leaves(ir)
        if not structs:
            stats["testdata_no_leaves"] += 1
            continue
        header, herr = emb.generate_header(ir)
        if header is None or herr:
            stats["testdata_no_header"] += 1
            continue
        inc = fn + ".h"
        with open(os.path.join(hdir, inc), "w") as f:
            f.write(header)
        flat = [l for _n, _s, ls in structs for l in ls]
        argts = [S.shape_argts(l.cfg, r) for l in flat]
        jobs.append(dict(src_text=testdata_driver(ns, structs, argts, inc), name="td_" + fn[:-4],
                         std="c++17", extra=("-I" + hdir,)))
        plans.append((fn, structs, argts))
    built = cppbuild.compile_many(jobs, workers=4)
    for (binary, log), (fn, structs, argts) in zip(built, plans):
        if binary is None:
            stats["testdata_driver_not_compiled"] += 1
            chk.extra.setdefault("testdata_compile_errors", []).append(fn + ": " + log[:300])
            continue
        lines, meta = [], []
        i = 0
        for sname, size, leaves in structs:
            for leaf in leaves:
                cfg = leaf.cfg
                nb = cfg.c // 8
                cs = [c for c in S.contents_for(cfg, r, 16) if len(c) == nb]
                ws = S.write_values_for(cfg, argts[i], r, len(cs))
                for cont, (t, v) in zip(cs, ws):
                    data = [r.getrandbits(8) for _ in range(size)]
                    data[leaf.byte_off:leaf.byte_off + nb] = cont
                    lines.append("%d 0 %s %s %d" % (i, S.hexs(data), t, v))
                    meta.append((fn, sname, leaf, data, t, v))
                i += 1
        res = cppbuild.run(binary, "\n".join(lines) + "\n", timeout=600)
        out = res.out.split("\n")
        if res.kind != "ok" or len(out) < len(lines):
            k = len([o for o in out if "rd2=" in o])
            fn_, sname, leaf, data, t, v = meta[min(k, len(meta) - 1)]
            chk.violation("input", {"input": "testdata/" + fn_, "kind_of_input": "testdata",
                                    "field": "%s.%s" % (sname, leaf.cpp), "data": S.hexs(data),
                                    "argt": t, "value": v, "config": leaf.cfg._asdict(),
                                    "observed": "%s: %s" % (res.kind, res.err[-1500:]),
                                    "expected": "no sanitizer report / runtime check on a complete structure"})
            continue
        model = None
        if model_exe:
            model = common.Model(model_exe).ask([
                S.struct_line(leaf.cfg, leaf.byte_off, data, t, v, "opt")
                for _f, _s, leaf, data, t, v in meta])
        for j, (fn_, sname, leaf, data, t, v) in enumerate(meta):
            chk.count()
            cfg = leaf.cfg
            nb = cfg.c // 8
            cont = data[leaf.byte_off:leaf.byte_off + nb]
            rl = out[j]
            stats["testdata:" + cfg.ty] += 1
            d = S.parse_line(rl)
            after = d.get("after", "")
            whole = list(bytes.fromhex(after)) if after not in ("", "-") else []
            outside_ok = (len(whole) == len(data) and whole[:leaf.byte_off] == data[:leaf.byte_off]
                          and whole[leaf.byte_off + nb:] == data[leaf.byte_off + nb:])
            local = rl.replace("after=" + after, "after=" + S.hexs(whole[leaf.byte_off:leaf.byte_off + nb]))
            why = scalarcheck.compare_with_spec(prop, (cfg, cont, t, v), local)
            if not why and prop == "C03" and not outside_ok:
                why = "bytes outside the field's container changed"
            if d.get("cmp") == "1":
                chk.nontrivial(("testdata", fn_, sname, leaf.cpp))
            fk = S.finding_key(cfg, v)
            if why:
                if chk.known_finding(fk) is None:
                    stats["failing_cases"] += 1
                    dedup = ("testdata", fn_, sname, leaf.cpp, why.split(":")[0])
                    if dedup in stats["_reported"] or len(stats["_reported"]) >= 12:
                        continue
                    stats["_reported"].add(dedup)
                else:
                    stats["known_finding_cases"] += 1
                chk.violation("input", {"input": "testdata/" + fn_, "kind_of_input": "testdata",
                                        "field": "%s.%s" % (sname, leaf.cpp), "config": cfg._asdict(),
                                        "data": S.hexs(data), "argt": t, "value": v,
                                        "observed": rl, "expected": why}, key=fk)
            elif model is not None:
                keys = scalarcheck.KEYS[prop]
                if scalarcheck.project(model[j], keys) != scalarcheck.project(rl, keys):   # whole store (STRUCT op)
                    stats["model_disagreements"] += 1
                    if stats["model_disagreements"] <= 8:
                        chk.violation("correspondence", {
                            "input": "testdata/" + fn_, "kind_of_input": "testdata",
                            "field": "%s.%s" % (sname, leaf.cpp), "config": cfg._asdict(),
                            "data": S.hexs(data), "argt": t, "value": v, "observed": rl,
                            "model": model[j],
                            "expected": "the generated view behaves per the spec; the model of the "
                                        "view expected from the IR differs",
                            "theorem_or_correspondence": "view-type selection of header_generator vs SCALAR"},
                            found_input=False)
    stats["testdata_modules"] = len(plans)
