"""cpptypes — tie between the C++ carrier types the arithmetic theorem reasons about and the types
literally present in a generated header (C04, layer 1; builder `view`, round 2).

`C04_arith_no_overflow` (Emboss/Properties/C04.lean, from C04Arith) is a statement about
`Emboss.Bounds.cppEval`, which computes every run-time function node in
`IntermediateT = cppTypeForRange(hull of result and operand ranges)` and casts to
`ResultT = cppTypeForRange(result range)` (`nodeTypes`, the per-node function of `opTypes`).  The
generated header spells those types out:

    ::emboss::support::Difference</**/::std::int64_t, ::std::int64_t, ::std::int32_t, ::std::int32_t>(…)
                                       IntermediateT    ResultT         ArgT…

For every module this helper
  * walks every expression of the *real* IR the way `_render_expression` does (a node whose type
    annotation is a single value is a literal and its operands are not rendered), asks the Lean
    model (`model_c04 NODE`) for the types of every run-time function node from the node's own
    range annotations → predicted signatures P (all expressions) and P_must (expressions that are
    certainly rendered: existence conditions, locations, virtual-field values, [requires]);
  * extracts every `::emboss::support::<Op></**/T, T, …>` from the header text → H (the inverse
    transforms of virtual-field writes are synthesised by the back end, not in the IR: skipped);
  * reports H ⊄ P and P_must ⊄ H, and every integer literal `static_cast</**/T>(N)` whose T is not
    `cppTypeForRange N N`.
So a changed type choice is caught at the node, whether or not an overflowing value is sampled.
"""
import re

from harness.lib import common

OPS = {"ADDITION": "Sum", "SUBTRACTION": "Difference", "MULTIPLICATION": "Product", "EQUALITY": "Equal",
       "INEQUALITY": "NotEqual", "AND": "And", "OR": "Or", "LESS": "LessThan", "LESS_OR_EQUAL": "LessThanOrEqual",
       "GREATER": "GreaterThan", "GREATER_OR_EQUAL": "GreaterThanOrEqual", "CHOICE": "Choice", "MAXIMUM": "Maximum"}
CPP = {"::std::int32_t": "i32", "::std::uint32_t": "u32", "::std::int64_t": "i64", "::std::uint64_t": "u64",
       "bool": "bool"}


def _fn_name(code):
    from compiler.util import ir_data
    try:
        return ir_data.FunctionMapping(int(code)).name
    except Exception:  # noqa: BLE001
        return str(code)


def _is_const(t):
    if "integer" in t:
        return t["integer"].get("modulus") == "infinity"
    if "boolean" in t:
        return "value" in t["boolean"]
    if "enumeration" in t:
        return "value" in t["enumeration"]
    return False


def _ty(t):
    if "integer" in t:
        i = t["integer"]
        lo, hi = i.get("minimum_value"), i.get("maximum_value")
        if lo is None or hi is None or "infinity" in (lo, hi) or "-infinity" in (lo, hi):
            return None
        return "i:%d:%d" % (int(lo), int(hi))
    if "boolean" in t:
        return "b"
    if "enumeration" in t:
        return "e"
    return None


def _is_expr(d):
    return isinstance(d, dict) and "type" in d and any(k in d for k in (
        "function", "constant", "field_reference", "constant_reference", "boolean_constant", "builtin_reference"))


def collect_nodes(expr, out):
    """Run-time function nodes of one expression, the way `_render_expression` descends."""
    if not _is_expr(expr) or _is_const(expr["type"]):
        return
    fn = expr.get("function")
    if not fn:
        return
    name = _fn_name(fn.get("function"))
    args = fn.get("args", [])
    if name == "PRESENCE":
        return
    if name in OPS:
        tys = [_ty(expr["type"])] + [_ty(a.get("type", {})) for a in args]
        if all(tys):
            out.append((OPS[name], tuple(tys)))
    for a in args:
        collect_nodes(a, out)


def _walk_all(x, out):
    if _is_expr(x):
        collect_nodes(x, out)
        return
    if isinstance(x, dict):
        for v in x.values():
            _walk_all(v, out)
    elif isinstance(x, list):
        for v in x:
            _walk_all(v, out)


def module_nodes(prepared):
    """(all, must): run-time function nodes of every expression of the main module / of the
    expressions that are rendered for sure."""
    mod = prepared.ir["module"][0]
    allp, must = [], []
    _walk_all(mod.get("type", []), allp)
    for si in prepared.structs.values():
        for f in si.type_ir["structure"].get("field", []):
            for key in ("existence_condition", "read_transform"):
                if key in f:
                    collect_nodes(f[key], must)
            loc = f.get("location", {})
            for key in ("start", "size"):
                if key in loc:
                    collect_nodes(loc[key], must)
    return allp, must


_SIG = re.compile(r"::emboss::support::(%s)</\*\*/([^<>()]*)>" % "|".join(sorted(set(OPS.values()), key=len, reverse=True)))
_LIT = re.compile(r"static_cast</\*\*/(::std::u?int(?:32|64)_t)>\((-?\d+)(?:U?LL|U?L)?( - 1)?\)")
_WRITE_MARKERS = ("emboss_reserved_local_maybe_new_value =", ".UncheckedWrite((")


def header_signatures(header):
    sigs, lits = set(), set()
    for line in header.split("\n"):
        inverse = any(m in line for m in _WRITE_MARKERS)
        for m in _LIT.finditer(line):
            v = int(m.group(2)) - (1 if m.group(3) else 0)
            lits.add((CPP[m.group(1)], v))
        if inverse:
            continue
        for m in _SIG.finditer(line):
            ts = tuple(CPP.get(t.strip(), "enum") for t in m.group(2).split(","))
            sigs.add((m.group(1), ts))
    return sigs, lits


def _oracle_only(cases):
    problems = []
    stats = {"modules": 0, "oracle_nodes": 0}
    for c in cases:
        _allp, must = module_nodes(c.prepared)
        sigs, lits = header_signatures(c.prepared.header)
        stats["modules"] += 1
        unsound = []
        for node in sorted(set(must)):
            stats["oracle_nodes"] += 1
            if not any(_can_hold(h, node) for h in sigs if h[0] == node[0]):
                unsound.append(node)
        unsound += [("literal", "%s %d" % (t, v)) for t, v in sorted(lits) if not _holds(t, v, v)]
        if unsound:
            problems.append({"case": c.name, "module": c.text,
                             "nodes_without_sound_instantiation": [list(map(str, u)) for u in unsound[:6]]})
    return problems, stats


_RANGE = {"i32": (-(1 << 31), (1 << 31) - 1), "u32": (0, (1 << 32) - 1), "i64": (-(1 << 63), (1 << 63) - 1),
          "u64": (0, (1 << 64) - 1)}


def _holds(ctype, lo, hi):
    return ctype in _RANGE and _RANGE[ctype][0] <= lo and hi <= _RANGE[ctype][1]


def _can_hold(hsig, node):
    """Can the header instantiation `hsig` = (op, (I, R, A…)) soundly compute `node` = (op, (tyR, tyA…))?"""
    ts, tys = hsig[1], node[1]
    if len(ts) != len(tys) + 1:
        return False
    rng = [tuple(int(x) for x in t.split(":")[1:]) if t.startswith("i:") else None for t in tys]
    ints = [x for x in rng if x]
    if ints and not _holds(ts[0], min(x[0] for x in ints), max(x[1] for x in ints)):
        return False
    for ct, t, x in zip(ts[1:], tys, rng):
        if x is None:
            if (t == "b") != (ct == "bool"):
                return False
        elif not _holds(ct, x[0], x[1]):
            return False
    return True


def check_modules(cases, use_model=True):
    """cases: objects with .prepared (cppdrv.Prepared), .name, .text.  Returns (problems, stats);
    problem = dict(case, kind, detail).  `use_model=False`: only the model-free soundness oracle."""
    if not use_model:
        return _oracle_only(cases)
    model = common.Model("model_c04")
    queries, index = [], []
    per_case = []
    for c in cases:
        allp, must = module_nodes(c.prepared)
        sigs, lits = header_signatures(c.prepared.header)
        per_case.append((c, allp, must, sigs, lits))
        for node in set(allp) | set(must):
            if node[1] not in index:
                index.append(node[1])
                queries.append("NODE " + " ".join(node[1]))
        for _t, v in lits:
            if ("lit", v) not in index:
                index.append(("lit", v))
                queries.append("CPPTYPE %d %d" % (v, v))
    ans = dict(zip(index, model.ask(queries, timeout=600))) if queries else {}
    problems = []
    stats = {"modules": 0, "predicted_nodes": 0, "header_signatures": 0, "literals": 0, "needs_64_bit": 0}

    def sig_of(node):
        a = ans[node[1]]
        if a in ("none", "bad-op"):
            return None
        head, *args = a.split()
        i, r = head.split("/")
        return (node[0], tuple([i, r] + args))

    for c, allp, must, sigs, lits in per_case:
        stats["modules"] += 1
        p_all = set(x for x in (sig_of(n) for n in set(allp)) if x)
        p_must = set(x for x in (sig_of(n) for n in set(must)) if x)
        int_sigs = set(s for s in sigs if any(t in ("i32", "u32", "i64", "u64") for t in s[1]))
        stats["predicted_nodes"] += len(p_all)
        stats["header_signatures"] += len(int_sigs)
        stats["literals"] += len(lits)
        stats["needs_64_bit"] += sum(1 for s in int_sigs if s[1][0] in ("i64", "u64"))
        extra = sorted(s for s in int_sigs if s not in p_all)
        missing = sorted(s for s in p_must if s not in sigs and any(t in ("i32", "u32", "i64", "u64") for t in s[1]))
        bad_lits = sorted((t, v) for t, v in lits if ans.get(("lit", v)) != t)
        # spec oracle, independent of the model: some instantiation of the operator present in the
        # header must be able to hold the node's ranges (IntermediateT ⊇ hull, ResultT ⊇ result,
        # ArgT ⊇ operand); otherwise the generated arithmetic overflows / truncates for some value
        unsound = []
        for node in sorted(set(must)):
            sg = sig_of(node)
            if sg is None or sg in sigs:
                continue
            if not any(_can_hold(h, node) for h in sigs if h[0] == node[0]):
                unsound.append(node)
        unsound += [("literal", "%s %d" % (t, v)) for t, v in bad_lits if not _holds(t, v, v)]
        if extra or missing or bad_lits:
            problems.append({"case": c.name, "module": c.text,
                             "nodes_without_sound_instantiation": [list(map(str, u)) for u in unsound[:6]],
                             "header_signatures_not_predicted_by_model": [list(map(str, e)) for e in extra[:6]],
                             "model_signatures_missing_from_header": [list(map(str, e)) for e in missing[:6]],
                             "literal_types_differ": [list(map(str, b)) for b in bad_lits[:6]]})
    return problems, stats
