"""Random module generator for C07 (and a source of modules for anyone who wants whole
programs): mostly-valid multi-file modules exercising every language feature the C++ back end
has a template for, with an emphasis on identifier shapes (digits, doubled/trailing
underscores, names equal or close to identifiers the back end itself introduces).

`gen(r, risky)` returns (files, main, info).  `risky` = probability of drawing a field / type /
enum-value name from the pool of names that look like generated identifiers.
"""
import re

_RES = None


def reserved():
    global _RES
    if _RES is None:
        from compiler.front_end import constraints
        from harness.lib import cppgen
        _RES = set(constraints.get_reserved_word_list()) | cppgen.platform_macros()
    return _RES


RISKY_FIELDS = ["ok", "is_complete", "size", "size_in_bytes", "size_is_known", "read", "write", "view",
                "storage", "value", "result", "backing", "backing_", "parameters_initialized_", "data", "begin",
                "end", "equals", "copy_from", "k", "x_", "x__y", "a_1", "a1", "b_2c", "b2c", "n_", "has_n",
                "has_ok", "type_", "name", "emboss", "std", "support", "prelude", "other", "self_", "view_",
                "intrinsic_size_in_bytes", "max_size_in_bytes", "to_string", "unchecked_read", "x9", "z_0_"]
RISKY_TYPES = ["View", "Writer", "Storage", "Ok", "IsComplete", "Equals", "EnumTraits", "EnumIsKnown",
               "MaxSizeInBytes", "MinSizeInBits", "IntrinsicSizeInBytes", "SizeInBytes", "Maybe", "Generic",
               "TextOutputOptions", "ValueType", "BackingStorage", "TryToGetNameFromEnum", "Parameters"]
RISKY_VALUES = ["OK_", "A_1", "A1_", "A_1B", "A1B", "X__Y", "X_Y", "K_", "VIEW_", "NONE_", "TRUE_", "FALSE_",
                "DEFAULT_", "MAX_", "MIN_"]


class G:
    def __init__(self, r, risky):
        self.r = r
        self.risky = risky
        self.features = {}
        self.tcount = 0

    def feat(self, k):
        self.features[k] = self.features.get(k, 0) + 1

    def snake(self, taken):
        r = self.r
        for _ in range(100):
            if r.random() < self.risky:
                s = r.choice(RISKY_FIELDS)
                self.feat("risky_field_name")
            else:
                s = r.choice("abcdefghijmnpqrstuvwxyz")
                for _ in range(r.choice([0, 1, 2, 3, 5])):
                    s += r.choice("abcdefghijklmnopqrstuvwxyz0123456789___")
            if s in taken or s in reserved() or not re.match(r"[a-z][a-z_0-9]*\Z", s) or s.startswith("emboss_reserved"):
                continue
            taken.add(s)
            return s
        raise RuntimeError("names exhausted")

    def camel(self, taken, suffix_from=None):
        r = self.r
        for _ in range(100):
            k = r.random()
            if k < self.risky:
                s = r.choice(RISKY_TYPES)
                self.feat("risky_type_name")
            elif suffix_from and k < self.risky * 2.5:
                base = r.choice(sorted(suffix_from))
                s = r.choice(["%sView", "%sWriter", "Generic%sView", "Make%sView", "MakeAligned%sView", "Generic%s"]) % base
                self.feat("type_name_like_generated")
            else:
                s = r.choice("ABCDEFGHJKLMNPQRSTUVWXYZ") + r.choice("abcdefghijklmnopqrstuvwxyz")
                for _ in range(r.choice([0, 1, 2, 4])):
                    s += r.choice("abcdefghijklmnopqrstuvwxyzABCDEFGHIJKLMNOPQRSTUVWXYZ0123456789")
            if s in taken or s in reserved() or not re.match(r"[A-Z][a-zA-Z0-9]*[a-z][a-zA-Z0-9]*\Z", s) or \
                    s.startswith("EmbossReserved"):
                continue
            taken.add(s)
            return s
        raise RuntimeError("names exhausted")

    def shouty(self, taken):
        r = self.r
        for _ in range(100):
            if r.random() < self.risky:
                s = r.choice(RISKY_VALUES)
                self.feat("risky_value_name")
            else:
                s = r.choice("ABCDEFGHIJKLMNOPQRSTUVWXYZ")
                for _ in range(r.choice([1, 2, 3, 5])):
                    s += r.choice("ABCDEFGHIJKLMNOPQRSTUVWXYZ0123456789__")
            if s in taken or s in reserved() or not re.match(r"[A-Z][A-Z_0-9]*[A-Z_][A-Z_0-9]*\Z", s) or \
                    s.startswith("EMBOSS_RESERVED"):
                continue
            taken.add(s)
            return s
        raise RuntimeError("names exhausted")

    # ------------------------------------------------------------ enums
    def enum(self, name, indent, allow_attrs=True):
        r = self.r
        pad = " " * indent
        lines = [pad + "enum %s:" % name]
        signed = r.random() < 0.3
        mb = r.choice([None, None, 8, 16, 32, 64, 7, 24]) if allow_attrs else None
        bits = mb or 64
        if allow_attrs and mb is not None:
            lines.append(pad + "  [maximum_bits: %d]" % mb)
        if allow_attrs and signed and r.random() < 0.5:
            lines.append(pad + "  [is_signed: true]")
            self.feat("is_signed")
        if r.random() < 0.3:
            lines.append(pad + '  [(cpp) $default enum_case: "%s"]' % r.choice(
                ["kCamelCase", "SHOUTY_CASE, kCamelCase", "kCamelCase, SHOUTY_CASE"]))
            self.feat("enum_case_default")
        taken = set()
        vals = []
        n = r.randint(1, 5)
        lim = min(bits, 63) if signed else bits
        for i in range(n):
            v = r.choice([i, i, i * 3 + 1, (1 << (lim - 1)) - 1 if signed else (1 << lim) - 1, 0])
            if signed and i == 0:
                v = -1 - r.randint(0, min((1 << (lim - 1)) - 1, 100))
            nm = self.shouty(taken)
            at = ""
            if r.random() < 0.2:
                at = '  [(cpp) enum_case: "%s"]' % r.choice(["kCamelCase", "SHOUTY_CASE", "SHOUTY_CASE, kCamelCase"])
                self.feat("enum_case_value")
            lines.append(pad + "  %s = %d%s" % (nm, v, at))
            vals.append((nm, v))
        return lines, {"name": name, "values": vals, "bits": bits, "signed": signed}

    # ---------------------------------------------------------- structs
    def struct(self, name, env, depth=0, params=None):
        """env: {'enums': [(ref, info)], 'structs': [(ref, size_bytes, params)], 'types': set()}"""
        r = self.r
        lines = []
        head = "struct %s" % name
        taken = set()
        pnames = []
        if params:
            ps = []
            for kind in params:
                pn = self.snake(taken)
                pnames.append((pn, kind))
                ps.append("%s: %s" % (pn, "UInt:8" if kind == "int" else kind))
            head += "(%s)" % ", ".join(ps)
            self.feat("parameters")
        lines.append(head + ":")
        if r.random() < 0.15:
            lines.append('  [(cpp) $default enum_case: "%s"]' % r.choice(["kCamelCase", "SHOUTY_CASE"]))
        local_types = set()
        nested = []
        # nested type definitions
        local_enums = []
        if depth < 2 and r.random() < 0.5:
            en = self.camel(local_types | env["types"], suffix_from=env["types"])
            if r.random() < self.risky * 0.5:
                en = name               # a nested enum may be named like its structure
                self.feat("nested_enum_named_like_structure")
            el, info = self.enum(en, 2)
            lines += el
            local_enums.append((en, info))
            self.feat("nested_enum")
        local_structs = []
        if depth < 1 and r.random() < 0.4:
            sn = self.camel(local_types | env["types"], suffix_from=env["types"])
            sl, sinfo = self.struct(sn, {"enums": env["enums"] + local_enums, "structs": [], "types": env["types"] | local_types},
                                    depth + 1)
            lines += ["  " + l for l in sl]
            local_structs.append((sn, sinfo["size"], None))
            self.feat("nested_struct")
        enums = env["enums"] + local_enums
        structs = env["structs"] + local_structs
        off = 0
        ints = []            # names of small unsigned integer fields usable in expressions
        fields = []
        post = []            # virtual fields to append after the physical ones
        nf = r.randint(1, 6)
        dynamic = False
        for i in range(nf):
            kind = r.choice(["uint", "uint", "int", "bcd", "float", "enum", "struct", "bits", "array", "array2",
                             "inline_enum", "cond", "dyn_array", "flagbits", "param_struct", "inline_struct"])
            fn = self.snake(taken)
            attr = []
            if kind == "uint":
                n = r.choice([1, 1, 2, 3, 4, 8])
                lines.append("  %d [+%d] UInt %s" % (off, n, fn))
                if n <= 2:
                    ints.append(fn)
                if r.random() < 0.2:
                    lines.append("    [requires: this %s %d]" % (r.choice(["<", "<=", "!=", ">="]), r.randint(0, 200)))
                    self.feat("requires_field")
                if r.random() < 0.1:
                    lines.append('    [text_output: "Skip"]')
                    self.feat("text_output_skip")
                if r.random() < 0.15 and n > 1:
                    lines.append('    [byte_order: "BigEndian"]')
                off += n
            elif kind == "int":
                n = r.choice([1, 2, 4, 5, 8])
                lines.append("  %d [+%d] Int %s" % (off, n, fn))
                off += n
            elif kind == "bcd":
                n = r.choice([1, 2, 4])
                lines.append("  %d [+%d] Bcd %s" % (off, n, fn))
                off += n
            elif kind == "float":
                n = r.choice([4, 8])
                lines.append("  %d [+%d] Float %s" % (off, n, fn))
                off += n
                self.feat("float")
            elif kind == "enum" and enums:
                ref, info = r.choice(enums)
                n = r.choice([b for b in (1, 2, 4, 8) if b * 8 <= info["bits"]] or [0])
                if n == 0:
                    continue
                lines.append("  %d [+%d] %s %s" % (off, n, ref, fn))
                off += n
                self.feat("enum_field")
                if r.random() < 0.5:
                    an = self.snake(taken)
                    post.append("  let %s = %s" % (an, fn))
                    post.append("    [requires: this == %s.%s]" % (ref, info["values"][0][0]))
                    self.feat("writable_virtual_enum")
            elif kind == "struct" and structs:
                ref, size, ps = r.choice(structs)
                if size is None or ps:
                    continue
                lines.append("  %d [+%d] %s %s" % (off, size, ref, fn))
                off += size
                self.feat("struct_field")
            elif kind == "param_struct" and [s for s in structs if s[2]]:
                ref, size, ps = r.choice([s for s in structs if s[2]])
                args = []
                for k in ps:
                    if k == "int":
                        args.append(str(r.randint(0, 4)) if not ints or r.random() < 0.5 else r.choice(ints))
                    else:
                        einfo = [i for rf, i in enums if rf == k]
                        args.append("%s.%s" % (k, einfo[0]["values"][0][0]) if einfo else "0")
                psz = size if size is not None else 8
                lines.append("  %d [+%d] %s(%s) %s" % (off, psz, ref, ", ".join(args), fn))
                off += psz
                self.feat("parameterized_field")
            elif kind in ("bits", "flagbits"):
                bl = ["  %d [+%d] bits %s:" % (off, 2, fn)] if kind == "bits" else ["  %d [+%d] bits:" % (off, 2)]
                bt = set(taken) if kind == "flagbits" else set()
                b1, b2, b3 = self.snake(bt), self.snake(bt), self.snake(bt)
                if kind == "flagbits":
                    taken |= bt
                    self.feat("anonymous_bits")
                else:
                    self.feat("inline_bits")
                bl += ["    0 [+1] Flag %s" % b1, "    1 [+%d] UInt %s" % (r.choice([3, 7]), b2),
                       "    8 [+8] %s %s" % (r.choice(["UInt", "Int", "Bcd"]), b3)]
                if enums and r.random() < 0.5:
                    ref, info = r.choice(enums)
                    if not info["signed"]:
                        bl.append("    %d [+%d] %s %s" % (r.choice([4, 5]), min(3, info["bits"]), ref, self.snake(bt)))
                lines += bl
                off += 2
                if kind == "flagbits":
                    taken |= bt
                    fields.append(b2)
                    ints.append(b2)
                    continue
            elif kind == "inline_enum":
                tn = fn[0].upper() + fn[1:]
                lines.append("  %d [+1] enum %s:" % (off, fn))
                vt = set()
                for k in range(r.randint(1, 3)):
                    lines.append("    %s = %d" % (self.shouty(vt), k))
                off += 1
                self.feat("inline_enum")
            elif kind == "inline_struct":
                lines.append("  %d [+3] struct %s:" % (off, fn))
                st = set()
                lines += ["    0 [+1] UInt %s" % self.snake(st), "    1 [+2] UInt %s" % self.snake(st)]
                off += 3
                self.feat("inline_struct")
            elif kind == "array":
                n, c = r.choice([(1, 4), (2, 3), (4, 2), (3, 2)])
                lines.append("  %d [+%d] %s:%d[%d] %s" % (off, n * c, r.choice(["UInt", "Int"]), 8 * n, c, fn))
                off += n * c
                self.feat("array")
            elif kind == "array2":
                lines.append("  %d [+12] UInt:16[3][2] %s" % (off, fn))
                off += 12
                self.feat("array_2d")
            elif kind == "cond" and ints:
                c = r.choice(ints)
                lines.append("  if %s %s %d:" % (c, r.choice(["==", "<", ">=", "!="]), r.randint(0, 9)))
                lines.append("    %d [+2] UInt %s" % (off, fn))
                off += 2
                self.feat("conditional")
            elif kind == "dyn_array" and ints and not dynamic:
                c = r.choice(ints)
                lines.append("  %d [+%s] UInt:8[] %s" % (off, c, fn))
                dynamic = True
                self.feat("dynamic_array")
                fields.append(fn)
                break
            else:
                lines.append("  %d [+1] UInt %s" % (off, fn))
                ints.append(fn)
                off += 1
            fields.append(fn)
        if not fields:
            fn = self.snake(taken)
            lines.append("  0 [+1] UInt %s" % fn)
            ints.append(fn)
            off = 1
        # full-width operands for the 64-bit acceptance boundary of comparisons / arithmetic
        wide = {}
        if not dynamic and r.random() < 0.35:
            for kind, width in r.sample([("UInt", 8), ("Int", 8), ("UInt", 7), ("Int", 4), ("Int", 1), ("UInt", 4)], r.randint(2, 3)):
                fn = self.snake(taken)
                lines.append("  %d [+%d] %s %s" % (off, width, kind, fn))
                off += width
                wide[fn] = (kind, width)
                fields.append(fn)
            self.feat("wide_operands")
        # parameters used
        for pn, kind in pnames:
            if kind == "int" and not dynamic and r.random() < 0.6:
                fn = self.snake(taken)
                lines.append("  %d [+%s] UInt:8[] %s" % (off, pn, fn))
                dynamic = True
                self.feat("parameter_sized_array")
        lines += post
        # virtual fields
        nv = r.randint(0, 5)
        for i in range(nv):
            vn = self.snake(taken)
            k = r.choice(["const", "bigconst", "arith", "cmp", "alias", "choice", "bool", "enumconst", "max",
                          "present", "size", "writable", "alias_requires"] + (["wide", "wide"] if wide else []))
            if k == "const":
                lines.append("  let %s = %d" % (vn, r.randint(-1000, 1000)))
            elif k == "bigconst":
                lines.append("  let %s = %s" % (vn, r.choice(["0x7fff_ffff_ffff_ffff", "-0x8000_0000_0000_0000",
                                                                "0xffff_ffff_ffff_ffff", "4_294_967_296", "-2_147_483_649",
                                                                "2_147_483_648", "-2_147_483_648"])))
                self.feat("constant_at_64bit_limit")
            elif k == "arith" and ints:
                lines.append("  let %s = %s %s %s" % (vn, r.choice(ints), r.choice(["+", "-", "*"]),
                                                      r.choice(ints + [str(r.randint(1, 9))])))
                if r.random() < 0.3:
                    lines.append("    [requires: this < 1000]")
                    self.feat("requires_virtual")
            elif k == "cmp" and ints:
                lines.append("  let %s = %s %s %s" % (vn, r.choice(ints), r.choice(["==", "<", "<=", ">", "!="]),
                                                      r.choice(ints + ["7"])))
            elif k == "wide":
                # operands that all fit one 64-bit type are accepted (and must compile); a full-width UInt:64
                # against a signed operand is rejected by the front end — drawn rarely, it costs the module
                names = sorted(wide)
                a = r.choice(names)
                same = [n for n in names if n != a and (wide[n][0] == wide[a][0] or wide[a] != ("UInt", 8)) and
                        not (wide[n] == ("UInt", 8) and wide[a][0] == "Int")]
                mixed = [n for n in names if n != a and n not in same]
                if mixed and r.random() < 0.12:
                    b = r.choice(mixed)
                    self.feat("mixed_64bit_signedness(front end must reject)")
                else:
                    b = r.choice(same + [str(r.choice([0, 1, 255, 4294967296]))])
                form = r.choice(["cmp", "cmp", "cmp", "choice", "max", "sub"])
                if form == "cmp":
                    lines.append("  let %s = %s %s %s" % (vn, a, r.choice(["==", "!=", "<", "<=", ">", ">="]), b))
                elif form == "choice":
                    lines.append("  let %s = %s < 3 ? %s : %s" % (vn, a, a, b))
                elif form == "max":
                    lines.append("  let %s = $max(%s, %s)" % (vn, a, b))
                else:
                    small = [n for n in names if wide[n][1] <= 4] + ["1"]
                    lines.append("  let %s = %s - %s" % (vn, r.choice(small), r.choice(small)))
                self.feat("wide_operation")
            elif k == "alias_requires" and ints:
                # a writable virtual field (alias + [requires]) of integer type (enum-typed ones: `post`)
                tgt = r.choice(sorted(set(ints)))
                lines.append("  let %s = %s" % (vn, tgt))
                lines.append("    [requires: this %s %d]" % (r.choice(["<", "!=", ">="]), r.randint(0, 50)))
                self.feat("alias_with_requires")
            elif k == "alias" and fields:
                lines.append("  let %s = %s" % (vn, r.choice(fields)))
                self.feat("alias")
            elif k == "choice" and len(ints) >= 1:
                a = r.choice(ints)
                lines.append("  let %s = %s < 5 ? %s : %s" % (vn, a, r.choice(ints + ["1"]), r.choice(ints + ["200"])))
                self.feat("choice")
            elif k == "bool" and ints:
                lines.append("  let %s = %s == 1 %s %s != 2" % (vn, r.choice(ints), r.choice(["&&", "||"]), r.choice(ints)))
            elif k == "enumconst" and enums:
                ref, info = r.choice(enums)
                lines.append("  let %s = %s.%s" % (vn, ref, r.choice(info["values"])[0]))
                self.feat("enum_constant")
            elif k == "max" and ints:
                lines.append("  let %s = $max(%s, %s, 3)" % (vn, r.choice(ints), r.choice(ints)))
                self.feat("max")
            elif k == "present" and fields:
                lines.append("  let %s = $present(%s)" % (vn, r.choice(fields)))
                self.feat("present")
            elif k == "size":
                lines.append("  let %s = $size_in_bytes + 1" % vn)
            elif k == "writable" and ints:
                lines.append("  let %s = %s + %d" % (vn, r.choice(ints), r.randint(1, 20)))
                self.feat("writable_virtual")
            else:
                lines.append("  let %s = %d" % (vn, i))
        if ints and r.random() < 0.15:
            lines.insert(1, "  [requires: %s != 255]" % r.choice(ints))
            self.feat("requires_struct")
        return lines, {"size": None if dynamic else off, "params": params}


def gen(r, risky=0.15):
    g = G(r, risky)
    types = set()
    same_ns = risky > 0 and r.random() < 0.35      # both modules in one C++ namespace (or both in the default one)
    dep_ns = r.choice(["dep::ns", "dep", "::dd::e1"])
    dep_lines = ['[$default byte_order: "LittleEndian"]', '[(cpp) namespace: "%s"]' % dep_ns, ""]
    el, dinfo = g.enum("DepKind", 0)
    dep_lines += el + ["", "struct DepHdr:", "  0 [+1] UInt tag", "  1 [+2] UInt len", "  let twice = len * 2", "",
                       "struct DepVec(n: UInt:8):", "  0 [+n] UInt:8[] items", ""]
    lines = ["-- generated"]
    use_import = r.random() < 0.5
    if use_import:
        lines.append('import "dep.emb" as dep')
        g.feat("import")
    lines.append('[$default byte_order: "%s"]' % r.choice(["LittleEndian", "BigEndian"]))
    ns = r.choice([None, "gen", "gen::m1", "::a1::b_2::c3", " x :: y ", " :: top ::  Protected", "new_ ::class1",
                   "::_u :: v9 ", "std2::wire "])
    if r.random() < 0.04:       # a keyword component: the back end must reject (else `namespace new {` reaches g++)
        ns = r.choice(["acme :: %s :: wire", " %s", "std2::%s ", "%s"]) % r.choice(
            ["protected", "new", "default", "NULL", "and", "class", "delete", "not", "int", "alignas"])
    if use_import and same_ns:
        g.feat("modules_share_cpp_namespace")
        if ns is None:
            dep_lines[1] = ""
        else:
            dep_lines[1] = '[(cpp) namespace: "%s"]' % ns
        if r.random() < 0.6:
            # ... and a type of this module named like (or like an identifier generated for) a type of the other one
            types_like_dep = r.choice(["DepKind", "DepHdr", "DepVec", "DepHdrView", "MakeDepVecView", "DepKindx"])
            lines_dup = types_like_dep
        else:
            lines_dup = None
    else:
        lines_dup = None
    if ns is not None:
        lines.append('[(cpp) namespace: "%s"]' % ns)
        g.feat("namespace")
    if r.random() < 0.3:
        lines.append('[(cpp) $default enum_case: "%s"]' % r.choice(["kCamelCase", "SHOUTY_CASE, kCamelCase"]))
    lines.append("")
    enums, structs = [], []
    if use_import:
        enums.append(("dep.DepKind", dinfo))
        structs.append(("dep.DepHdr", 3, None))
        structs.append(("dep.DepVec", None, ["int"]))
    for i in range(r.randint(1, 3)):
        en = g.camel(types, suffix_from=types)
        if i == 0 and lines_dup and lines_dup not in types:
            en = lines_dup
            types.add(en)
            g.feat("type_named_like_type_of_imported_module")
        el, info = g.enum(en, 0)
        lines += el + [""]
        enums.append((en, info))
    for i in range(r.randint(1, 4)):
        sn = g.camel(types, suffix_from=types)
        params = None
        if r.random() < 0.3:
            params = [r.choice(["int", "int"] + [e[0] for e in enums if "." not in e[0]][:1]) for _ in range(r.randint(1, 2))]
        sl, info = g.struct(sn, {"enums": enums, "structs": structs, "types": set(types)}, 0, params)
        lines += sl + [""]
        structs.append((sn, info["size"], params))
    if r.random() < 0.4:
        bn = g.camel(types, suffix_from=types)
        bt = set()
        lines += ["bits %s:" % bn, "  0 [+4] UInt %s" % g.snake(bt), "  4 [+1] Flag %s" % g.snake(bt),
                  "  5 [+11] Int %s" % g.snake(bt), "  let %s = %d" % (g.snake(bt), r.randint(0, 9))]
        nb = 2
        if r.random() < 0.6:
            # an array *inside* the bits (bit-addressed elements: kAddressableUnitSize == 1)
            lines.append("  16 [+8] %s:%d[%d] %s" % (r.choice(["UInt", "Int"]), *r.choice([(4, 2), (2, 4), (8, 1)]), g.snake(bt)))
            nb = 3
            g.feat("array_inside_bits")
        lines.append("")
        hn = g.camel(types)
        lines += ["struct %s:" % hn, "  0 [+%d] %s %s" % (nb, bn, "field"), "  %d [+%d] %s[2] %s" % (nb, 2 * nb, bn, "fields"), ""]
        g.feat("top_level_bits")
        g.feat("array_in_struct_of_bits")
    files = {"m.emb": "\n".join(lines) + "\n"}
    if use_import:
        files["dep.emb"] = "\n".join(dep_lines) + "\n"
    return files, "m.emb", {"features": g.features}
