"""C14: abstraction of a real IR into the abstract module list of
lean/Emboss/Model/Constraints.lean, and classification of real error messages into the
model's error kinds.

The walker reads the IR as it is just before `attribute_checker.normalize_and_verify`
(`stop_before_step`), i.e. nothing that the modelled passes compute is copied: sizes are
the constant values / bounds attached by earlier passes (C05's domain), everything else
is structure.
"""
import json
import re

from harness.lib import common  # noqa: F401
from harness.translate import c14 as tr

from compiler.util import ir_data
from compiler.util import ir_data_utils
from compiler.util import ir_util
from compiler.util import traverse_ir


class OutOfScope(Exception):
    pass


def _istr(v):
    return None if v is None else str(int(v))


def _bound(s):
    if s in (None, ""):
        raise OutOfScope("missing bound")
    if s == "infinity":
        return "inf"
    if s == "-infinity":
        return "-inf"
    return str(int(s))


class Walker:
    def __init__(self, ir):
        self.ir = ir
        self.ids = {}
        for m in ir.module:
            for td in m.type:
                self._number(td)

    def _key(self, cn):
        return (cn.module_file,) + tuple(cn.object_path)

    def _number(self, td):
        self.ids[self._key(td.name.canonical_name)] = len(self.ids)
        for s in td.subtype:
            self._number(s)

    def ref_id(self, reference):
        k = self._key(reference.canonical_name)
        if k not in self.ids:
            raise OutOfScope("reference to a non-type %r" % (k,))
        return self.ids[k]

    # ------------------------------------------------------------ attributes
    def aval(self, a):
        v = a.value
        if v.has_field("string_constant"):
            return {"s": v.string_constant.text}
        if not v.has_field("expression"):
            return "other"
        e = v.expression
        wt = e.type.which_type
        if wt == "integer":
            return {"i": _istr(ir_util.constant_value(e))}
        if wt == "boolean":
            if a.name.text == "static_requirements":
                return {"req": tr.sexpr_json(tr.sexpr(e))}
            b = e.type.boolean.value if e.type.boolean.has_field("value") else None
            return {"b": b, "lit": e.which_expression == "boolean_constant"}
        return "other"

    def attrs(self, obj):
        out = []
        for a in obj.attribute:
            r = ir_data_utils.reader(a)
            out.append({"n": a.name.text, "b": r.back_end.text or "", "d": bool(a.is_default),
                        "v": self.aval(a),
                        # spans (not read by CHECK): the whole attribute, its name, its value
                        "loc": {"whole": str(a.source_location), "name": str(a.name.source_location),
                                "value": str(a.value.source_location),
                                "syn": bool(a.source_location.is_synthetic)}})
        return out

    # ------------------------------------------------------------ types
    def ty(self, t):
        if t.has_field("array_type"):
            at = t.array_type
            if at.which_size == "automatic":
                ln = "auto"
            elif at.which_size == "element_count":
                c = ir_util.constant_value(at.element_count)
                ln = "dyn" if c is None else str(int(c))
            else:
                raise OutOfScope("array size kind")
            return {"arr": [self.ty(at.base_type), ln]}
        if not t.has_field("atomic_type"):
            raise OutOfScope("type kind")
        size = None
        if t.has_field("size_in_bits"):
            size = ir_util.constant_value(t.size_in_bits)
            if size is None:
                raise OutOfScope("non-constant explicit size")
        return {"a": [self.ref_id(t.atomic_type.reference), _istr(size)]}

    def field(self, f, bounds):
        virtual = not f.has_field("location")
        d = {"name": f.name.name.text, "virtual": virtual, "attrs": self.attrs(f),
             "loc": str(f.source_location),
             "ty": {"a": [0, None]}, "start": None, "size": None, "min": "0", "max": "0",
             "vkind": "other"}
        if virtual:
            wt = f.read_transform.type.which_type
            d["vkind"] = wt if wt in ("integer", "enumeration", "boolean") else "other"
        else:
            d["ty"] = self.ty(f.type)
            d["start"] = _istr(ir_util.constant_value(f.location.start))
            d["size"] = _istr(ir_util.constant_value(f.location.size))
            if bounds:
                it = f.location.size.type.integer
                d["min"] = _bound(it.minimum_value)
                d["max"] = _bound(it.maximum_value)
        return d

    def param(self, p, bounds):
        wt = p.type.which_type
        if wt not in ("integer", "enumeration"):
            raise OutOfScope("parameter type")
        pt = p.physical_type_alias
        size = ir_util.constant_value(pt.size_in_bits) if pt.has_field("size_in_bits") else None
        lo, hi = "-inf", "inf"
        if wt == "integer" and bounds:
            lo = _bound(p.type.integer.minimum_value)
            hi = _bound(p.type.integer.maximum_value)
        return {"name": p.name.name.text, "int": wt == "integer",
                "ref": self.ref_id(pt.atomic_type.reference), "size": _istr(size),
                "lo": lo, "hi": hi}

    def typedef(self, td, bounds):
        d = {"id": self.ids[self._key(td.name.canonical_name)], "name": td.name.name.text,
             "path": ".".join(td.name.canonical_name.object_path),
             "anon": bool(td.name.is_anonymous), "unit": int(td.addressable_unit or 0),
             "attrs": self.attrs(td), "values": [], "fields": [],
             "params": [self.param(p, bounds) for p in td.runtime_parameter],
             "flag": tuple(td.name.canonical_name.object_path) == ("Flag",),
             "sub": [self.typedef(s, bounds) for s in td.subtype]}
        if td.has_field("external"):
            d["kind"] = "external"
        elif td.has_field("enumeration"):
            d["kind"] = "enum"
            for v in td.enumeration.value:
                c = ir_util.constant_value(v.value)
                if c is None:
                    raise OutOfScope("non-constant enum value")
                d["values"].append({"name": v.name.name.text, "value": str(int(c)),
                                    "attrs": self.attrs(v)})
        elif td.has_field("structure"):
            d["kind"] = "struct"
            d["fields"] = [self.field(f, bounds) for f in td.structure.field]
        else:
            raise OutOfScope("type definition kind")
        return d

    def module(self, m, bounds):
        refs = []
        md = json.loads(ir_data_utils.IrDataSerializer(m).to_json())

        def walk(x):
            if isinstance(x, dict):
                if "constant_reference" in x:
                    t = x.get("type", {})
                    refs.append(t.get("integer", {}).get("modulus") == "infinity"
                                or "value" in t.get("boolean", {})
                                or "value" in t.get("enumeration", {}))
                for v in x.values():
                    walk(v)
            elif isinstance(x, list):
                for v in x:
                    walk(v)
        walk(md)
        return {"attrs": self.attrs(m), "file": m.source_file_name,
                "types": [self.typedef(t, bounds) for t in m.type],
                "refs": refs, "gated": [[synthetic(e), atree(e)] for e in gate_roots(m)] if bounds else []}

    def program(self, bounds=True):
        return [self.module(m, bounds) for m in self.ir.module]


# ---------------------------------------------------------------- the 64-bit gate (C05's model)
def gate_roots(node):
    """The expressions `_check_bounds_on_runtime_integer_expressions` is called on, in traversal
    order: every outermost Expression that is not inside an EnumValue and not inside a
    `[static_requirements]` attribute.  Field order from the traversal library's own table."""
    out = []

    def go(n):
        if isinstance(n, ir_data.Expression):
            out.append(n)
            return
        if isinstance(n, ir_data.EnumValue):
            return
        if isinstance(n, ir_data.Attribute) and n.name.text == "static_requirements":
            return
        key = (type(n), ir_data.Expression)
        if key not in traverse_ir._FIELDS_TO_SCAN_BY_CURRENT_AND_TARGET:
            return
        singular, repeated = traverse_ir._FIELDS_TO_SCAN_BY_CURRENT_AND_TARGET[key]
        for name in singular:
            if n.has_field(name):
                go(getattr(n, name))
        for name in repeated:
            for el in getattr(n, name) or []:
                go(el)
    go(node)
    return out


def _ext(s):
    if s in (None, ""):
        raise OutOfScope("missing bound")
    if s == "infinity":
        return "inf"
    if s == "-infinity":
        return "-inf"
    return str(int(s))


def synthetic(e):
    """Is the error the gate would report for this root hidden by `error.split_errors`?  An
    error is hidden iff its location is synthetic AND truthy: `error.location_or_default`
    replaces a falsy (all-zero) location, synthetic or not, by a fresh non-synthetic one (that
    such errors are shown to the user at 0:0-0:0 is C16's business).  The gate reports at the
    lowest failing node, so a root whose nodes differ in that flag is only in scope when no
    node can fail (every integer node fits int64)."""
    flags = set()
    can_fail = []

    def go(x):
        loc = ir_data_utils.reader(x).source_location
        flags.add(bool(loc) and bool(loc.is_synthetic))
        if x.type.which_type == "integer":
            it = x.type.integer
            try:
                ok = -(2 ** 63) <= int(it.minimum_value) and int(it.maximum_value) <= 2 ** 63 - 1
            except ValueError:
                ok = False
            if not ok:
                can_fail.append(x)
        if x.which_expression == "function":
            for a in x.function.args:
                go(a)
    go(e)
    if len(flags) != 1:
        if can_fail:
            raise OutOfScope("gated expression with synthetic and natural parts")
        return False
    return flags.pop()


def atree(e):
    """Expression -> [isFn, type, args] with type = ["int", min, max, modulus] | ["other"]
    (the annotated tree `Emboss.Bounds.gate` looks at)."""
    t = e.type
    if t.which_type == "integer":
        it = t.integer
        ty = ["int", _ext(it.minimum_value), _ext(it.maximum_value),
              "inf" if it.modulus == "infinity" else str(int(it.modulus or 0))]
    elif t.which_type == "boolean":
        ty = ["bool", bool(t.boolean.has_field("value"))]
    elif t.which_type == "enumeration":
        ty = ["enum", bool(t.enumeration.has_field("value"))]
    else:
        ty = ["bool", False]
    is_fn = e.which_expression == "function"
    return [is_fn, ty, [atree(a) for a in e.function.args] if is_fn else []]


# ---------------------------------------------------------------- byte orders
def _own_attr_any(attrs, name):
    """First non-$default attribute of that name, whatever its qualifier (= what
    ir_util.get_attribute returns when it does not assert)."""
    for a in attrs:
        if a.name.text == name and not a.is_default:
            return a
    return None


def real_byte_orders(ir):
    """(module file, type path, field name) -> text of the byte_order attribute the front end
    left on the physical field (None: no such attribute), from the IR after normalisation."""
    out = {}

    def go(mf, td):
        if td.has_field("structure"):
            for f in td.structure.field:
                if f.has_field("location"):
                    a = _own_attr_any(f.attribute, "byte_order")
                    v = None
                    if a is not None:
                        v = a.value.string_constant.text if a.value.has_field("string_constant") else "?"
                    out[(mf, ".".join(td.name.canonical_name.object_path), f.name.name.text)] = v
        for s in td.subtype:
            go(mf, s)
    for m in ir.module:
        for td in m.type:
            go(m.source_file_name, td)
    return out


def _doc_unit(td):
    """Addressable unit of a type definition as documented: struct = byte, bits / enum = bit,
    external = its addressable_unit_size."""
    if td.has_field("external"):
        for a in td.attribute:
            if a.name.text == "addressable_unit_size" and not a.is_default and \
                    not ir_data_utils.reader(a).back_end.text:
                return ir_util.constant_value(a.value.expression)
        return None
    if td.has_field("enumeration"):
        return 1
    return int(td.addressable_unit)


def spec_byte_orders(ir):
    """Documented byte order of every physical field, from the IR BEFORE normalisation, written
    from doc/language-reference.md (Attributes: `[$default name: value]` = "Default name to value
    for all sub-entities"; byte_order: "A $default byte order may be set on a module or
    structure", "The "Null" byte order is used if no byte_order attribute is specified"):
    the field's own unqualified [byte_order]; else, for a field whose type is addressed in a
    different unit than its structure (byte-order dependent), the NEAREST enclosing `$default
    byte_order` (structure, enclosing structures, module) and "Null" if there is none;
    else nothing.  Values: text, or None."""
    out = {}
    types = {}

    def index(td):
        cn = td.name.canonical_name
        types[(cn.module_file,) + tuple(cn.object_path)] = td
        for s in td.subtype:
            index(s)
    for m in ir.module:
        for td in m.type:
            index(td)

    def own(attrs, default):
        v = None
        for a in attrs:
            if a.name.text == "byte_order" and bool(a.is_default) == default and \
                    not ir_data_utils.reader(a).back_end.text and a.value.has_field("string_constant"):
                v = a.value.string_constant.text
        return v

    def leaf(t):
        while t.has_field("array_type"):
            t = t.array_type.base_type
        return t

    def go(mf, td, inherited):
        d = own(td.attribute, True) or inherited          # a NEW binding: siblings keep `inherited`
        if td.has_field("structure"):
            for f in td.structure.field:
                if not f.has_field("location"):
                    continue
                key = (mf, ".".join(td.name.canonical_name.object_path), f.name.name.text)
                mine = own(f.attribute, False)
                cn = leaf(f.type).atomic_type.reference.canonical_name
                ft = types.get((cn.module_file,) + tuple(cn.object_path))
                dependent = ft is not None and _doc_unit(ft) != _doc_unit(td)
                if mine is not None:
                    out[key] = mine
                elif dependent:
                    out[key] = d if d is not None else "Null"
                else:
                    out[key] = None
        for s in td.subtype:
            go(mf, s, d)
    for m in ir.module:
        md = own(m.attribute, True)
        for td in m.type:
            go(m.source_file_name, td, md)
    return out


def abstract(ir, bounds=True):
    return Walker(ir).program(bounds)


# ---------------------------------------------------------------- error kinds
_PATTERNS = [
    (r"Parameters with integer type must have explicit size", "param-needs-size"),
    (r"Parameters with enum type may not have explicit size", "param-enum-sized"),
    (r"Duplicate attribute '(.*)'\.", "dup-attr:%s"),
    (r"Attribute '(.*)' may not be defaulted on ", "no-default:%s"),
    (r"Unknown attribute '(.*)' on ", "unknown-attr:%s"),
    (r"Attribute '(.*)' must have a constant value\.", "attr-const:%s"),
    (r"Attribute '(.*)' must have (?:an integer|a constant boolean|a boolean|a string) value\.",
     "attr-type:%s"),
    (r"Attribute '.*' must be a comma-delimited list of back end", "attr-back-ends"),
    (r"Attribute '([^']*)' must be '", "attr-choice:%s"),
    (r"Back end specifier '(.*)' does not match any expected back end", "back-end-mismatch:%s"),
    (r"Struct is marked as fixed size, but contains variable-location", "fixed-size-variable"),
    (r"Struct is -?\d+ bits, but is marked as -?\d+ bits\.", "fixed-size-mismatch"),
    (r"'maximum_bits' on an 'enum' must be between 1 and 64\.", "max-bits-range"),
    (r"Expected 'addressable_unit_size' attribute for external type\.", "unit-missing"),
    (r"Only values '1' \(bit\) and '8' \(byte\) are allowed", "unit-bad"),
    (r"Attribute 'byte_order' not allowed on field which is not byte order", "bo-not-allowed"),
    (r"Attribute 'byte_order' required on field which is byte order", "bo-required"),
    (r"Attribute 'byte_order' may only be 'Null' for one-byte fields\.", "bo-null"),
    (r"Attribute 'requires' is only allowed on .* fields, not arrays\.", "requires-array"),
    (r"Attribute 'requires' is only allowed on .* fields\.", "requires-type"),
    (r"Byte-oriented .* cannot be used in a bits field\.", "byte-in-bits"),
    (r"Array elements must be fixed size\.", "elem-not-fixed"),
    (r"Array elements in structs must have sizes which are a multiple of 8 bits\.", "elem-not-bytes"),
    (r"Array dimensions can only be omitted for the outermost dimension\.", "inner-auto"),
    (r"Inner array dimensions must be constant\.", "inner-dyn"),
    (r"`bits` types must be fixed size\.", "bits-not-fixed"),
    (r"`bits` types must be 64 bits or smaller\.", "bits-too-big"),
    (r"Explicit size of -?\d+ bits does not match fixed size", "explicit-mismatch"),
    (r"Fixed-size .* cannot be placed in field of size", "fixed-wrong-field"),
    (r"Field of maximum size .* cannot hold fixed-size", "field-too-small"),
    (r"Enumeration .* cannot be placed in a dynamically-sized field\.", "enum-dynamic"),
    (r"Enumeration .* cannot be -?\d+ bits; .* must be between", "enum-width"),
    (r"Requirements of (.*) not met\.", "req-not-met:%s"),
    (r".* reserved word may not be used as a field name\.", "reserved-field"),
    (r".* reserved word may not be used as an enum name\.", "reserved-enum"),
    (r".* reserved word may not be used as a type name\.", "reserved-type"),
    (r"Static references must refer to constants\.", "static-ref"),
    (r"Value -?\d+ is out of range for -?\d+-bit (?:un)?signed enumeration\.", "enum-value-range"),
    (r"Integer range of parameter must not be unbounded", "param-bounds"),
    (r"Potential range of parameter is ", "param-bounds"),
    (r"Constant value .* of parameter cannot fit", "param-bounds"),
    (r"Integer range of expression must not be unbounded", "gate:unbounded"),
    (r"Potential range of expression is ", "gate:range"),
    (r"Constant value .* of expression cannot fit", "gate:const"),
    (r"Either all arguments to '.*' and its result must fit in a 64-bit", "gate:mixed"),
]
_COMPILED = [(re.compile(p), k) for p, k in _PATTERNS]


def classify(message):
    first = message.split("\n")[0]
    for rx, kind in _COMPILED:
        m = rx.match(first)
        if m:
            return kind % m.groups() if "%s" in kind else kind
    return "other:" + first


def real_kinds(errors):
    """Error kinds of the real error groups (first message of each group), IN THE ORDER the
    front end reports them."""
    return [classify(g[0].message) for g in errors]


EARLY_KINDS = {"param-needs-size", "param-enum-sized"}
# kinds reported by attribute_util._check_attributes (the attribute-table rule family)
ATTR_TABLE_KINDS = ("dup-attr", "unknown-attr", "no-default", "attr-type", "attr-const", "attr-choice",
                    "attr-back-ends")


# kinds reported by attribute_checker._verify_attributes_on_ir, and those of its `Field` traversal
VERIFY_KINDS = ("back-end-mismatch", "fixed-size-variable", "fixed-size-mismatch", "max-bits-range",
                "unit-missing", "unit-bad", "bo-not-allowed", "bo-required", "bo-null", "requires-array",
                "requires-type")
FIELD_VERIFY_KINDS = ("bo-not-allowed", "bo-required", "bo-null", "requires-array", "requires-type")


def fields_by_id(program):
    """(type id, field name) -> field of the abstract program; and the value spans of every
    `$default byte_order` attribute (where an inherited byte order's errors are reported)."""
    out, defaults = {}, set()

    def note(attrs):
        for a in attrs:
            if a["d"] and a["n"] == "byte_order":
                defaults.add(a["loc"]["value"])

    def go(td):
        note(td["attrs"])
        for f in td["fields"]:
            out.setdefault((td["id"], f["name"]), f)
        for s in td["sub"]:
            go(s)
    for m in program:
        note(m["attrs"])
        for td in m["types"]:
            go(td)
    return out, defaults


def attr_lists(program):
    """The attribute lists `check_attributes_in_ir` visits, in its order (four traversals: modules;
    type definitions in preorder; the fields of each type definition; the enum values of each),
    each with the scope whose table applies.  From the abstract program."""
    out = []

    def types(tds):
        for td in tds:
            yield td
            for s in types(td["sub"]):
                yield s
    alltypes = [td for m in program for td in types(m["types"])]
    for m in program:
        out.append(("module", m["attrs"]))
    for td in alltypes:
        if td["kind"] == "struct":
            scope = {8: "struct", 1: "bits"}.get(td["unit"])
            if scope is None:
                raise OutOfScope("structure without addressable unit")
        else:
            scope = td["kind"]
        out.append((scope, td["attrs"]))
    for td in alltypes:
        for f in td["fields"]:
            out.append(("vfield" if f["virtual"] else "field", f["attrs"]))
    for td in alltypes:
        for v in td["values"]:
            out.append(("value", v["attrs"]))
    return out
