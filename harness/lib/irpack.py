"""irpack — serialise the *real* post-front-end IR of a module into the compact S-expression the
Lean driver `model_c01` parses (op `IR <sexpr>`), so that the model interprets exactly what the
compiler produced (existence conditions, locations, synthesized `$size_in_*`, `$next` already
resolved, aliases of anonymous bits, type annotations used for constant folding).

    sexpr = irpack.pack(prepared)        # prepared = cppdrv.prepare(text)

Grammar (tokens separated by blanks, names never contain blanks or parentheses):
  (module STRUCT*)
  STRUCT := (struct NAME UNIT (params NAME*) SIZEFIELD REQ (fields FIELD*))
  FIELD  := (field NAME ANON COND KIND)             ANON := 0|1
  KIND   := (phys START SIZE TYPE BO) | (virt VALUE REQ) | (alias NAME+)      BO := le|be|null
  TYPE   := (scalar SK BITS REQ) | (struct NAME BITS (args EXPR*)) | (array TYPE ELEMSIZE)
  SK     := uint|int|flag|bcd|float|(enum WIDTH SIGNED)
  REQ    := none | EXPR
  EXPR   := (i N) | (b 0|1) | (fold VAL EXPR) | (ref NAME+) | (param NAME) | (has NAME+) | lv
            | (op FN EXPR*)          FN := add sub mul eq ne lt le gt ge and or choice max
  VAL    := (i N) | (b 0|1)
The translation is purely structural; the only decisions are the ones `header_generator.py`
itself makes from the IR: a node whose type annotation is a single value becomes `fold`
(`_render_expression`), references inside a `[requires]` validator become `lv`
(`_ValidatorFieldReader`), path components are reduced to their last name (`_render_variable`).
"""
from harness.lib import common  # noqa: F401

from compiler.util import ir_data, ir_util

_FN = {"ADDITION": "add", "SUBTRACTION": "sub", "MULTIPLICATION": "mul", "EQUALITY": "eq",
       "INEQUALITY": "ne", "AND": "and", "OR": "or", "LESS": "lt", "LESS_OR_EQUAL": "le",
       "GREATER": "gt", "GREATER_OR_EQUAL": "ge", "CHOICE": "choice", "MAXIMUM": "max"}


class Unsupported(Exception):
    pass


def _fold_value(e):
    t = e.type
    if t.which_type == "integer" and t.integer.modulus == "infinity":
        return "(i %d)" % int(t.integer.modular_value)
    if t.which_type == "boolean" and t.boolean.has_field("value"):
        return "(b %d)" % (1 if t.boolean.value else 0)
    if t.which_type == "enumeration" and t.enumeration.has_field("value"):
        return "(i %d)" % int(t.enumeration.value)
    return None


def _names(field_reference):
    return " ".join(p.canonical_name.object_path[-1] for p in field_reference.path)


def pack_expr(e, params, validator=False):
    fv = _fold_value(e)
    w = e.which_expression
    if w == "constant" or w == "boolean_constant" or w == "constant_reference":
        if fv is None:
            raise Unsupported("constant without constant type")
        return fv
    try:
        raw = _pack_raw(e, params, validator)
    except Unsupported:
        if fv is None:
            raise
        return fv
    if fv is not None:
        return "(fold %s %s)" % (fv, raw)
    return raw


def _pack_raw(e, params, validator):
    w = e.which_expression
    if w == "field_reference":
        if validator:
            return "lv"
        path = e.field_reference.path
        last = path[-1].canonical_name.object_path[-1]
        if len(path) == 1 and last in params:
            return "(param %s)" % last
        return "(ref %s)" % _names(e.field_reference)
    if w == "builtin_reference":
        if e.builtin_reference.canonical_name.object_path[-1] == "$logical_value":
            return "lv"
        raise Unsupported("builtin " + str(e.builtin_reference.canonical_name.object_path))
    if w == "function":
        fn = ir_data.FunctionMapping(e.function.function).name
        if fn == "PRESENCE":
            return "(has %s)" % _names(e.function.args[0].field_reference)
        if fn not in _FN:
            raise Unsupported("function " + fn)
        return "(op %s %s)" % (_FN[fn], " ".join(pack_expr(a, params, validator) for a in e.function.args))
    raise Unsupported("expression " + str(w))


def _req(attrs, params):
    a = ir_util.get_attribute(attrs, "requires")
    if a is None:
        return "none"
    return pack_expr(a.expression, params, validator=True)


def _byte_order(attrs):
    a = ir_util.get_attribute(attrs, "byte_order")
    if a is None:
        return "null"
    return {"LittleEndian": "le", "BigEndian": "be", "Null": "null"}[a.string_constant.text]


def _type_name(td):
    return ".".join(td.name.canonical_name.object_path)


def pack_type(type_ir, size_bits, ir, parent_unit, params, req):
    if ir_util.is_array(type_ir):
        base = type_ir.array_type.base_type
        eb = ir_util.fixed_size_of_type_in_bits(base, ir)
        if not eb or eb % parent_unit:
            raise Unsupported("array element size")
        return "(array %s %d)" % (pack_type(base, eb, ir, parent_unit, params, "none"), eb // parent_unit)
    ref = type_ir.atomic_type.reference
    td = ir_util.find_object(ref, ir)
    name = td.name.canonical_name.object_path[-1]
    if td.has_field("external"):
        if td.name.canonical_name.module_file != "" or name not in ("UInt", "Int", "Bcd", "Flag", "Float"):
            raise Unsupported("external " + name)
        if size_bits is None:
            raise Unsupported("scalar without constant size")
        return "(scalar %s %d %s)" % (name.lower(), size_bits, req)
    if td.has_field("enumeration"):
        if size_bits is None:
            raise Unsupported("enum without constant size")
        w = ir_util.get_integer_attribute(td.attribute, "maximum_bits")
        s = ir_util.get_boolean_attribute(td.attribute, "is_signed")
        width = [x for x in (8, 16, 32, 64) if w <= x][0]
        return "(scalar (enum %d %d) %d %s)" % (width, 1 if s else 0, size_bits, req)
    if td.has_field("structure"):
        bits = 0
        if parent_unit == 8 and td.addressable_unit == 1:
            if size_bits is None:
                raise Unsupported("bits field without constant size")
            bits = size_bits
        args = " ".join(_pack_argument(a, rp, params)
                        for a, rp in zip(type_ir.atomic_type.runtime_parameter, td.runtime_parameter))
        return "(struct %s %d (args %s))" % (_type_name(td), bits, args)
    raise Unsupported("type " + name)


def _argument_range_checked():
    """Does this header generator refuse arguments outside the declared range of their parameter
    (proposed repair fixes/C01-argument-outside-parameter-range.patch)?  Feature detection on the
    real back end, so that the model follows whichever code is checked out."""
    from compiler.back_end.cpp import header_generator
    return hasattr(header_generator, "_render_argument_range_checks")


def _pack_argument(a, rp, params):
    """One constructor argument.  With the range check in place the accessor treats an argument
    outside the parameter's declared range like an unreadable one (null view): modelled as
    `in_range ? arg : <reference to a field that does not exist>` (the latter is always unknown);
    like the back end, only for arguments whose inferred range does not already fit."""
    e = pack_expr(a, params)
    if not _argument_range_checked() or a.type.which_type != "integer" or rp.type.which_type != "integer":
        return e
    alo, ahi = int(a.type.integer.minimum_value), int(a.type.integer.maximum_value)
    dlo, dhi = int(rp.type.integer.minimum_value), int(rp.type.integer.maximum_value)
    conds = []
    if alo < dlo:
        conds.append("(op ge %s (i %d))" % (e, dlo))
    if ahi > dhi:
        conds.append("(op le %s (i %d))" % (e, dhi))
    if not conds:
        return e
    cond = conds[0] if len(conds) == 1 else "(op and %s %s)" % tuple(conds)
    return "(op choice %s %s (ref $no_such_field))" % (cond, e)


def pack_field(f, ir, unit, params):
    name = f.name.name.text
    anon = 1 if f.name.is_anonymous else 0
    cond = pack_expr(f.existence_condition, params)
    if ir_util.field_is_virtual(f):
        if f.write_method.which_method == "alias":
            kind = "(alias %s)" % _names(f.write_method.alias)
        else:
            value = pack_expr(f.read_transform, params)
            req = _req(f.attribute, params)
            # header_generator picks the *constant* virtual-field template when value and existence
            # condition are compile-time constants; that template's Ok() is `return true` and never
            # evaluates the validator
            if (value.startswith("(fold") or value.startswith("(i ") or value.startswith("(b ")) and \
                    (cond.startswith("(fold") or cond.startswith("(b ")):
                req = "none"
            kind = "(virt %s %s)" % (value, req)
    else:
        size_bits = None
        if f.type.has_field("size_in_bits"):
            size_bits = ir_util.constant_value(f.type.size_in_bits)
        elif ir_util.is_constant(f.location.size):
            size_bits = ir_util.constant_value(f.location.size) * unit
        ty = pack_type(f.type, size_bits, ir, unit, params, _req(f.attribute, params))
        kind = "(phys %s %s %s %s)" % (pack_expr(f.location.start, params), pack_expr(f.location.size, params),
                                       ty, _byte_order(f.attribute))
    return "(field %s %d %s %s)" % (name, anon, cond, kind)


def pack_struct(t, ir):
    unit = int(t.addressable_unit)
    params = [p.name.name.text for p in t.runtime_parameter]
    size_field = "$size_in_bytes" if unit == 8 else "$size_in_bits"
    a = ir_util.get_attribute(t.attribute, "requires")
    req = "none" if a is None else pack_expr(a.expression, params)
    fields = " ".join(pack_field(f, ir, unit, params) for f in t.structure.field)
    return "(struct %s %d (params %s) %s %s (fields %s))" % (_type_name(t), unit, " ".join(params), size_field,
                                                          req, fields)


def pack(prepared):
    """-> (sexpr, unsupported) ; structures the packer cannot express are listed in `unsupported`
    (name -> reason) and left out; the caller must not send OBS for them (or for users of them)."""
    ir = prepared.ir_obj
    out, bad = [], {}

    def walk(types):
        for t in types:
            if t.has_field("structure"):
                try:
                    out.append(pack_struct(t, ir))
                except Unsupported as e:
                    bad[_type_name(t)] = str(e)
            walk(t.subtype)
    walk(ir.module[0].type)
    return "(module %s)" % " ".join(out), bad
