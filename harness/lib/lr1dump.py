"""Dump real `lr1.Parser` objects into the line protocol of `model_c08`, and render real
parse results in the model's canonical form (shared by C08 and C09)."""
import collections

from harness.lib import common  # noqa: F401  (puts VERIF_REPO on sys.path)


def lr1mod():
    from compiler.front_end import lr1
    return lr1


def ptypes():
    from compiler.util import parser_types
    return parser_types


class Interner(object):
    """symbol / error code -> small natural number (stable within a run)."""

    def __init__(self):
        self.ids = {}
        self.names = []

    def __call__(self, x):
        i = self.ids.get(x)
        if i is None:
            i = self.ids[x] = len(self.names)
            self.names.append(x)
        return i

    def has(self, x):
        return x in self.ids


def ordered_interner(symbols):
    """Interner whose codes for `symbols` are ascending in Python's order of the symbols (the
    model generator `gen` numbers states by iterating symbols in code order, `Grammar._items` in
    `sorted` order)."""
    it = Interner()
    for x in sorted(set(symbols)):
        it(x)
    return it


def gen_expected(parser, all_prods, sym):
    """The real parser in the canonical form printed by the driver op `GEN`."""
    lr1 = lr1mod()
    pidx = dict((p, i) for i, p in enumerate(all_prods))
    items = ";".join("%d:%s" % (i, ",".join("%d.%d.%d" % t for t in sorted(
        (pidx[it.production], it.dot, sym(it.terminal)) for it in s))) for i, s in enumerate(parser.item_sets))
    if parser.conflicts:
        acts = "?"
    else:
        rows = []
        for i in sorted(parser.action.keys()):
            if not parser.action[i]:
                continue
            ents = []
            for a, act in sorted(parser.action[i].items(), key=lambda kv: sym(kv[0])):
                if isinstance(act, lr1.Shift):
                    v = "S%d" % act.state
                elif isinstance(act, lr1.Reduce):
                    v = "R%d" % pidx[act.rule]
                elif isinstance(act, lr1.Accept):
                    v = "A"
                else:
                    v = "EN" if act.code is None else "E?"
                ents.append("%d=%s" % (sym(a), v))
            rows.append("%d:%s" % (i, ",".join(ents)))
        acts = ";".join(rows)
    grows = []
    for i in sorted(parser.goto.keys()):
        if parser.goto[i]:
            grows.append("%d:%s" % (i, ",".join("%d=%d" % (k, t) for k, t in sorted(
                (sym(x), t) for x, t in parser.goto[i].items()))))
    return "gen conflicts=%d n=%d items=%s actions=%s gotos=%s" % (
        1 if parser.conflicts else 0, len(parser.item_sets), items, fld(acts), fld(";".join(grows)))


def gen_line(start, user_prods, sym):
    lr1 = lr1mod()
    return "GEN %d %d %d %s" % (sym(start), sym(lr1.START_PRIME), sym(lr1.END_OF_INPUT),
                                rules_text(user_prods, sym))


def fld(s):
    return s if s else "-"


def rules_text(rules, sym):
    return fld(";".join("%d>%s" % (sym(p.lhs), ",".join(str(sym(x)) for x in p.rhs)) for p in rules))


def dump_automaton(parser, slot, strict, sym, code, prod_list=None):
    """AUT line for a real Parser.  `prod_list`: list of productions defining the numbering
    used by Reduce actions (default: parser.productions if it is a list, else sorted)."""
    lr1 = lr1mod()
    if prod_list is None:
        prod_list = list(parser.productions) if isinstance(parser.productions, list) else sorted(
            parser.productions)
    prod_list = list(prod_list)
    pidx = {}
    for i, p in enumerate(prod_list):
        pidx.setdefault(p, i)
    rows = []
    for s in sorted(parser.action.keys()):
        ents = []
        for a, act in parser.action[s].items():
            if isinstance(act, lr1.Shift):
                v = "S%d" % act.state
            elif isinstance(act, lr1.Reduce):
                if act.rule not in pidx:
                    pidx[act.rule] = len(prod_list)
                    prod_list.append(act.rule)
                v = "R%d" % pidx[act.rule]
            elif isinstance(act, lr1.Accept):
                v = "A"
            elif isinstance(act, lr1.Error):
                v = "EN" if act.code is None else "E%d" % code(act.code)
            else:
                raise common.InfraError("unknown action %r" % (act,))
            ents.append("%d=%s" % (sym(a), v))
        rows.append("%d:%s" % (s, ",".join(ents)))
    grows = []
    for s in sorted(parser.goto.keys()):
        grows.append("%d:%s" % (s, ",".join("%d=%d" % (sym(x), t) for x, t in parser.goto[s].items())))
    defs = ",".join("%d=%d" % (s, code(c)) for s, c in sorted(parser.default_errors.items()))
    return "AUT %s %d %d %s %s %s %s" % (slot, 1 if strict else 0, sym(lr1.END_OF_INPUT),
                                         rules_text(prod_list, sym), fld(";".join(rows)),
                                         fld(";".join(grows)), fld(defs)), prod_list


def gram_line(start, user_prods, sym):
    lr1 = lr1mod()
    return "GRAM %d %d %d %s" % (sym(start), sym(lr1.START_PRIME), sym(lr1.END_OF_INPUT),
                                 rules_text(user_prods, sym))


def first_sets(all_prods):
    """FIRST / nullable least fixed point, computed here (the certificate is untrusted: the
    validator only needs it to be closed)."""
    nts = set(p.lhs for p in all_prods)
    first = dict((n, set()) for n in nts)
    nullable = set()
    changed = True
    while changed:
        changed = False
        for p in all_prods:
            alln = True
            for x in p.rhs:
                add = first[x] if x in nts else {x}
                if not add <= first[p.lhs]:
                    first[p.lhs] |= add
                    changed = True
                if x not in nullable:
                    alln = False
                    break
            if alln and p.lhs not in nullable:
                nullable.add(p.lhs)
                changed = True
    return nts, first, nullable


def order_items(items, all_idx, seed_idx):
    """Kernel items first, then closure items in an order in which each is preceded by an item
    whose next symbol is its left-hand side (breadth first).  Unjustifiable items go last
    (the validator then rejects the certificate)."""
    kernel = sorted((all_idx[it.production], it.dot, it.terminal) for it in items
                    if it.dot > 0 or all_idx[it.production] == seed_idx)
    by_lhs = collections.defaultdict(list)
    for it in items:
        if it.dot == 0 and all_idx[it.production] != seed_idx:
            by_lhs[it.production.lhs].append(it)
    byk = dict(((all_idx[it.production], it.dot, it.terminal), it) for it in items)
    out, done_lhs = [], set()
    queue = [byk[k] for k in kernel]
    qi = 0
    while qi < len(queue):
        it = queue[qi]
        qi += 1
        out.append(it)
        x = it.next_symbol
        if x is not None and x in by_lhs and x not in done_lhs:
            done_lhs.add(x)
            queue.extend(sorted(by_lhs[x], key=lambda j: (all_idx[j.production], j.terminal)))
    if len(out) != len(items):
        seen = set(id(o) for o in out)
        out.extend(it for it in items if id(it) not in seen)
    return out


def cert_line(parser, all_prods, sym):
    all_idx = dict((p, i) for i, p in enumerate(all_prods))
    seed_idx = len(all_prods) - 1
    nts, first, nullable = first_sets(all_prods)
    rows = []
    for s, items in enumerate(parser.item_sets):
        rows.append("%d:%s" % (s, ",".join(
            "%d.%d.%d" % (all_idx[it.production], it.dot, sym(it.terminal))
            for it in order_items(items, all_idx, seed_idx))))
    ftxt = ";".join("%d:%s" % (sym(n), ",".join(str(sym(x)) for x in sorted(first[n])))
                    for n in sorted(nts))
    return "CERT %s %s %s %s" % (fld(";".join(rows)), fld(ftxt),
                                 fld(",".join(str(sym(n)) for n in sorted(nullable))),
                                 fld(",".join(str(sym(n)) for n in sorted(nts))))


def make_tokens(symbols):
    pt = ptypes()
    return [pt.Token(s, str(i), None) for i, s in enumerate(symbols)]


def render_tree(t, index_of, sym):
    lr1 = lr1mod()
    if isinstance(t, lr1.Reduction):
        return "(%d>%s%s)" % (sym(t.production.lhs), ",".join(str(sym(x)) for x in t.production.rhs),
                              "".join(" " + render_tree(c, index_of, sym) for c in t.children))
    return "t%d.%d" % (sym(t.symbol), index_of[id(t)])


def tree_tuple(t, index_of):
    """Real parse tree -> oracle format, checking Reduction.symbol and source_location too."""
    lr1 = lr1mod()
    if isinstance(t, lr1.Reduction):
        if t.symbol != t.production.lhs:
            raise ValueError("Reduction.symbol %r != production.lhs %r" % (t.symbol, t.production.lhs))
        return ("node", t.production.lhs, tuple(t.production.rhs),
                [tree_tuple(c, index_of) for c in t.children])
    return ("leaf", t.symbol, index_of.get(id(t), -1))


class ParseTimeout(Exception):
    """The real `Parser.parse` did not return within the time limit (it loops)."""


def _parse_alarm(signum, frame):
    raise ParseTimeout()


def real_parse(parser, tokens, sym, code, limit=None):
    """(canonical line, ParseResult | None, exception | None).  `limit` (seconds, main thread
    only): a parse that does not return in time is reported as ParseTimeout — a table with a
    reduction cycle makes `parse` push entries forever (≈ 100 MB/s), which must end the case,
    not the run."""
    import signal
    old = None
    if limit:
        old = signal.signal(signal.SIGALRM, _parse_alarm)
        signal.setitimer(signal.ITIMER_REAL, limit)
    try:
        res = parser.parse(tokens)
    except ParseTimeout as e:
        return "internal ParseTimeout", None, e
    except Exception as e:  # any exception from lr1 is itself an observation
        return "internal %s" % type(e).__name__, None, e
    finally:
        if limit:
            signal.setitimer(signal.ITIMER_REAL, 0)
            signal.signal(signal.SIGALRM, old)
    index_of = dict((id(t), i) for i, t in enumerate(tokens))
    if res.error is None:
        return "accept " + render_tree(res.parse_tree, index_of, sym), res, None
    e = res.error
    exp = sorted(sym(x) for x in e.expected_tokens)
    return "error %s %d %d %s" % ("N" if e.code is None else str(code(e.code)), e.index, e.state,
                                  ",".join(map(str, exp)) if exp else "-"), res, None
