"""viewcorr — shared correspondence machinery of C01 / C04 / C20 (builder `view`).

Builds a set of *cases* (repo testdata files, corpus files, random embgen modules), compiles one
sanitized C++ driver per case (cppdrv), and offers command generators and runners that survive
driver crashes (a sanitizer report / CHECK abort kills the process: the offending command is
recorded and the rest of the list is re-run).
"""
import collections
import glob
import os

from harness.lib import common, cppdrv, embgen, embref, irpack

TESTDATA = ["condition.emb", "dynamic_size.emb", "nested_structure.emb", "parameters.emb",
            "virtual_field.emb", "bits.emb", "anonymous_bits.emb", "next_keyword.emb", "requires.emb",
            "auto_array_size.emb"]

# the first finding of the framework: 1-byte fields without byte order ("Null" byte order) read one
# byte past a truncated buffer; pinned so that every run of C04 re-executes it
NULL_ORDER_TEXT = "struct Foo:\n  0 [+1]  UInt  x\n  1 [+1]  UInt  y\n"


class Case:
    def __init__(self, name, text, gen=None):
        self.name, self.text, self.gen = name, text, gen
        self.prepared = None
        self.binary = None
        self.build_log = ""
        self.sexpr = None
        self.unsupported = {}
        self.max_size = {}
        self.pinned_cmds = []     # corpus/<prop>/<name>.cmds: commands replayed on every run

    def roots(self, limit=8):
        out = [si for si in self.prepared.structs.values() if si.unit == 8 and si.name not in self.unsupported]
        return out[:limit]


def _max_size(si):
    for f in si.type_ir["structure"].get("field", []):
        if f["name"]["name"]["text"] == "$max_size_in_bytes":
            t = f.get("read_transform", {}).get("type", {}).get("integer", {})
            if t.get("modulus") == "infinity":
                return int(t["modular_value"])
    return None


def make_cases(chk, r, n_random, testdata=TESTDATA, corpus_prop=None, null_order_modules=0, dist=None,
               logic_probes=False):
    """testdata + corpus first, then random modules.  Rejected random modules are counted."""
    cases = []
    for fn in testdata:
        path = os.path.join(common.REPO, "testdata", fn)
        if os.path.exists(path):
            with open(path) as f:
                cases.append(Case("testdata/" + fn, f.read()))
    if corpus_prop:
        for path in sorted(glob.glob(os.path.join(common.VERIF, "corpus", corpus_prop, "*.emb"))):
            with open(path) as f:
                c = Case("corpus/" + os.path.basename(path), f.read())
            side = path[:-4] + ".cmds"
            if os.path.exists(side):
                with open(side) as f:
                    c.pinned_cmds = [l.strip() for l in f if l.strip() and not l.startswith("#")]
            cases.append(c)
    dist = dist if dist is not None else embgen.Distribution()
    tries = 0
    made = 0
    while made < n_random and tries < n_random * 3:
        tries += 1
        m = embgen.gen_module(r, default_byte_order=made >= null_order_modules, logic_probes=logic_probes)
        c = Case("random/%d" % made, m.text, gen=m)
        cases.append(c)
        made += 1
        dist.add(m)
    cap = int(os.environ.get("VERIF_VIEW_MAX_CASES", "0"))   # smoke tests only: keep the first n cases
    if cap:
        cases = cases[:2] + cases[-max(0, cap - 2):] if cap > 2 else cases[:cap]
    good = []
    for c in cases:
        p = cppdrv.prepare(c.text)
        if not p.ok:
            why = repr(p.exception) if p.exception else (p.errors[0][0][3] if p.errors else "?")
            if c.gen is not None:
                dist.reject(why)
            else:
                chk.extra.setdefault("skipped_files", {})[c.name] = why[:120]
            continue
        c.prepared = p
        try:
            c.sexpr, c.unsupported = irpack.pack(p)
        except Exception as e:  # noqa: BLE001
            c.sexpr, c.unsupported = None, {"*": repr(e)}
        for si in p.structs.values():
            c.max_size[si.name] = _max_size(si)
        good.append(c)
    return good, dist


def generated_cases(modules, prefix, dist):
    """Cases for already generated embgen modules (same preparation as make_cases)."""
    good = []
    for i, m in enumerate(modules):
        c = Case("%s/%d" % (prefix, i), m.text, gen=m)
        dist.add(m)
        p = cppdrv.prepare(c.text)
        if not p.ok:
            dist.reject(repr(p.exception) if p.exception else (p.errors[0][0][3] if p.errors else "?"))
            continue
        c.prepared = p
        try:
            c.sexpr, c.unsupported = irpack.pack(p)
        except Exception as e:  # noqa: BLE001
            c.sexpr, c.unsupported = None, {"*": repr(e)}
        for si in p.structs.values():
            c.max_size[si.name] = _max_size(si)
        good.append(c)
    return good


def build_cases(cases, features, std="c++14", compiler="g++", defines=(), opt="-O0", workers=8,
                eq_params_ok=False):
    workers = int(os.environ.get("VERIF_CPP_WORKERS", workers))   # parallel g++ jobs (default 8)
    res = cppdrv.build([c.prepared for c in cases], std=std, compiler=compiler, defines=defines, opt=opt,
                       workers=workers, features=features, eq_params_ok=eq_params_ok)
    for c, (b, log) in zip(cases, res):
        c.binary, c.build_log = b, log
    return [c for c in cases if c.binary is None]


def _const_int(expr):
    t = (expr or {}).get("type", {}).get("integer", {})
    if t.get("modulus") == "infinity":
        return int(t["modular_value"])
    return None


def fixed_scalar_spans(si):
    """[(start, size)] in bytes of the physical fields of a byte structure whose location is a
    compile-time constant (read off the IR's own annotations; nested structures are not entered)."""
    out = []
    if si.unit != 8:
        return out
    for f in si.type_ir["structure"].get("field", []):
        loc = f.get("location")
        if not loc:
            continue
        a, n = _const_int(loc.get("start")), _const_int(loc.get("size"))
        if a is not None and n is not None and 0 < n <= 8 and a >= 0:
            out.append((a, n))
    return out


_PATTERNS = {
    "min_le": lambda n: bytes([0] * (n - 1) + [0x80]), "min_be": lambda n: bytes([0x80] + [0] * (n - 1)),
    "max_le": lambda n: bytes([0xFF] * (n - 1) + [0x7F]), "max_be": lambda n: bytes([0x7F] + [0xFF] * (n - 1)),
    "ones": lambda n: bytes([0xFF] * n), "zero": lambda n: bytes(n), "one_le": lambda n: bytes([1] + [0] * (n - 1)),
    "min1_le": lambda n: bytes([1] + [0] * (n - 2) + [0x80]) if n > 1 else bytes([0x81]),
}


def boundary_buffers(r, si, length, n_mixed=2):
    """Buffers in which every fixed-position field holds an extreme of its type: the minimum /
    maximum of a two's-complement integer in either byte order (0x80 00…, 00… 0x80, 0x7f ff…),
    all-ones, zero — the contents at which carrier-type choices and text widths matter."""
    spans = [(a, n) for a, n in fixed_scalar_spans(si) if a + n <= length]
    if not spans:
        return []
    out = []
    base = embgen.buffers(r, 3, length)[2]
    plans = [[k] * len(spans) for k in ("min_le", "min_be", "max_le", "max_be")]
    for _ in range(n_mixed):
        plans.append([r.choice(sorted(_PATTERNS)) for _ in spans])
    for plan in plans:
        b = bytearray(base)
        for (a, n), k in sorted(zip(spans, plan), key=lambda x: -x[0][1]):   # small fields last (overlaps)
            b[a:a + n] = _PATTERNS[k](n)
        out.append(bytes(b))
    return out


TEXT_OPTION_SETS = ("d", "2", "x", "2g", "xg", "dg", "2gmc", "dgmc", "xgmc", "2p", "2gmcp", "dgmcp", "xgp", "2m", "dc")
GARBAGE_TEXTS = (b"", b"{", b"}", b"{ }", b"{{{{", b"{ x: }", b"{ : 1 }", b"{ a: 99999999999999999999999999 }",
                 b"{ a: -0b1 }", b"{ a: 0x }", b"[1, 2", b"{ a: { b: { c: [ [0]: 1, [99999999999]: 2 ] } } }",
                 b"# comment only", b"{ a: 1, a: 2, , }", b"\x00\xff{", b"{ $size_in_bytes: 3 }")


def text_commands(r, case, tier="quick", cap=24):
    """TXT / UPD commands: WriteToString under every option set (bases 2/10/16, digit grouping,
    multiline, comments, allow_partial_output) on boundary / random / truncated buffers, and
    UpdateFromText on the produced text (inside TXT) and on garbage (UPD)."""
    out = []
    quick = tier == "quick"
    for si in case.roots():
        ms = case.max_size.get(si.name)
        length = min(cap, ms if ms is not None else cap)
        for pv in param_values(r, si, case)[:1]:
            ps = "".join("%d " % x for x in pv)
            bufs = boundary_buffers(r, si, length, 1 if quick else 3)
            bufs += embgen.buffers(r, 4 if quick else 7, length)[1:]
            trunc = [b[:r.randrange(len(b) + 1)] for b in bufs[:3]] + [b""]
            for i, b in enumerate(bufs):
                opts = TEXT_OPTION_SETS if (i < 4 or not quick) else r.sample(TEXT_OPTION_SETS, 4)
                for o in opts:
                    out.append("TXT %s %s%s %s" % (si.name, ps, o, b.hex() or "-"))
            for b in trunc:
                for o in ("2gmcp", "dp", "xgp", "dgmcp"):
                    out.append("TXT %s %s%s %s" % (si.name, ps, o, b.hex() or "-"))
            names = [nm for nm, _a, anon in si.fields if not anon and not nm.startswith("$")]
            texts = list(GARBAGE_TEXTS)
            for nm in names[:4]:
                for val in ("0", "-1", "18446744073709551616", "-9223372036854775809", "0b" + "1" * 65, "true", "XX",
                            "{ }", "{ [0]: 0 }", "0x_", "1_000", "-0x8000_0000_0000_0000"):
                    texts.append(("{ %s: %s }" % (nm, val)).encode())
            b0 = bufs[-1] if bufs else b""
            for t in texts if not quick else texts[:len(GARBAGE_TEXTS)] + r.sample(texts[len(GARBAGE_TEXTS):],
                                                                                 min(12, len(texts) - len(GARBAGE_TEXTS))):
                out.append("UPD %s %s%s %s" % (si.name, ps, b0.hex() or "-", t.hex() or "-"))
    return out


def write_commands(r, case, n_buf=2, cap=24):
    """WR commands: every top-level field (and one level of nesting) of every root structure x
    interesting values incl. the extremes of the accessor's C++ value type."""
    out = []
    for si in case.roots():
        ms = case.max_size.get(si.name)
        length = min(cap, ms if ms is not None else cap)
        paths = []
        for nm, _acc, anon in si.fields:
            if anon or nm.startswith("$"):
                continue
            paths.append(nm)
        # one level of nesting
        for f in si.type_ir["structure"].get("field", []):
            ty = f.get("type", {})
            if "atomic_type" in ty and not f["name"].get("is_anonymous"):
                target = ".".join(ty["atomic_type"]["reference"]["canonical_name"]["object_path"])
                if target in case.prepared.structs:
                    for nm2, _a2, anon2 in case.prepared.structs[target].fields:
                        if not anon2 and not nm2.startswith("$"):
                            paths.append(f["name"]["name"]["text"] + "." + nm2)
        for pv in param_values(r, si, case)[:1]:
            bufs = embgen.buffers(r, 2 + n_buf, length)[2:]
            bufs.append(bufs[0][:max(0, length // 2)])
            bufs += boundary_buffers(r, si, length, 0)[:2]
            for path in paths:
                for val in ("0", "1", "MAX", "MIN", "-1", str(r.randrange(256)), str(r.randrange(1 << 32))):
                    for b in bufs:
                        out.append("WR %s %s%s %s %s" % (si.name, "".join("%d " % x for x in pv), path, val,
                                                          b.hex() or "-"))
    return out


def pair_commands(r, case, n_pairs=6, cap=24, ops=("EQ", "CP", "CPO")):
    """EQ / CP / CPO commands over pairs of buffers: equal, one bit flipped, different lengths,
    truncated, random, and overlapping windows of one arena at every shift."""
    out = []
    for si in case.roots():
        ms = case.max_size.get(si.name)
        length = min(cap, (ms if ms is not None else cap) + 1)
        for pv in param_values(r, si, case)[:1]:
            ps = "".join("%d " % x for x in pv)
            bases = embgen.buffers(r, 2 + n_pairs, length)
            pairs = []
            for a in bases:
                b = bytearray(a)
                kind = r.choice(["same", "bit", "bit", "len", "trunc", "other", "tail"])
                if kind == "bit" and b:
                    i = r.randrange(len(b))
                    b[i] ^= 1 << r.randrange(8)
                elif kind == "len":
                    b = b + bytes([r.randrange(256)])
                elif kind == "trunc":
                    b = b[:r.randrange(len(b) + 1)]
                elif kind == "other":
                    b = bytearray(r.choice(bases))
                elif kind == "tail" and b:
                    b[-1] ^= 0xFF
                pairs.append((bytes(a), bytes(b)))
            for a, b in pairs:
                for op in ops:
                    if op in ("EQ", "CP"):
                        out.append("%s %s %s%s %s" % (op, si.name, ps, a.hex() or "-", b.hex() or "-"))
            if "CPO" in ops:
                arena = embgen.buffers(r, 3, 2 * length + 2)[2]
                for shift in range(-length, length + 1, max(1, length // 6)):
                    so = length + 1 if shift < 0 else 0
                    so = min(so, len(arena) - length)
                    d0 = so + shift
                    if d0 < 0 or d0 + length > len(arena):
                        continue
                    out.append("CPO %s %s%s %d %d %d %d" % (si.name, ps, arena.hex(), so, length, d0, length))
    return out


def param_values(r, si, case):
    """A few parameter assignments for a root structure."""
    if not si.params:
        return [[]]
    out = []
    for _ in range(2):
        vals = []
        for _n, kind, _cty in si.params:
            vals.append(r.choice([0, 1, 2, 3]) if kind != "bool" else r.choice([0, 1]))
        if vals not in out:
            out.append(vals)
    return out


def gen_struct_of(case, si):
    if case.gen is None:
        return None
    for s in case.gen.structs:
        if s.name == si.name:
            return s
    return None


def obs_sweeps(r, case, n_base, cap=24, op="OBS", boundary=True):
    """Prefix sweeps: for every root structure, parameter assignment and base buffer, one OBS per
    prefix length 0..L+2.  Returns [(cmd, si, params, data, group)] ; group identifies one sweep.
    The commands of a corpus side file (`.cmds`) come first (consecutive ones whose buffers are
    prefixes of each other form one sweep); buffers holding the extremes of every fixed-position
    field (`boundary_buffers`) are observed at full length."""
    out = []
    g = 0
    prev = None
    for cmd in case.pinned_cmds:
        t = cmd.split()
        if t[0] != "OBS" or t[1] not in case.prepared.structs:
            continue
        si = case.prepared.structs[t[1]]
        data = b"" if t[-1] == "-" else bytes.fromhex(t[-1])
        pv = [int(x) for x in t[2:-1]]
        if prev is None or prev[0] != (si.name, pv) or data[:len(prev[1])] != prev[1]:
            g += 1
        prev = ((si.name, pv), data)
        out.append((" ".join([op] + t[1:]), si, pv, data, g))
    for si in case.roots():
        ms = case.max_size.get(si.name)
        length = min(cap, (ms if ms is not None else cap) + 2)
        for pv in param_values(r, si, case):
            ps = "".join("%d " % x for x in pv)
            for base in embgen.buffers(r, n_base, length):
                g += 1
                for n in range(0, length + 1):
                    data = base[:n]
                    cmd = "%s %s %s%s" % (op, si.name, ps, data.hex() or "-")
                    out.append((cmd, si, pv, data, g))
            if boundary:
                for data in boundary_buffers(r, si, max(0, length - 2), 1):
                    g += 1
                    out.append(("%s %s %s%s" % (op, si.name, ps, data.hex() or "-"), si, pv, data, g))
    return out


def pinned_commands(case, ops):
    """Commands of the corpus side file whose op is in `ops` (and whose structure exists)."""
    return [c for c in case.pinned_cmds if c.split()[0] in ops and c.split()[1] in case.prepared.structs]


def run_surviving(case, cmds, on_crash, max_crashes=40):
    """Run `cmds` on the case's driver.  When the driver dies, `on_crash(cmd, RunResult)` is
    called, the answer of that command is None, and the remaining commands are re-run."""
    answers = []
    rest = list(cmds)
    crashes = 0
    while rest:
        rr, out = cppdrv.ask(case.binary, rest)
        answers.extend(out[:len(rest)])
        if rr.kind == "ok" and len(out) >= len(rest):
            break
        bad = len(out)
        if bad >= len(rest):
            # died after answering everything (e.g. at exit): report against the last command
            on_crash(rest[-1], rr)
            break
        alone, _ = cppdrv.ask(case.binary, [rest[bad]])
        on_crash(rest[bad], alone if alone.kind != "ok" else rr)
        answers.append(None)
        rest = rest[bad + 1:]
        crashes += 1
        if crashes >= max_crashes:
            answers.extend([None] * len(rest))
            break
    return answers


def param_range_escapes(prepared):
    """[(struct, field, parameter, (arg lo, arg hi), (declared lo, declared hi))]: places where a
    structure is instantiated with an integer argument whose inferred range is not contained in the
    range of the parameter's declared type (`Axes(axis_count)` with `axis_count: UInt:8` for
    `struct Axes(axes: UInt:4)` in testdata/parameters.emb).  The front end accepts it and nothing
    checks the value at run time, while bounds (`$max_size_in_*`) and C++ carrier types inside the
    callee are inferred from the declared range — open finding of C01/C04."""
    out = []

    def atomic(ty):
        while "array_type" in ty:
            ty = ty["array_type"]["base_type"]
        return ty.get("atomic_type")
    for si in prepared.structs.values():
        for f in si.type_ir["structure"].get("field", []):
            at = atomic(f.get("type", {}))
            if not at or not at.get("runtime_parameter"):
                continue
            target = prepared.structs.get(".".join(at["reference"]["canonical_name"]["object_path"]))
            if target is None:
                continue
            for arg, rp in zip(at["runtime_parameter"], target.type_ir.get("runtime_parameter", [])):
                a, d = arg.get("type", {}).get("integer"), rp.get("type", {}).get("integer")
                if not a or not d:
                    continue
                try:
                    ar = (int(a["minimum_value"]), int(a["maximum_value"]))
                    dr = (int(d["minimum_value"]), int(d["maximum_value"]))
                except (KeyError, ValueError):
                    continue
                if ar[0] < dr[0] or ar[1] > dr[1]:
                    out.append((si.name, f["name"]["name"]["text"], rp["name"]["name"]["text"], ar, dr))
    return out


KEY_ARG_RANGE_UB = "ubsan:arithmetic-overflow:argument-outside-parameter-range"


def crash_key(rr, cmd="", case=None):
    """Narrow classification of a sanitizer report / CHECK abort (for known-finding routing)."""
    err = rr.err or ""
    toks = cmd.split()
    if toks and toks[0] == "WR" and len(toks) >= 4 and toks[-2] in ("MAX", "MIN") and \
            "signed integer overflow" in err and "emboss_arithmetic.h" in err:
        return "ubsan:virtual-field-CouldWriteValue-extreme-argument"
    null_field = case is not None and case.prepared is not None and \
        "NullByteOrderer" in (case.prepared.header or "")
    if rr.kind == "check-failed" and null_field and "(SizeInBytes() * 8) == (kBits)" in err:
        # the same NullByteOrderer defect seen through a *checked* read: BitBlock::Ok() holds over an
        # empty window and ContiguousBuffer::Read…UInt's own size check trips
        return "asan:heap-buffer-overflow:NullByteOrderer-truncated-one-byte-field"
    if rr.kind == "check-failed":
        import re
        m = re.search(r"EMBOSS-CHECK-FAILED (\w+) \S*?([\w.]+):(\d+)", err)
        return "check:%s:%s" % (m.group(2), m.group(3)) if m else "check:?"
    if "AddressSanitizer" in err:
        kind = "asan"
        import re
        m = re.search(r"AddressSanitizer: ([\w-]+)", err)
        what = m.group(1) if m else "?"
        # optimised builds inline the orderer's frames away: fall back on "the module has a field
        # with the Null byte order and the report is a 1-byte read past the heap buffer"
        if "NullByteOrderer" in err or (null_field and what == "heap-buffer-overflow" and
                                        "READ of size 1" in err):
            return "asan:%s:NullByteOrderer-truncated-one-byte-field" % what
        return "%s:%s" % (kind, what)
    if "runtime error:" in err and "emboss_arithmetic.h" in err and "overflow" in err and case is not None \
            and case.prepared is not None and param_range_escapes(case.prepared):
        return KEY_ARG_RANGE_UB
    if "runtime error:" in err:
        import re
        m = re.search(r"([\w./]+):(\d+):\d+: runtime error: ([^\n]{0,60})", err)
        if m:
            what = re.sub(r"-?\d+", "N", m.group(3))
            return "ubsan:%s:%s" % (os.path.basename(m.group(1)), what.strip())
        return "ubsan:?"
    return "crash:%s" % rr.kind


def model_answers(cases_cmds):
    """cases_cmds: [(case, [cmd])] -> [[answer]] using one model_c01 process."""
    lines = []
    for case, cmds in cases_cmds:
        lines.append("IR " + case.sexpr)
        lines.extend(cmds)
    ans = common.Model("model_c01").ask(lines, timeout=1200)
    out, i = [], 0
    for case, cmds in cases_cmds:
        head = ans[i]
        out.append((head, ans[i + 1:i + 1 + len(cmds)]))
        i += 1 + len(cmds)
    return out


def reference_obs(case, si, params, data):
    s = gen_struct_of(case, si)
    if s is None:
        return None
    embref.set_default_byte_order(case.gen.byte_order)
    return embref.observe(s, params, data)


def coverage_pair_commands(r, case, stats, n_random_bases=2, cap=40, per_class=None, roots=None, n_det_bases=4):
    """EQ (and CP for a sample) commands over pairs of buffers that differ in exactly one bit, the
    expected answer derived from the reference's knowledge of which bits a present field covers
    (embref.classify_bits): one *uncovered* bit flipped -> Equals must be true; one *covered* bit
    flipped -> Equals must be false.  Only generated (embgen) cases have a reference.  Bases: a
    deterministic family (zeros / 0xFF / a fixed pattern, control bytes forced to small counts) plus
    `n_random_bases` seeded ones; with per_class=None every classified bit of every base is used
    (exhaustive), otherwise at most `per_class` bits per (class, nesting depth, in-array) bucket.
    `stats` (a Counter) receives the distribution: class x depth x inside-array-element."""
    out = []
    if case.gen is None:
        return out
    embref.set_default_byte_order(case.gen.byte_order)
    for si in (roots if roots is not None else case.roots()):
        s = gen_struct_of(case, si)
        if s is None or si.params:
            continue
        ms = case.max_size.get(si.name)
        length = min(cap, ms if ms is not None else cap)
        if length <= 0:
            continue
        # deterministic bases: whole-buffer fills with small values (every count byte small), then
        # high fills repaired by the reference: the first (byte 0, byte j) := small making the view Ok
        det = [bytes([v] * length) for v in (0, 1, 2, 3)]
        for fill in (0xFF, 0xA5):
            found = None
            for ctl in (1, 2):
                for j_ in range(length):
                    b = bytearray([fill] * length)
                    b[0] = b[j_] = ctl
                    if embref.observe(s, [], bytes(b))["ok"] is True:
                        found = bytes(b)
                        break
                if found:
                    break
            if found:
                det.insert(1, found)
        rnd = []
        for b in embgen.buffers(r, 2 + 6 * n_random_bases, length)[2:]:
            rnd.append(bytes([r.choice([0, 1, 2, 3])]) + b[1:])
        used_det = used_rnd = 0
        for origin, b in [("det", x) for x in det] + [("rnd", x) for x in rnd]:
            if origin == "det" and used_det >= n_det_bases:
                continue
            if origin == "rnd" and used_rnd >= n_random_bases:
                break
            base, bits = embref.classify_bits(s, [], b)
            if base is None:
                stats["cov_base_not_ok"] += 1
                continue
            size = base["size"] if base["size"] is not None else len(b)
            if len(b) > size + 1:
                # keep one byte after the structure's own size (never compared), drop the rest
                b = b[:size + 1]
                base, bits = embref.classify_bits(s, [], b)
                if base is None:
                    continue
            if origin == "det":
                used_det += 1
            else:
                used_rnd += 1
            stats["cov_bases_" + origin] += 1
            buckets = collections.Counter()
            order = list(bits)
            if per_class is not None:
                r.shuffle(order)
            for bit, cls, (path, depth, in_arr) in order:
                if cls is None:
                    stats["cov_bit_unclassified"] += 1
                    continue
                if bit // 8 >= size:
                    cls = "beyond_size"       # bytes after the structure's own size: never compared
                key = "cov_%s_depth%d%s" % (cls, depth, "_in_array_elem" if in_arr else "")
                buckets[key] += 1
                if per_class is not None and buckets[key] > per_class:
                    continue
                stats[key] += 1
                b2 = bytearray(b)
                b2[bit // 8] ^= 1 << (bit % 8)
                out.append("EQ %s %s %s" % (si.name, b.hex(), bytes(b2).hex()))
                if buckets[key] <= 1:
                    out.append("CP %s %s %s" % (si.name, b.hex(), bytes(b2).hex()))
    return out
