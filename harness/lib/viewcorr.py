"""viewcorr — shared correspondence machinery of C01 / C04 / C20 (builder `view`).

Builds a set of *cases* (repo testdata files, corpus files, random embgen modules), compiles one
sanitized C++ driver per case (cppdrv), and offers command generators and runners that survive
driver crashes (a sanitizer report / CHECK abort kills the process: the offending command is
recorded and the rest of the list is re-run).
"""
import glob
import os

from harness.lib import common, cppdrv, embgen, embref, irpack

TESTDATA = ["condition.emb", "dynamic_size.emb", "nested_structure.emb", "parameters.emb",
            "virtual_field.emb", "bits.emb", "anonymous_bits.emb", "next_keyword.emb", "requires.emb",
            "auto_array_size.emb"]

# the first finding of the framework: 1-byte fields without byte order ("Null" byte order) read one
# byte past a truncated buffer; pinned so that every run of C04 re-executes it
NULL_ORDER_TEXT = "struct Foo:\n  0 [+1]  UInt  x\n  1 [+1]  UInt  y\n"


class Case:
    def __init__(self, name, text, gen=None):
        self.name, self.text, self.gen = name, text, gen
        self.prepared = None
        self.binary = None
        self.build_log = ""
        self.sexpr = None
        self.unsupported = {}
        self.max_size = {}

    def roots(self, limit=8):
        out = [si for si in self.prepared.structs.values() if si.unit == 8 and si.name not in self.unsupported]
        return out[:limit]


def _max_size(si):
    for f in si.type_ir["structure"].get("field", []):
        if f["name"]["name"]["text"] == "$max_size_in_bytes":
            t = f.get("read_transform", {}).get("type", {}).get("integer", {})
            if t.get("modulus") == "infinity":
                return int(t["modular_value"])
    return None


def make_cases(chk, r, n_random, testdata=TESTDATA, corpus_prop=None, null_order_modules=0, dist=None):
    """testdata + corpus first, then random modules.  Rejected random modules are counted."""
    cases = []
    for fn in testdata:
        path = os.path.join(common.REPO, "testdata", fn)
        if os.path.exists(path):
            with open(path) as f:
                cases.append(Case("testdata/" + fn, f.read()))
    if corpus_prop:
        for path in sorted(glob.glob(os.path.join(common.VERIF, "corpus", corpus_prop, "*.emb"))):
            with open(path) as f:
                cases.append(Case("corpus/" + os.path.basename(path), f.read()))
    dist = dist if dist is not None else embgen.Distribution()
    tries = 0
    made = 0
    while made < n_random and tries < n_random * 3:
        tries += 1
        m = embgen.gen_module(r, default_byte_order=made >= null_order_modules)
        c = Case("random/%d" % made, m.text, gen=m)
        cases.append(c)
        made += 1
        dist.add(m)
    cap = int(os.environ.get("VERIF_VIEW_MAX_CASES", "0"))   # smoke tests only: keep the first n cases
    if cap:
        cases = cases[:2] + cases[-max(0, cap - 2):] if cap > 2 else cases[:cap]
    good = []
    for c in cases:
        p = cppdrv.prepare(c.text)
        if not p.ok:
            why = repr(p.exception) if p.exception else (p.errors[0][0][3] if p.errors else "?")
            if c.gen is not None:
                dist.reject(why)
            else:
                chk.extra.setdefault("skipped_files", {})[c.name] = why[:120]
            continue
        c.prepared = p
        try:
            c.sexpr, c.unsupported = irpack.pack(p)
        except Exception as e:  # noqa: BLE001
            c.sexpr, c.unsupported = None, {"*": repr(e)}
        for si in p.structs.values():
            c.max_size[si.name] = _max_size(si)
        good.append(c)
    return good, dist


def build_cases(cases, features, std="c++14", compiler="g++", defines=(), opt="-O0", workers=8,
                eq_params_ok=False):
    workers = int(os.environ.get("VERIF_CPP_WORKERS", workers))   # parallel g++ jobs (default 8)
    res = cppdrv.build([c.prepared for c in cases], std=std, compiler=compiler, defines=defines, opt=opt,
                       workers=workers, features=features, eq_params_ok=eq_params_ok)
    for c, (b, log) in zip(cases, res):
        c.binary, c.build_log = b, log
    return [c for c in cases if c.binary is None]


def write_commands(r, case, n_buf=2, cap=24):
    """WR commands: every top-level field (and one level of nesting) of every root structure x
    interesting values incl. the extremes of the accessor's C++ value type."""
    out = []
    for si in case.roots():
        ms = case.max_size.get(si.name)
        length = min(cap, ms if ms is not None else cap)
        paths = []
        for nm, _acc, anon in si.fields:
            if anon or nm.startswith("$"):
                continue
            paths.append(nm)
        # one level of nesting
        for f in si.type_ir["structure"].get("field", []):
            ty = f.get("type", {})
            if "atomic_type" in ty and not f["name"].get("is_anonymous"):
                target = ".".join(ty["atomic_type"]["reference"]["canonical_name"]["object_path"])
                if target in case.prepared.structs:
                    for nm2, _a2, anon2 in case.prepared.structs[target].fields:
                        if not anon2 and not nm2.startswith("$"):
                            paths.append(f["name"]["name"]["text"] + "." + nm2)
        for pv in param_values(r, si, case)[:1]:
            bufs = embgen.buffers(r, 2 + n_buf, length)[2:]
            bufs.append(bufs[0][:max(0, length // 2)])
            for path in paths:
                for val in ("0", "1", "MAX", "MIN", "-1", str(r.randrange(256)), str(r.randrange(1 << 32))):
                    for b in bufs:
                        out.append("WR %s %s%s %s %s" % (si.name, "".join("%d " % x for x in pv), path, val,
                                                          b.hex() or "-"))
    return out


def pair_commands(r, case, n_pairs=6, cap=24, ops=("EQ", "CP", "CPO")):
    """EQ / CP / CPO commands over pairs of buffers: equal, one bit flipped, different lengths,
    truncated, random, and overlapping windows of one arena at every shift."""
    out = []
    for si in case.roots():
        ms = case.max_size.get(si.name)
        length = min(cap, (ms if ms is not None else cap) + 1)
        for pv in param_values(r, si, case)[:1]:
            ps = "".join("%d " % x for x in pv)
            bases = embgen.buffers(r, 2 + n_pairs, length)
            pairs = []
            for a in bases:
                b = bytearray(a)
                kind = r.choice(["same", "bit", "bit", "len", "trunc", "other", "tail"])
                if kind == "bit" and b:
                    i = r.randrange(len(b))
                    b[i] ^= 1 << r.randrange(8)
                elif kind == "len":
                    b = b + bytes([r.randrange(256)])
                elif kind == "trunc":
                    b = b[:r.randrange(len(b) + 1)]
                elif kind == "other":
                    b = bytearray(r.choice(bases))
                elif kind == "tail" and b:
                    b[-1] ^= 0xFF
                pairs.append((bytes(a), bytes(b)))
            for a, b in pairs:
                for op in ops:
                    if op in ("EQ", "CP"):
                        out.append("%s %s %s%s %s" % (op, si.name, ps, a.hex() or "-", b.hex() or "-"))
            if "CPO" in ops:
                arena = embgen.buffers(r, 3, 2 * length + 2)[2]
                for shift in range(-length, length + 1, max(1, length // 6)):
                    so = length + 1 if shift < 0 else 0
                    so = min(so, len(arena) - length)
                    d0 = so + shift
                    if d0 < 0 or d0 + length > len(arena):
                        continue
                    out.append("CPO %s %s%s %d %d %d %d" % (si.name, ps, arena.hex(), so, length, d0, length))
    return out


def param_values(r, si, case):
    """A few parameter assignments for a root structure."""
    if not si.params:
        return [[]]
    out = []
    for _ in range(2):
        vals = []
        for _n, kind, _cty in si.params:
            vals.append(r.choice([0, 1, 2, 3]) if kind != "bool" else r.choice([0, 1]))
        if vals not in out:
            out.append(vals)
    return out


def gen_struct_of(case, si):
    if case.gen is None:
        return None
    for s in case.gen.structs:
        if s.name == si.name:
            return s
    return None


def obs_sweeps(r, case, n_base, cap=24, op="OBS"):
    """Prefix sweeps: for every root structure, parameter assignment and base buffer, one OBS per
    prefix length 0..L+2.  Returns [(cmd, si, params, data, group)] ; group identifies one sweep."""
    out = []
    g = 0
    for si in case.roots():
        ms = case.max_size.get(si.name)
        length = min(cap, (ms if ms is not None else cap) + 2)
        for pv in param_values(r, si, case):
            for base in embgen.buffers(r, n_base, length):
                g += 1
                for n in range(0, length + 1):
                    data = base[:n]
                    cmd = "%s %s %s%s" % (op, si.name, "".join("%d " % x for x in pv), data.hex() or "-")
                    out.append((cmd, si, pv, data, g))
    return out


def run_surviving(case, cmds, on_crash, max_crashes=40):
    """Run `cmds` on the case's driver.  When the driver dies, `on_crash(cmd, RunResult)` is
    called, the answer of that command is None, and the remaining commands are re-run."""
    answers = []
    rest = list(cmds)
    crashes = 0
    while rest:
        rr, out = cppdrv.ask(case.binary, rest)
        answers.extend(out[:len(rest)])
        if rr.kind == "ok" and len(out) >= len(rest):
            break
        bad = len(out)
        if bad >= len(rest):
            # died after answering everything (e.g. at exit): report against the last command
            on_crash(rest[-1], rr)
            break
        alone, _ = cppdrv.ask(case.binary, [rest[bad]])
        on_crash(rest[bad], alone if alone.kind != "ok" else rr)
        answers.append(None)
        rest = rest[bad + 1:]
        crashes += 1
        if crashes >= max_crashes:
            answers.extend([None] * len(rest))
            break
    return answers


def crash_key(rr, cmd="", case=None):
    """Narrow classification of a sanitizer report / CHECK abort (for known-finding routing)."""
    err = rr.err or ""
    toks = cmd.split()
    if toks and toks[0] == "WR" and len(toks) >= 4 and toks[-2] in ("MAX", "MIN") and \
            "signed integer overflow" in err and "emboss_arithmetic.h" in err:
        return "ubsan:virtual-field-CouldWriteValue-extreme-argument"
    null_field = case is not None and case.prepared is not None and \
        "NullByteOrderer" in (case.prepared.header or "")
    if rr.kind == "check-failed" and null_field and "(SizeInBytes() * 8) == (kBits)" in err:
        # the same NullByteOrderer defect seen through a *checked* read: BitBlock::Ok() holds over an
        # empty window and ContiguousBuffer::Read…UInt's own size check trips
        return "asan:heap-buffer-overflow:NullByteOrderer-truncated-one-byte-field"
    if rr.kind == "check-failed":
        import re
        m = re.search(r"EMBOSS-CHECK-FAILED (\w+) \S*?([\w.]+):(\d+)", err)
        return "check:%s:%s" % (m.group(2), m.group(3)) if m else "check:?"
    if "AddressSanitizer" in err:
        kind = "asan"
        import re
        m = re.search(r"AddressSanitizer: ([\w-]+)", err)
        what = m.group(1) if m else "?"
        # optimised builds inline the orderer's frames away: fall back on "the module has a field
        # with the Null byte order and the report is a 1-byte read past the heap buffer"
        if "NullByteOrderer" in err or (null_field and what == "heap-buffer-overflow" and
                                        "READ of size 1" in err):
            return "asan:%s:NullByteOrderer-truncated-one-byte-field" % what
        return "%s:%s" % (kind, what)
    if "runtime error:" in err:
        import re
        m = re.search(r"([\w./]+):(\d+):\d+: runtime error: ([^\n]{0,60})", err)
        if m:
            what = re.sub(r"-?\d+", "N", m.group(3))
            return "ubsan:%s:%s" % (os.path.basename(m.group(1)), what.strip())
        return "ubsan:?"
    return "crash:%s" % rr.kind


def model_answers(cases_cmds):
    """cases_cmds: [(case, [cmd])] -> [[answer]] using one model_c01 process."""
    lines = []
    for case, cmds in cases_cmds:
        lines.append("IR " + case.sexpr)
        lines.extend(cmds)
    ans = common.Model("model_c01").ask(lines, timeout=1200)
    out, i = [], 0
    for case, cmds in cases_cmds:
        head = ans[i]
        out.append((head, ans[i + 1:i + 1 + len(cmds)]))
        i += 1 + len(cmds)
    return out


def reference_obs(case, si, params, data):
    s = gen_struct_of(case, si)
    if s is None:
        return None
    embref.set_default_byte_order(case.gen.byte_order)
    return embref.observe(s, params, data)
