"""Shared machinery for every ./check Cnn run.

One `Check` object per run.  It
  * builds the Lean obligations of the property (`lake build Emboss.Audit.Cnn` + the
    driver exe) under a file lock, from /verif/lean as it is now (regenerated tables
    included),
  * audits `#print axioms` of every property theorem and greps the import closure for
    forbidden constructs,
  * talks to the compiled model driver through the line protocol,
  * records violations (replay files), known findings, and writes the evidence file.

Exit codes: 0 property held on everything explored; 1 violation (a line
`VIOLATION property=<id> replay=<path>` on stdout); 2 infrastructure failure/time-out.
"""

import atexit
import fcntl
import hashlib
import json
import os
import random
import re
import shutil
import subprocess
import sys
import tempfile
import time

VERIF = os.path.dirname(os.path.dirname(os.path.dirname(os.path.abspath(__file__))))
LEAN = os.path.join(VERIF, "lean")
REPO = os.environ.get("VERIF_REPO", "/repo")
GUARD = "GOOGLE_EMBOSS_VERIF"
ALLOWED_AXIOMS = {"propext", "Classical.choice", "Quot.sound"}
FORBIDDEN = [
    r"\bsorry\b", r"\badmit\b", r"^\s*axiom\s", r"\bnative_decide\b", r"\bbv_decide\b",
    r"\bimplemented_by\b", r"\bunsafe\s", r"maxHeartbeats\s+0\b", r"\bextern\s",
]

os.environ[GUARD] = "1"

# Byte-code cache outside /repo and /verif: without it every process recompiles the
# 2.6 MB literal in compiler/front_end/generated/cached_parser.py (tens of seconds).
# Keyed by absolute source path and validated by mtime+size, so it is only a cache.
_PYCACHE = os.environ.get("VERIF_PYCACHE", "/var/tmp/embverif-pycache")
sys.dont_write_bytecode = False
sys.pycache_prefix = _PYCACHE
os.environ["PYTHONPYCACHEPREFIX"] = _PYCACHE
os.environ.pop("PYTHONDONTWRITEBYTECODE", None)
if REPO not in sys.path:
    sys.path.insert(0, REPO)


def seed():
    try:
        return int(os.environ.get("VERIF_SEED", "0"))
    except ValueError:
        return 0


def rng(tag=""):
    """All random choices of a run derive from VERIF_SEED (+ a fixed tag)."""
    h = hashlib.sha256(("%d/%s" % (seed(), tag)).encode()).digest()
    return random.Random(int.from_bytes(h[:8], "big"))


_scratch = None


def scratch():
    """Per-run scratch directory outside /repo and /verif; removed at exit."""
    global _scratch
    if _scratch is None:
        base = os.environ.get("VERIF_TMP", "/var/tmp")
        _scratch = tempfile.mkdtemp(prefix="embverif-", dir=base)
        atexit.register(shutil.rmtree, _scratch, True)
    return _scratch


def write_if_changed(path, text):
    """Regenerated Lean tables keep their mtime/hash when nothing changed."""
    try:
        with open(path) as f:
            if f.read() == text:
                return False
    except OSError:
        pass
    os.makedirs(os.path.dirname(path), exist_ok=True)
    tmp = path + ".tmp%d" % os.getpid()
    with open(tmp, "w") as f:
        f.write(text)
    os.replace(tmp, path)
    return True


def strip_lean_comments(src):
    out, i, depth, n = [], 0, 0, len(src)
    while i < n:
        if src.startswith("/-", i):
            depth += 1
            i += 2
        elif depth and src.startswith("-/", i):
            depth -= 1
            i += 2
        elif depth:
            if src[i] == "\n":
                out.append("\n")
            i += 1
        elif src.startswith("--", i):
            while i < n and src[i] != "\n":
                i += 1
        elif src[i] == '"':
            j = i + 1
            while j < n and src[j] != '"':
                j += 2 if src[j] == "\\" else 1
            out.append('""')
            i = j + 1
        else:
            out.append(src[i])
            i += 1
    return "".join(out)


def lean_import_closure(module):
    """Files of /verif/lean reachable through `import` from `module` (dotted name)."""
    seen, todo = {}, [module]
    while todo:
        m = todo.pop()
        if m in seen:
            continue
        path = os.path.join(LEAN, *m.split(".")) + ".lean"
        if not os.path.exists(path):
            continue
        seen[m] = path
        with open(path) as f:
            for line in f:
                mm = re.match(r"\s*(?:public\s+)?import\s+([\w.]+)", line)
                if mm:
                    todo.append(mm.group(1))
    return seen


class Model:
    """A compiled line-protocol driver (`lake exe`-style binary)."""

    def __init__(self, exe):
        self.path = os.path.join(LEAN, ".lake", "build", "bin", exe)

    def ask(self, lines, timeout=600):
        if not lines:
            return []
        data = "\n".join(lines) + "\n"
        p = subprocess.run([self.path], input=data.encode(), stdout=subprocess.PIPE,
                           stderr=subprocess.PIPE, timeout=timeout)
        if p.returncode != 0:
            raise InfraError("model driver %s exited %d: %s" % (
                self.path, p.returncode, p.stderr.decode(errors="replace")[:2000]))
        out = p.stdout.decode(errors="replace").split("\n")
        if out and out[-1] == "":
            out.pop()
        if len(out) != len(lines):
            raise InfraError("model driver answered %d lines for %d ops" % (len(out), len(lines)))
        return out


class InfraError(Exception):
    pass


class Check:
    def __init__(self, prop, tier, exes=(), design_ref=""):
        self.prop = prop
        self.tier = tier
        self.exes = list(exes)
        self.t0 = time.time()
        self.seed = seed()
        self.violations = []       # (kind, replay path)
        self.known_printed = []
        self.obligations = 0
        self.discharged = 0
        self.theorems = []
        self.partial = []
        self.cov = {"evaluations": 0, "distinct_nontrivial": 0, "rule": "", "samples": []}
        self.assumptions = []
        self.trusted = [
            "Lean 4.33 kernel; axioms allowed: propext, Classical.choice, Quot.sound",
            "Lean compiler/runtime for the compiled line-protocol driver",
            "harness/ (Python): generators, canonicalisation, diff",
        ]
        self.extra = {}
        self._distinct = set()
        self.build_ok = None
        self.build_log = ""
        self.known = load_known_findings()
        # replays of an earlier run with the same (property, tier, seed) would otherwise survive
        # next to the ones this run writes (file names are <tier>-<seed>-<index>.json)
        import glob
        for old in glob.glob(os.path.join(VERIF, "replays", self.prop, "%s-%d-*.json" % (self.tier, self.seed))):
            try:
                os.remove(old)
            except OSError:
                pass

    # ------------------------------------------------------------------ build
    def lean_targets(self):
        return ["Emboss.Audit.%s" % self.prop] + self.exes

    def build(self, timeout=3000):
        """Build this property's Lean obligations + drivers.  Returns True/False; a
        failure is a *broken proof obligation* (the caller then searches for a
        failing input), not by itself a violation."""
        os.makedirs(os.path.join(LEAN, ".lake"), exist_ok=True)
        lock = open(os.path.join(LEAN, ".lake", "verif.lock"), "w")
        fcntl.flock(lock, fcntl.LOCK_EX)
        try:
            p = subprocess.run(["lake", "build"] + self.lean_targets(), cwd=LEAN,
                               stdout=subprocess.PIPE, stderr=subprocess.STDOUT, timeout=timeout)
        except subprocess.TimeoutExpired:
            raise InfraError("lake build timed out")
        finally:
            fcntl.flock(lock, fcntl.LOCK_UN)
            lock.close()
        self.build_log = p.stdout.decode(errors="replace")
        self.build_ok = p.returncode == 0
        return self.build_ok

    def failed_modules(self):
        return sorted(set(re.findall(r"^- ([\w.]+)$", self.build_log, re.M)))

    def first_errors(self, n=5):
        return re.findall(r"^error: .*$", self.build_log, re.M)[:n]

    # ------------------------------------------------------------------ audit
    def audit(self):
        """`#print axioms` on every property theorem + forbidden-construct grep.
        Returns list of problems (strings); fills obligations/discharged."""
        problems = []
        audit_mod = "Emboss.Audit.%s" % self.prop
        audit_path = os.path.join(LEAN, "Emboss", "Audit", self.prop + ".lean")
        with open(audit_path) as f:
            wanted = re.findall(r"^#print axioms\s+([\w.'!?]+)", strip_lean_comments(f.read()), re.M)
        p = subprocess.run(["lake", "env", "lean", audit_path], cwd=LEAN, stdout=subprocess.PIPE,
                           stderr=subprocess.STDOUT, timeout=1800)
        text = p.stdout.decode(errors="replace")
        got = {}
        for m in re.finditer(r"'([^']+)' depends on axioms: \[([^\]]*)\]", text, re.S):
            got[m.group(1).split(".")[-1]] = set(a.strip() for a in m.group(2).split(",") if a.strip())
        for m in re.finditer(r"'([^']+)' does not depend on any axioms", text):
            got[m.group(1).split(".")[-1]] = set()
        if p.returncode != 0:
            problems.append("audit file does not elaborate: " + text[:500])
        # forbidden constructs anywhere in the import closure
        closure = lean_import_closure(audit_mod)
        for e in self.exes:
            closure.update(lean_import_closure(exe_root(e)))
        for mod, path in sorted(closure.items()):
            with open(path) as f:
                src = strip_lean_comments(f.read())
            for pat in FORBIDDEN:
                mm = re.search(pat, src, re.M)
                if mm:
                    problems.append("forbidden construct %r in %s" % (mm.group(0).strip(), mod))
        # every theorem named <prop>_* in the Properties file must be audited
        prop_path = os.path.join(LEAN, "Emboss", "Properties", self.prop + ".lean")
        declared = []
        if os.path.exists(prop_path):
            with open(prop_path) as f:
                declared = re.findall(r"^\s*theorem\s+(%s_[\w']+)" % self.prop,
                                      strip_lean_comments(f.read()), re.M)
        for d in declared:
            if d not in [w.split(".")[-1] for w in wanted]:
                problems.append("theorem %s is not listed in Audit/%s.lean" % (d, self.prop))
        self.obligations = len(wanted)
        self.discharged = 0
        self.theorems = []
        for w in wanted:
            short = w.split(".")[-1]
            ax = got.get(short)
            if ax is None:
                problems.append("no #print axioms output for %s" % w)
                continue
            bad = ax - ALLOWED_AXIOMS
            if bad:
                problems.append("theorem %s depends on non-standard axioms %s" % (w, sorted(bad)))
                continue
            self.discharged += 1
            self.theorems.append({"theorem": short, "axioms": sorted(ax)})
            if short.endswith("_partial"):
                self.partial.append(short)
        self.extra["lean_files"] = sorted(closure)
        return problems

    # -------------------------------------------------------------- reporting
    def count(self, n=1):
        self.cov["evaluations"] += n

    def nontrivial(self, key):
        """Register a non-trivial case by a hashable key; distinct ones are counted."""
        self._distinct.add(key if isinstance(key, (str, int, tuple)) else json.dumps(key, sort_keys=True))

    def sample(self, s, limit=6):
        if len(self.cov["samples"]) < limit:
            self.cov["samples"].append(s)

    def known_finding(self, key):
        """Is this specific failing input / call site a listed *open* finding?"""
        for k in self.known:
            if k.get("property") == self.prop and k.get("status") == "open" and k.get("key") == key:
                return k
        return None

    def report_known(self, k):
        if k["key"] not in self.known_printed:
            self.known_printed.append(k["key"])
            print("KNOWN-FINDING: property=%s %s" % (self.prop, k.get("what", k["key"])))
            sys.stdout.flush()

    def violation(self, kind, detail, key=None, found_input=True):
        """kind: 'input' (a concrete failing input on the real code), 'theorem'
        (a proof obligation no longer checks), 'correspondence' (model and code
        disagree).  `key` identifies the failing input for the known-findings file."""
        if key is not None:
            k = self.known_finding(key)
            if k is not None:
                self.report_known(k)
                return None
        d = os.path.join(VERIF, "replays", self.prop)
        os.makedirs(d, exist_ok=True)
        path = os.path.join(d, "%s-%d-%d.json" % (self.tier, self.seed, len(self.violations)))
        rec = {"property": self.prop, "kind": kind, "seed": self.seed, "tier": self.tier,
               "key": key, "found_failing_input": bool(found_input)}
        rec.update(detail)
        with open(path, "w") as f:
            json.dump(rec, f, indent=1, sort_keys=True, default=str)
        rel = os.path.relpath(path, VERIF)
        tail = "" if found_input else " no-failing-input-found"
        print("VIOLATION property=%s replay=%s%s" % (self.prop, rel, tail))
        sys.stdout.flush()
        self.violations.append((kind, rel))
        return rel

    def finish(self, level="proof", checker_cmd=None):
        self.cov["distinct_nontrivial"] = len(self._distinct)
        if level == "proof" and self.discharged < 1:
            # The Lean obligations did not check on this tree (a VIOLATION was reported by
            # proof_gate); what this run can still attest is the model-free exploration.
            level = "exploration"
        cov = dict(self.cov)
        cov["obligations"] = self.obligations
        cov["discharged"] = self.discharged
        cov["checker_cmd"] = checker_cmd or (
            "cd lean && lake build %s && lake env lean Emboss/Audit/%s.lean" % (
                " ".join(self.lean_targets()), self.prop))
        cov["trusted_base"] = self.trusted
        cov["theorems"] = self.theorems
        cov["partial_theorems"] = self.partial
        cov["known_findings_reproduced"] = self.known_printed
        cov.update(self.extra)
        ev = {
            "property_id": self.prop, "tier": self.tier, "seed": self.seed, "level": level,
            "coverage": cov, "assumptions": self.assumptions,
            "wall_s": round(time.time() - self.t0, 2), "violations": len(self.violations),
        }
        problems = validate_evidence(ev)
        path = os.path.join(VERIF, "evidence", self.prop + ".json")
        os.makedirs(os.path.dirname(path), exist_ok=True)
        with open(path, "w") as f:
            json.dump(ev, f, indent=1, sort_keys=True, default=str)
        if problems:
            print("evidence invalid: %s" % problems, file=sys.stderr)
            if not self.violations:
                return 2
        print("%s %s seed=%d: obligations %d/%d, evaluations %d (distinct non-trivial %d), "
              "violations %d, known findings %d, %.1fs" % (
                  self.prop, self.tier, self.seed, self.discharged, self.obligations,
                  cov["evaluations"], cov["distinct_nontrivial"], len(self.violations),
                  len(self.known_printed), time.time() - self.t0))
        return 1 if self.violations else 0


def exe_root(exe):
    """lean_exe name → root module, read from lakefile.toml."""
    with open(os.path.join(LEAN, "lakefile.toml")) as f:
        txt = f.read()
    m = re.search(r'name\s*=\s*"%s"\s*\nroot\s*=\s*"([\w.]+)"' % re.escape(exe), txt)
    return m.group(1) if m else exe


def load_known_findings():
    path = os.path.join(VERIF, "known_findings.json")
    try:
        with open(path) as f:
            return json.load(f).get("findings", [])
    except OSError:
        return []


def validate_evidence(ev):
    """Minimal hand-written validation of EVIDENCE.schema.json (no jsonschema in /venv)."""
    problems = []
    for k in ("property_id", "tier", "seed", "level", "coverage", "wall_s"):
        if k not in ev:
            problems.append("missing " + k)
    if ev.get("tier") not in ("quick", "thorough"):
        problems.append("tier")
    if not isinstance(ev.get("seed"), int):
        problems.append("seed")
    cov = ev.get("coverage", {})
    lvl = ev.get("level")
    if lvl == "proof":
        if not (isinstance(cov.get("obligations"), int) and cov["obligations"] >= 1):
            problems.append("obligations")
        # discharged may legitimately be 0 when the Lean obligations no longer check and the
        # run reports that as a violation (proof_gate): the evidence is then still well-formed
        if not (isinstance(cov.get("discharged"), int) and
                (cov["discharged"] >= 1 or ev.get("violations", 0) >= 1)):
            problems.append("discharged")
        if not str(cov.get("checker_cmd", "")).strip():
            problems.append("checker_cmd")
        if not isinstance(cov.get("trusted_base"), list):
            problems.append("trusted_base")
    elif lvl in ("exploration", "fault_enumeration"):
        if not (cov.get("evaluations", 0) >= 1 and cov.get("distinct_nontrivial", 0) >= 2
                and isinstance(cov.get("rule"), str) and cov.get("samples")):
            problems.append("generic coverage keys")
    elif lvl == "translation_validation":
        if not (cov.get("programs", 0) >= 1 and "disagreements_checked" in cov and cov.get("samples")):
            problems.append("translation_validation keys")
    if "samples" in cov and not isinstance(cov["samples"], list):
        problems.append("samples must be a list")
    return problems


def run_check(prop, body, tier):
    """Standard wrapper: infrastructure failures exit 2, never 0/1."""
    try:
        return body(tier)
    except InfraError as e:
        print("INFRA-ERROR %s: %s" % (prop, e), file=sys.stderr)
        return 2
    except subprocess.TimeoutExpired as e:
        print("INFRA-TIMEOUT %s: %s" % (prop, e), file=sys.stderr)
        return 2


def proof_gate(chk, search):
    """Standard opening of every check.

    Builds the property's Lean obligations and audits them.  If a proof obligation
    (or the driver) no longer checks, that is not yet a violation: `search(chk)` looks
    for a concrete failing input on the real code *without* the model (spec oracle);
    it returns the number of violations it reported.  If it finds none, the violation
    is still reported, naming what no longer checks, with `no-failing-input-found`.
    Returns True iff the model is usable for the correspondence run.
    """
    ok = chk.build()
    problems = []
    if ok:
        problems = chk.audit()
    else:
        chk.obligations = max(chk.obligations, 1)
    if ok and not problems:
        return True
    what = {"failed_modules": chk.failed_modules(), "errors": chk.first_errors(),
            "audit_problems": problems}
    print("proof obligations of %s no longer check: %s" % (chk.prop, json.dumps(what)[:1500]))
    found = search(chk) if search else 0
    if not found:
        chk.violation("theorem", {"theorem_or_correspondence": what,
                                  "note": "Lean obligations broken; search found no failing input"},
                      found_input=False)
    return False
