"""embref — reference semantics R of Emboss structure views, written from the documentation
(doc/language-reference.md for layout/expressions, doc/cpp-reference.md for what Ok / IsComplete /
SizeIsKnown / has_x mean), evaluated directly on the generator's abstract module
(harness/lib/embgen.py).  It never looks at the compiler's IR or at generated code.

    obs = embref.observe(struct, params, data)       # same tree shape as cppdrv.parse_obs
    embref.diff(real_tree, ref_tree) -> [differences]   (None in the reference = left undefined)
    embref.equals(struct, params, a, b) -> bool|None ; embref.copy(...)

Decisions taken where the documents leave room (each is recorded in notes/C01.md):
  D1  unknown-ness: a field reference is unknown unless the field is present (condition known
      true), its location is known and non-negative, all of its bytes are inside the view's
      storage and its value is valid (BCD digits, [requires]).  Operators are strict except
      && / || ("even if the other argument cannot be computed") and ?: (condition and the
      selected branch).  `x - x` with unknown x is unknown.
  D2  an array's element count is defined as size/element_size only when the whole field is
      inside the storage; on a truncated array the reference leaves count/Ok/elements undefined
      beyond what the elements that are fully there show.  An array whose byte size is not a
      multiple of its element size is not Ok.
  D3  Ok() of a structure = IsComplete ∧ every field's presence is known ∧ every present field
      (virtual ones included) is Ok ∧ the structure's [requires] is known true.
  D4  IsComplete() = size known ∧ storage holds at least that many bytes/bits.
  D5  the accessor of a field that is not (known to be) present yields a view that is not Ok and
      not complete; a virtual field's view is Ok iff its value is computable and passes [requires]
      (independently of its presence); its value is reported only when it is present.
  D6  a nested structure/bits field whose arguments cannot be computed is not Ok.
  D7  `bits` need all of their bytes to be readable (a truncated container makes every member
      unreadable).
"""


class _Storage:
    """Bytes view: `data` = the bytes really available (possibly fewer than nominal)."""

    def __init__(self, data, exists=True):
        self.data, self.exists = data, exists


class _View:
    def __init__(self, struct, params, unit, data=None, exists=True, bitval=None, nbits=0):
        self.struct, self.params, self.unit = struct, params, unit
        self.exists = exists
        self.data = data          # bytes (unit 8)
        self.bitval = bitval      # int or None when unreadable (unit 1)
        self.nbits = nbits        # available bits (unit 1)
        self.memo = {}

    def avail(self):
        if not self.exists:
            return 0
        return len(self.data) if self.unit == 8 else (self.nbits if self.bitval is not None else 0)


def _anon_members(struct):
    out = {}
    for f in struct.fields:
        if f.kind == "bits" and f.anonymous:
            for g in f.struct.fields:
                out[g.name] = (f, g)
    return out


def _field_info(view, name):
    """-> dict(has, start, size, field, sub) for a direct field or an anonymous-bits member."""
    key = ("info", name)
    if key in view.memo:
        return view.memo[key]
    view.memo[key] = None  # cycle guard (never happens on accepted modules)
    f = view.struct.field(name)
    if f is None:
        am = _anon_members(view.struct)
        if name in am:
            cont, g = am[name]
            ci = _field_info(view, cont.name)
            sub = _subview(view, ci)
            gi = _field_info(sub, g.name)
            # alias of x.y exists iff x exists and y exists in x ($present(x) && $present(x.y))
            r = dict(gi)
            r["has"] = _and(ci["has"], gi["has"])
            r["owner"] = sub
            view.memo[key] = r
            return r
        raise KeyError(name)
    has = True if f.cond is None else ev(view, f.cond)
    r = {"has": has, "field": f, "owner": view, "start": None, "size": None}
    if not f.virtual:
        r["start"] = ev(view, f.start)
        r["size"] = ev(view, f.size)
    view.memo[key] = r
    return r


def _and(a, b):
    if a is False or b is False:
        return False
    if a is None or b is None:
        return None
    return True


def _or(a, b):
    if a is True or b is True:
        return True
    if a is None or b is None:
        return None
    return False


def _located(info):
    return info["has"] is True and info["start"] is not None and info["size"] is not None and \
        info["start"] >= 0 and info["size"] >= 0


def _slice(view, info):
    """Storage of a located physical field inside `view`: (available bytes/bits, complete?)."""
    s, n = info["start"], info["size"]
    if view.unit == 8:
        if not view.exists:
            return None, False
        d = view.data[s:s + n] if s <= len(view.data) else b""
        return d, len(d) == n
    if not view.exists or view.bitval is None:
        return None, False
    if s + n > view.nbits:
        return None, False
    return (view.bitval >> s) & ((1 << n) - 1), True


def _bo(view, f):
    """Effective byte order of field `f` of the structure `view` looks at, as documented
    (language-reference.md, "byte_order" and "$default"): the field's own `[byte_order]`, else the
    `[$default byte_order]` of the type the field is declared in, else the module's `$default`.
    Computed here from the generator's description — never from the compiler's IR."""
    return f.byte_order or getattr(view.struct, "default_byte_order", None) or _DEFAULT_BO[0]


_DEFAULT_BO = ["LittleEndian"]


def set_default_byte_order(bo):
    _DEFAULT_BO[0] = bo


def _to_int(data, bo):
    return int.from_bytes(data, "little" if bo == "LittleEndian" else "big")


def _subview(view, info):
    """View of a struct/bits-typed field, or None when the accessor yields a null view."""
    f = info["field"]
    key = ("sub", f.name)
    if key in view.memo:
        return view.memo[key]
    r = None
    if _located(info):
        args = [ev(view, a) for a in f.args]
        if all(a is not None for a in args):
            got, complete = _slice(view, info)
            if f.struct.unit == 8:
                r = _View(f.struct, args, 8, data=got if got is not None else b"", exists=got is not None)
            else:
                nb = info["size"] * view.unit
                if view.unit == 8:
                    val = _to_int(got, _bo(view, f)) if complete else None
                else:
                    val = got if complete else None
                r = _View(f.struct, args, 1, exists=got is not None, bitval=val, nbits=nb)
    if r is None:
        # D5: the accessor yields a null view: no storage, parameters not initialised
        r = _View(f.struct, None, f.struct.unit, data=b"", exists=False, bitval=None, nbits=0)
        r.null = True
    view.memo[key] = r
    return r


def _scalar_raw(view, info, f, bits_override=None):
    """Unsigned raw value of a scalar field or None."""
    got, complete = _slice(view, info)
    if not complete:
        return None
    if view.unit == 8:
        return _to_int(got, _bo(view, f))
    return got


def _decode(kind, raw, bits, f):
    """-> (value or None if invalid)."""
    if kind == "uint":
        return raw
    if kind == "int":
        return raw - (1 << bits) if raw >> (bits - 1) else raw
    if kind == "flag":
        return bool(raw)
    if kind == "bcd":
        v, mul, x, left = 0, 1, raw, bits
        while left > 0:
            d = x & 0xF
            if left >= 4 and d > 9:
                return None
            v += d * mul
            mul *= 10
            x >>= 4
            left -= 4
        return v
    if kind == "enum":
        # signed enums are only generated in fields as wide as the enum (64 bits): the narrower
        # case is candidate finding F14 (C02/C19) and is steered around by the generator
        if f.enum.signed:
            return raw - (1 << bits) if raw >> (bits - 1) else raw
        return raw
    raise ValueError(kind)


def field_value(view, name):
    """Value of field `name` as an expression operand: None when unknown (D1)."""
    key = ("val", name)
    if key in view.memo:
        return view.memo[key]
    view.memo[key] = None
    info = _field_info(view, name)
    f = info["field"]
    owner = info["owner"]
    v = None
    if info["has"] is True and owner is not None:
        if f.virtual:
            v, vok = _virtual_ok(owner, f)
            if vok is not True:
                v = None
        elif f.kind in ("uint", "int", "bcd", "flag", "enum") and _located(info):
            raw = _scalar_raw(owner, info, f)
            if raw is not None:
                v = _decode(f.kind, raw, info["size"] * owner.unit, f)
                if v is not None and f.requires is not None and ev(owner, f.requires, this=v) is not True:
                    v = None
    view.memo[key] = v
    return v


def virtual_value(view, f):
    """Value of a virtual field if computable and valid, regardless of presence."""
    v = ev(view, f.value)
    if v is not None and f.requires is not None and ev(view, f.requires, this=v) is not True:
        return None
    return v


def ev(view, e, this=None):
    k = e[0]
    if k == "n":
        return e[1]
    if k == "t":
        return True
    if k == "fl":
        return False
    if k == "ev":
        return dict(e[1].values)[e[2]]
    if k == "this":
        return this
    if k == "p":
        if view.params is None:
            return None
        for (n, _k, _b), v in zip(view.struct.params, view.params):
            if n == e[1]:
                return v
        raise KeyError(e[1])
    if k == "f":
        parts = e[1].split(".")
        if len(parts) == 1:
            return field_value(view, parts[0])
        info = _field_info(view, parts[0])
        return ev(_subview(view, info), ("f", ".".join(parts[1:])))
    if k == "has":
        return _field_info(view, e[1])["has"]
    if k == "&&":
        return _and(ev(view, e[1], this), ev(view, e[2], this))
    if k == "||":
        return _or(ev(view, e[1], this), ev(view, e[2], this))
    if k == "?:":
        c = ev(view, e[1], this)
        if c is None:
            return None
        return ev(view, e[2], this) if c else ev(view, e[3], this)
    args = [ev(view, a, this) for a in e[1:]]
    if any(a is None for a in args):
        return None
    if k == "max":
        return max(args)
    a, b = args
    return {"+": lambda: a + b, "-": lambda: a - b, "*": lambda: a * b,
            "==": lambda: a == b, "!=": lambda: a != b, "<": lambda: a < b, "<=": lambda: a <= b,
            ">": lambda: a > b, ">=": lambda: a >= b}[k]()


# --------------------------------------------------------------------- observation
def _fmt(v):
    if v is True:
        return "1"
    if v is False:
        return "0"
    return str(v)


def struct_size(view):
    """max end over present physical fields; None when unknown."""
    size = 0
    for f in view.struct.fields:
        if f.virtual:
            continue
        info = _field_info(view, f.name)
        if info["has"] is None:
            return None
        if info["has"]:
            if info["start"] is None or info["size"] is None:
                return None
            size = max(size, info["start"] + info["size"])
    return size


def _null_obs(f):
    """What the accessor of an absent/unlocated physical field shows (D5)."""
    if f.kind == "array":
        return {"k": "array", "ok": False, "complete": False, "count": 0, "elems": [], "at_end_ok": False}
    return {"k": "leaf", "ok": False, "complete": False, "value": None}


def _obs_scalar(view, info, f, present):
    kind = f.kind
    bits = info["size"] * view.unit
    raw = _scalar_raw(view, info, f)
    if raw is None:
        return {"k": "leaf", "ok": False, "complete": False, "value": None}
    v = _decode(kind, raw, bits, f)
    ok = v is not None and (f.requires is None or ev(view, f.requires, this=v) is True)
    return {"k": "leaf", "ok": ok, "complete": True, "value": _fmt(v) if ok and present else None}


def _obs_array(view, info, f):
    got, complete = _slice(view, info)
    if got is None:
        return _null_obs(f)
    el, eu = f.elem, f.elem_units
    n = len(got) // eu
    elems = []
    for i in range(n):
        chunk = got[i * eu:(i + 1) * eu]
        if el.kind == "struct":
            sv = _View(el.struct, [ev(view, a) for a in el.args], 8, data=chunk)
            elems.append(observe_view(sv))
        else:
            raw = _to_int(chunk, _bo(view, f))
            v = _decode(el.kind, raw, el.bits, el)
            elems.append({"k": "leaf", "ok": v is not None, "complete": True,
                          "value": _fmt(v) if v is not None else None})
    ok = len(got) % eu == 0 and all(e["ok"] for e in elems)
    return {"k": "array", "ok": ok if complete else None, "complete": True,
            "count": n if complete else None, "elems": elems, "at_end_ok": False}


def _virtual_ok(view, f):
    """(value, ok) with ok in True / False / None (None: the reference cannot compute it; the
    implementation may still know it by constant folding, see D8)."""
    v = ev(view, f.value)
    if v is None:
        return None, None
    if f.requires is None:
        return v, True
    q = ev(view, f.requires, this=v)
    return v, q


def observe_view(view):
    """D8: the reference is a *lower bound* on knowledge.  Wherever it cannot compute something
    (None) the implementation may still report a value (the compiler folds expressions whose
    inferred range is a single value); such reports are checked by prefix monotonicity against
    longer buffers on which the reference does know.  Ok/IsComplete are therefore three-valued
    here: True, definitely False, or None when they hinge on something the reference cannot compute."""
    size = struct_size(view)
    if size is None:
        complete = None if view.exists else False
    else:
        complete = view.exists and view.avail() >= size
    if view.unit == 1 and view.bitval is None:
        complete = False
    if not view.exists:
        complete = False
    d = {"k": "struct", "size_known": True if size is not None else None, "size": size,
         "complete": complete, "fields": []}
    definite_false = complete is False
    unknown = complete is None
    names = []
    for f in view.struct.fields:
        if f.kind == "bits" and f.anonymous:
            names.extend(g.name for g in f.struct.fields)
            # the anonymous container itself takes part in Ok()
            info = _field_info(view, f.name)
            if info["has"] is None:
                unknown = True
            elif info["has"]:
                so = observe_view(_subview(view, info))["ok"]
                if so is False:
                    definite_false = True
                elif so is None:
                    unknown = True
        else:
            names.append(f.name)
    for name in names:
        info = _field_info(view, name)
        f, owner = info["field"], info["owner"]
        has = info["has"]
        present = has is True
        if f.virtual:
            v, vok = _virtual_ok(owner, f)
            o = {"k": "leaf", "ok": vok, "complete": None,
                 "value": _fmt(v) if (vok is True and present) else None}
        elif f.kind in ("struct", "bits"):
            o = observe_view(_subview(owner, info))
        elif not present or not _located(info):
            o = _null_obs(f)
        elif f.kind == "array":
            o = _obs_array(owner, info, f)
        else:
            o = _obs_scalar(owner, info, f, present)
        d["fields"].append((name, {True: "T", False: "F", None: None}[has], o))
        if has is None:
            unknown = True
        elif has:
            if o["ok"] is False:
                definite_false = True
            elif o["ok"] is None:
                unknown = True
    if view.struct.params and view.params is None:
        definite_false = True   # parameters of a null view are not initialised
    if view.struct.requires is not None:
        q = ev(view, view.struct.requires)
        if q is False:
            definite_false = True
        elif q is None:
            unknown = True
    d["ok"] = False if definite_false else (None if unknown else True)
    return d


def observe(struct, params, data):
    return observe_view(_View(struct, list(params), 8, data=bytes(data)))


def diff(real, ref, path=""):
    """Differences between a real observation (cppdrv.parse_obs) and the reference.  `None` in the
    reference means "left undefined" and is skipped.  Synthesised `$...` fields of the real view
    are checked by the caller against size/size_known."""
    out = []
    if real["k"] != ref["k"]:
        return ["%s: shape %s vs %s" % (path, real["k"], ref["k"])]
    if ref["k"] == "struct":
        for key in ("ok", "complete", "size_known", "size"):
            if ref[key] is not None and real[key] != ref[key]:
                out.append("%s.%s: real %r reference %r" % (path, key, real[key], ref[key]))
        rf = [(n, h, o) for n, h, o in real["fields"] if not n.startswith("$")]
        if [n for n, _h, _o in rf] != [n for n, _h, _o in ref["fields"]]:
            # order may differ: match by name
            pass
        refd = {n: (h, o) for n, h, o in ref["fields"]}
        for n, h, o in rf:
            if n not in refd:
                out.append("%s.%s: field unknown to the reference" % (path, n))
                continue
            h2, o2 = refd[n]
            if h2 is not None and h != h2:
                out.append("%s.has_%s: real %s reference %s" % (path, n, h, h2))
            out.extend(diff(o, o2, path + "." + n))
        for n, h, o in real["fields"]:
            if n in ("$size_in_bytes", "$size_in_bits"):
                if h != "T":
                    out.append("%s.%s has %s" % (path, n, h))
                if ref["size_known"] and (not o["ok"] or int(o["value"]) != ref["size"]):
                    out.append("%s.%s: real %r reference size %r" % (path, n, o, ref["size"]))
    elif ref["k"] == "leaf":
        for key in ("ok", "complete", "value"):
            if ref[key] is None or (key == "complete" and real[key] is None):
                continue
            if real[key] != ref[key]:
                out.append("%s.%s: real %r reference %r" % (path, key, real[key], ref[key]))
    else:
        if ref["ok"] is not None and real["ok"] != ref["ok"]:
            out.append("%s.ok: real %r reference %r" % (path, real["ok"], ref["ok"]))
        if ref["count"] is not None and real["count"] != ref["count"]:
            out.append("%s.count: real %r reference %r" % (path, real["count"], ref["count"]))
        if real["at_end_ok"]:
            out.append("%s: at(count) is Ok" % path)
        for i, (e1, e2) in enumerate(zip(real["elems"], ref["elems"])):
            out.extend(diff(e1, e2, "%s[%d]" % (path, i)))
    return out


# ------------------------------------------------------------------ C20: Equals / CopyFrom
def logical_equal(ta, tb):
    """Logical equality of two reference observations of the same structure (C20 statement: same
    presence for every field, every present field reads equal, recursively / element by element).
    Returns True / False, or None when the reference cannot decide (something undefined)."""
    if ta["k"] != tb["k"]:
        return False
    if ta["k"] == "leaf":
        if ta["ok"] is None or tb["ok"] is None:
            return None
        if not ta["ok"] or not tb["ok"]:
            return None
        if ta["value"] is None or tb["value"] is None:
            return None
        return ta["value"] == tb["value"]
    if ta["k"] == "array":
        if ta["count"] is None or tb["count"] is None:
            return None
        if ta["count"] != tb["count"]:
            return False
        res = True
        for ea, eb in zip(ta["elems"], tb["elems"]):
            q = logical_equal(ea, eb)
            if q is False:
                return False
            if q is None:
                res = None
        return res
    res = True
    for (na, ha, oa), (nb, hb, ob) in zip(ta["fields"], tb["fields"]):
        if ha is None or hb is None:
            res = None
            continue
        if ha != hb:
            return False
        if ha == "T":
            if oa["k"] == "leaf" and oa.get("complete") is None:
                continue    # virtual field: equal by definition when the physical fields are
            q = logical_equal(oa, ob)
            if q is False:
                return False
            if q is None:
                res = None
    return res


def container_regions(view, base=0, path="", in_array=False, depth=0):
    """Byte regions [(path, first byte, bytes, depth, inside an array element)] of every structure-
    typed field / array element reachable through present, located fields of a byte structure."""
    out = []
    for f in view.struct.fields:
        if f.virtual or f.kind not in ("struct", "array"):
            continue
        info = _field_info(view, f.name)
        if not _located(info):
            continue
        got, _complete = _slice(view, info)
        if got is None:
            continue
        at = base + info["start"]
        if f.kind == "struct" and f.struct.unit == 8:
            sub = _subview(view, info)
            out.append((path + "." + f.name, at, len(got), depth + 1, in_array))
            out.extend(container_regions(sub, at, path + "." + f.name, in_array, depth + 1))
        elif f.kind == "array" and f.elem.kind == "struct":
            eu = f.elem_units
            for i in range(len(got) // eu):
                p = "%s.%s[%d]" % (path, f.name, i)
                sv = _View(f.elem.struct, [ev(view, a) for a in f.elem.args], 8, data=got[i * eu:(i + 1) * eu])
                out.append((p, at + i * eu, eu, depth + 1, True))
                out.extend(container_regions(sv, at + i * eu, p, True, depth + 1))
    return out


def classify_bits(struct, params, data):
    """For every bit of `data`: does flipping it change what the structure logically holds?  Uses
    only the reference semantics: the base must be Ok; a bit is 'uncovered' when the flipped buffer
    is Ok and logically equal (no present field reads it), 'covered' when the flipped buffer is Ok
    and logically different, None when the flip makes the view not Ok / undecidable.
    -> (base observation, [(bit index, class, region)]) or (None, []) when the base is not Ok;
    region = (path, depth, in_array_element) of the innermost structure holding the byte."""
    data = bytes(data)
    base = observe(struct, params, data)
    if base["ok"] is not True:
        return None, []
    regs = container_regions(_View(struct, list(params), 8, data=data))
    out = []
    for bit in range(8 * len(data)):
        b = bytearray(data)
        b[bit // 8] ^= 1 << (bit % 8)
        o = observe(struct, params, bytes(b))
        cls = None
        if o["ok"] is True:
            q = logical_equal(base, o)
            cls = None if q is None else ("uncovered" if q else "covered")
        best = ("", 0, False)
        for p, at, n, depth, in_arr in regs:
            if at <= bit // 8 < at + n and depth >= best[1]:
                best = (p, depth, in_arr)
        out.append((bit, cls, best))
    return base, out
