"""Shared body of ./check C02 and ./check C03.

Both properties are tied to the code by the same executions (each case reads a field,
writes a value, reads again); C02 judges the read half of every output line
(`cmp ok rd`), C03 the write half (`could try after ok2 rd2`).

Three executions per case: the real runtime templates (C++ built from $VERIF_REPO), the
Lean model (`SCALAR` op), and the independent spec oracle (`scalarcpp.spec`, pure integer
arithmetic from the language reference).  The oracle is the judge.
"""
import collections
import json
import os

from harness.lib import common, scalarcpp as S

KEYS = {"C02": S.READ_KEYS, "C03": S.WRITE_KEYS}


def project(line, keys, spec_ok_fields=None):
    d = S.parse_line(line)
    return tuple((k, d.get(k)) for k in keys)


def compare_with_spec(prop, case, real):
    """None if the real output satisfies the property on this case, else a description.
    Values read from a structure that is not Ok() are unspecified (BCD with a nibble > 9)."""
    cfg, data, argt, value = case
    if real.startswith("CRASH"):
        return "real code: " + real[:300]
    sp = S.parse_line(S.spec_line(cfg, data, argt, value))
    rl = S.parse_line(real)
    for k in KEYS[prop]:
        if k == "rd" and sp["ok"] == "0":
            continue
        if k == "rd2" and sp["ok2"] == "0":
            continue
        if rl.get(k) != sp[k]:
            return "%s: real %s, specified %s" % (k, rl.get(k), sp[k])
    if "!" in real:
        return "Read() differs from UncheckedRead(): " + real
    return None


def case_record(case, path):
    cfg, data, argt, value = case
    return {"config": cfg._asdict(), "data": S.hexs(data), "argt": argt, "value": value,
            "path": path, "op": S.model_line(cfg, data, argt, value, path)}


def case_of_record(rec):
    cfg = S.Config(**rec["config"])
    data = [] if rec["data"] == "-" else list(bytes.fromhex(rec["data"]))
    return (cfg, data, rec["argt"], rec["value"])


def pinned_cases(chk):
    """Pinned direct-template inputs, always executed first: the findings of this property
    (open ones are reported as KNOWN-FINDING while they still fail; a *fixed* entry suppresses
    nothing — its input stays here so that reverting the repair is a violation again) and
    corpus/<prop>/*.json (also corpus/C02 for C03 and vice versa: same executions)."""
    out, seen = [], set()
    for k in chk.known:
        if k.get("property") == chk.prop and isinstance(k.get("input"), dict) and "config" in k["input"]:
            case = case_of_record(k["input"])
            seen.add(repr(case))
            out.append((k if k.get("status") == "open" else None, case))
    for prop in ("C02", "C03"):
        cdir = os.path.join(common.VERIF, "corpus", prop)
        if os.path.isdir(cdir):
            for fn in sorted(os.listdir(cdir)):
                if fn.endswith(".json"):
                    rec = json.load(open(os.path.join(cdir, fn)))
                    if "config" in rec:
                        case = case_of_record(rec)
                        if repr(case) not in seen:
                            seen.add(repr(case))
                            out.append((None, case))
    return out


def judge(chk, prop, cases, real, model, path, stats):
    """real/model: output lines (model may be None: search mode)."""
    keys = KEYS[prop]
    for i, case in enumerate(cases):
        cfg, data, argt, value = case
        rl = real[i]
        if rl.startswith("SKIPPED"):
            stats["skipped_after_crashes"] += 1
            continue
        chk.count()
        why = compare_with_spec(prop, case, rl)
        d = S.parse_line(rl)
        stats["type:" + cfg.ty] += 1
        stats["order:" + cfg.order] += 1
        stats["mode:" + cfg.mode] += 1
        if prop == "C02":
            stats["ok=%s" % d.get("ok")] += 1
            if d.get("cmp") == "1" and (cfg.o > 0 or cfg.k < cfg.c):
                chk.nontrivial((cfg.ty, cfg.k, cfg.c, cfg.o, cfg.order, cfg.mode, path))
        else:
            stats["could=%s,try=%s" % (d.get("could"), d.get("try"))] += 1
            if d.get("try") == "1" and (cfg.o > 0 or cfg.k < cfg.c):
                chk.nontrivial((cfg.ty, cfg.k, cfg.c, cfg.o, cfg.order, cfg.mode, path))
        if why:
            fk = S.finding_key(cfg, value)
            dedup = (cfg.ty, cfg.k, cfg.c, cfg.mode, why.split(":")[0])
            report = True
            if chk.known_finding(fk) is None:
                stats["failing_cases"] += 1
                if dedup in stats["_reported"] or len(stats["_reported"]) >= 12:
                    report = False
                stats["_reported"].add(dedup)
            else:
                stats["known_finding_cases"] += 1
            if report:
                chk.violation("input", dict(case_record(case, path), observed=rl, expected=why,
                                            spec=S.spec_line(cfg, data, argt, value),
                                            kind_of_input="direct-template"), key=fk)
        if model is not None:
            ml = model[i]
            if ml == "bad-op" or project(ml, keys) != project(rl, keys) or \
                    (rl.startswith("CRASH") and "check" not in ml):
                stats["model_disagreements"] += 1
                if not why and stats["model_disagreements"] <= 8:
                    chk.violation("correspondence", dict(
                        case_record(case, path), observed=rl, model=ml,
                        expected="real code satisfies the spec here; the model differs",
                        theorem_or_correspondence="model_c02 SCALAR vs runtime templates"),
                        found_input=False)
        if i % 997 == 0:
            chk.sample({"op": S.model_line(cfg, data, argt, value, path), "real": rl}, limit=4)


def run_cases(chk, prop, shapes, argts, cases, path, noopt, model_exe, stats, pins=(), compiler="g++"):
    real = S.execute(shapes, argts, cases, noopt=noopt, compiler=compiler)
    model = None
    if model_exe:
        model = common.Model(model_exe).ask([S.model_line(*c, path) for c in cases])
    for (k, case), rl in zip(pins, real):      # pinned inputs come first in `cases`
        if k is not None and compare_with_spec(prop, case, rl):
            chk.report_known(k)
    judge(chk, prop, cases, real, model, path, stats)


def direct_part(chk, prop, tier, model_exe, stats, budget="run"):
    """The direct-template correspondence.  model_exe None = model-free search."""
    r = common.rng(prop + "-direct-" + tier + budget)
    pins = pinned_cases(chk)
    pin_cases = [c for _, c in pins]

    def with_pins(shapes, argts, cases):
        for c in pin_cases:
            s = S.shape_of(c[0])
            if s not in argts:
                shapes.append(s)
                argts[s] = S.shape_argts(s, r)
            if c[2] not in argts[s]:
                argts[s] = argts[s] + [c[2]]
        return shapes, argts, pin_cases + cases

    if tier == "quick":
        cfgs = S.quick_configs(r)
        stats["configurations"] = len(cfgs)
        shapes, argts, cases = with_pins(*S.build_cases(cfgs, r, 64))
        stats["shapes_compiled"] = len(shapes)
        run_cases(chk, prop, shapes, argts, cases, "opt", False, model_exe, stats, pins)
        # a slice of the configurations also through the portable code path
        noopt_cfgs = [c for i, c in enumerate(cfgs) if i % 12 == 0]
        shapes2, argts2, cases2 = S.build_cases(noopt_cfgs, r, 24)
        stats["shapes_compiled"] += len(shapes2)
        run_cases(chk, prop, shapes2, argts2, cases2, "noopt", True, model_exe, stats)
        return
    # thorough: every (c, o, w) triple, both code paths, one container size at a time
    allcfgs = S.thorough_configs(r)
    stats["configurations"] = len(allcfgs)
    first = True
    only = os.environ.get("VERIF_ONLY_C")      # development knob: subset of container sizes
    sizes = [int(x) for x in only.split(",")] if only else list(range(8, 65, 8))
    if only:
        stats["VERIF_ONLY_C"] = only
    for c in sizes:
        cfgs = [x for x in allcfgs if x.c == c]
        for path, noopt in (("opt", False), ("noopt", True)):
            shapes, argts, cases = S.build_cases(cfgs, r, 24)
            p = ()
            if first:
                shapes, argts, cases = with_pins(shapes, argts, cases)
                p, first = pins, False
            stats["shapes_compiled"] += len(shapes)
            run_cases(chk, prop, shapes, argts, cases, path, noopt, model_exe, stats, p)
    # second compiler on the boundary configurations
    cfgs3 = S.quick_configs(common.rng(prop + "-clang"))
    shapes3, argts3, cases3 = S.build_cases(cfgs3, r, 16)
    run_cases(chk, prop, shapes3, argts3, cases3, "opt", False, model_exe, stats, compiler="clang++")
    stats["clang_cases"] = len(cases3)


def replay_direct(rec):
    case = case_of_record(rec)
    cfg = case[0]
    shapes = [S.shape_of(cfg)]
    argts = {shapes[0]: [case[2]]}
    noopt = rec.get("path") == "noopt"
    real = S.execute(shapes, argts, [case], noopt=noopt, workers=1)
    print("op:      ", S.model_line(*case, rec.get("path", "opt")))
    print("real:    ", real[0])
    print("spec:    ", S.spec_line(*case))
    for prop in ("C02", "C03"):
        print("%s verdict:" % prop, compare_with_spec(prop, case, real[0]) or "satisfies the property")
    return 0
