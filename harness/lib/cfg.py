"""Independent spec oracle for context-free grammars + random grammar generator (C08).

Written from the textbook definitions (Earley recognition, least fixed points for
nullable/productive, Kleene iteration of saturating tree counts), *not* from any LR
construction.  Grammars are tiny; clarity over speed.

A grammar is (start, prods) with prods a list of (lhs, rhs-tuple).  Nonterminals are the
symbols that occur as a left-hand side; every other symbol is a terminal (also `start`, if it
has no production: then the language is {[start]}).
"""
import itertools

AUG = ("<S'>",)


class Oracle(object):
    def __init__(self, start, prods):
        self.start = start
        seen, self.prods = set(), []
        for lhs, rhs in prods:
            p = (lhs, tuple(rhs))
            if p not in seen:
                seen.add(p)
                self.prods.append(p)
        self.nonterminals = set(l for l, _ in self.prods)
        terms = set(x for _, r in self.prods for x in r if x not in self.nonterminals)
        if start not in self.nonterminals:
            terms.add(start)
        self.terminals = sorted(terms)
        # least fixed points
        self.nullable, self.productive = set(), set()
        changed = True
        while changed:
            changed = False
            for l, r in self.prods:
                if l not in self.nullable and all(x in self.nullable for x in r):
                    self.nullable.add(l)
                    changed = True
                if l not in self.productive and all(
                        x in self.productive or x not in self.nonterminals for x in r):
                    self.productive.add(l)
                    changed = True
        self.reduced = self.productive == self.nonterminals
        self.empty_language = start in self.nonterminals and start not in self.productive
        reach, todo = {start}, [start]
        while todo:
            x = todo.pop()
            for l, r in self.prods:
                if l == x:
                    for y in r:
                        if y not in reach:
                            reach.add(y)
                            todo.append(y)
        self.reachable = reach
        # productions over productive symbols only: same language, and every Earley item of
        # this grammar can be completed to a sentence (valid-prefix property is then exact)
        self.rprods = [(l, r) for l, r in self.prods if l in self.productive and all(
            x in self.productive or x not in self.nonterminals for x in r)]
        self.by_lhs = {}
        for l, r in self.rprods:
            self.by_lhs.setdefault(l, []).append(r)

    # ------------------------------------------------------------------ Earley
    def _close(self, charts, cur):
        """Predictor + completer to a fixed point on charts[cur] (a set of items
        (lhs, rhs, dot, origin))."""
        s = charts[cur]
        while True:
            new = set()
            for (l, r, d, o) in s:
                if d < len(r):
                    x = r[d]
                    if x in self.nonterminals:
                        for rhs in self.by_lhs.get(x, ()):
                            new.add((x, rhs, 0, cur))
                else:
                    for (l2, r2, d2, o2) in charts[o]:
                        if d2 < len(r2) and r2[d2] == l:
                            new.add((l2, r2, d2 + 1, o2))
            if new <= s:
                return
            s |= new

    def _start_chart(self):
        charts = [set([(AUG, (self.start,), 0, 0)])]
        self._close(charts, 0)
        return charts

    def _scan(self, charts, tok):
        """Returns charts extended by one token, or None if the new set is empty."""
        cur = len(charts) - 1
        nxt = set((l, r, d + 1, o) for (l, r, d, o) in charts[cur] if d < len(r) and r[d] == tok
                  and tok not in self.nonterminals)
        if not nxt:
            return None
        out = charts + [nxt]
        self._close(out, cur + 1)
        return out

    def _accepting(self, charts):
        return (AUG, (self.start,), 1, 0) in charts[-1]

    def recognize(self, w):
        if self.empty_language:
            return False
        charts = self._start_chart()
        for t in w:
            charts = self._scan(charts, t)
            if charts is None:
                return False
        return self._accepting(charts)

    def viable_prefix(self, u):
        """exists v: u+v is a sentence."""
        if self.empty_language:
            return False
        charts = self._start_chart()
        for t in u:
            charts = self._scan(charts, t)
            if charts is None:
                return False
        return True

    def first_error_index(self, w):
        """None if w is a sentence; else the least i such that (w+['$'])[:i+1] is not a prefix
        of any sentence followed by '$'."""
        w = tuple(w)
        if self.empty_language:
            return 0
        charts = self._start_chart()
        for i, t in enumerate(w):
            charts = self._scan(charts, t)
            if charts is None:
                return i
        return None if self._accepting(charts) else len(w)

    def scan_all(self, maxlen, alphabet=None):
        """dict: every string over `alphabet` (default: the terminals) of length <= maxlen ->
        None (sentence) | first error index.  Shares Earley charts along the prefix trie."""
        alphabet = list(self.terminals if alphabet is None else alphabet)
        out = {}

        def dead(prefix, idx):
            # every extension of a non-viable prefix fails at the same index
            for n in range(0, maxlen - len(prefix) + 1):
                for ext in itertools.product(alphabet, repeat=n):
                    out[prefix + ext] = idx

        def go(prefix, charts):
            out[prefix] = None if self._accepting(charts) else len(prefix)
            if len(prefix) == maxlen:
                return
            for t in alphabet:
                nxt = self._scan(charts, t)
                if nxt is None:
                    dead(prefix + (t,), len(prefix))
                else:
                    go(prefix + (t,), nxt)
        if self.empty_language:
            dead((), 0)
        else:
            go((), self._start_chart())
        return out

    def sentences(self, maxlen):
        return sorted(w for w, e in self.scan_all(maxlen).items() if e is None)

    # ------------------------------------------------------------- tree counts
    def count_trees(self, w, cap=2):
        """Number of distinct parse trees of w from start, saturating at cap (infinitely many
        ⇒ cap).  Kleene iteration of the counting equations in the semiring (N, +, ×) capped."""
        w = tuple(w)
        n = len(w)
        nts = sorted(self.productive)
        N = {}

        def get(x, i, j):
            if x in self.nonterminals:
                return N.get((x, i, j), 0)
            return 1 if (j == i + 1 and w[i] == x) else 0

        def ways(rhs, i, j):
            cur = {i: 1}
            for k, y in enumerate(rhs):
                nxt = {}
                for pos, c in cur.items():
                    for e in range(pos, j + 1):
                        g = get(y, pos, e)
                        if g:
                            nxt[e] = min(cap, nxt.get(e, 0) + c * g)
                cur = nxt
                if not cur:
                    return 0
            return cur.get(j, 0)
        while True:
            changed = False
            for x in nts:
                for i in range(n + 1):
                    for j in range(i, n + 1):
                        tot = 0
                        for rhs in self.by_lhs.get(x, ()):
                            tot = min(cap, tot + ways(rhs, i, j))
                        if tot != N.get((x, i, j), 0):
                            N[(x, i, j)] = tot
                            changed = True
            if not changed:
                break
        return get(self.start, 0, n)

    def ambiguous_witness(self, maxlen):
        for w in self.sentences(maxlen):
            if self.count_trees(w, 2) >= 2:
                return w
        return None

    # ------------------------------------------------------ sentence sampling
    def _minlen(self):
        if not hasattr(self, "_ml"):
            ml = {}
            changed = True
            while changed:
                changed = False
                for l, r in self.rprods:
                    if all((x in ml) or (x not in self.nonterminals) for x in r):
                        v = sum(ml[x] if x in self.nonterminals else 1 for x in r)
                        if l not in ml or v < ml[l]:
                            ml[l] = v
                            changed = True
            self._ml = ml
        return self._ml

    def sample_sentence(self, r, maxlen):
        """A random sentence of length <= maxlen by random leftmost expansion (None if the
        language is empty or the attempt overran the budget)."""
        if self.empty_language:
            return None
        ml = self._minlen()
        need = lambda x: ml[x] if x in self.nonterminals else 1
        if need(self.start) > maxlen:
            return None
        out, todo, steps = [], [self.start], 0
        while todo:
            steps += 1
            if steps > 400:
                return None
            x = todo.pop()
            if x not in self.nonterminals:
                out.append(x)
                continue
            budget = maxlen - len(out) - sum(need(y) for y in todo)
            opts = [rhs for rhs in self.by_lhs.get(x, ()) if sum(need(y) for y in rhs) <= budget]
            if not opts:
                return None
            rhs = max(r.choice(opts), r.choice(opts), r.choice(opts), key=len)   # bias to longer
            todo.extend(reversed(rhs))
        return tuple(out)

    # --------------------------------------------------------- derivation check
    def check_tree(self, tree, w):
        """tree = ('leaf', sym, index) | ('node', lhs, rhs, [children]).  None if it is a parse
        tree of w from start, else a reason."""
        w = tuple(w)
        leaves = []
        pset = set(self.prods)

        def root(t):
            return t[1]

        def walk(t):
            if t[0] == "leaf":
                if t[1] in self.nonterminals:
                    return "leaf with nonterminal symbol %r" % (t[1],)
                leaves.append((t[1], t[2]))
                return None
            if t[0] != "node":
                return "bad node kind"
            _, lhs, rhs, cs = t
            if (lhs, tuple(rhs)) not in pset:
                return "node %s -> %s is not a production" % (lhs, " ".join(rhs))
            if tuple(root(c) for c in cs) != tuple(rhs):
                return "children of %s -> %s have roots %r" % (lhs, " ".join(rhs), [root(c) for c in cs])
            for c in cs:
                why = walk(c)
                if why:
                    return why
            return None
        why = walk(tree)
        if why:
            return why
        if root(tree) != self.start:
            return "root is %r, not the start symbol" % (root(tree),)
        if tuple(s for s, _ in leaves) != w:
            return "leaves %r are not the input %r" % ([s for s, _ in leaves], list(w))
        if [i for _, i in leaves] != list(range(len(w))):
            return "leaf tokens are not the input tokens in order"
        return None


# ------------------------------------------------------------------ generator
NTS = ["S", "A", "B", "C", "D", "E"]
TS = ["a", "b", "c", "d"]
FAMILIES = [("lr1-ish", 38), ("random", 14), ("ambiguous", 10), ("not-lalr", 6), ("epsilon", 8),
            ("cyclic", 6), ("unproductive", 8), ("unreachable", 4), ("lr2", 6),
            # families aimed at the generator's code paths (closure memoisation over cyclic item
            # graphs, FIRST through nullable symbols, goto sharing): see _mutual_leftrec etc.
            ("mutual-leftrec", 12), ("hidden-leftrec", 5), ("rec-mix", 6), ("shared-closure", 6),
            ("unit-chain", 5)]
# families whose grammars are additionally compared with the Earley oracle on longer strings
DEEP_FAMILIES = ("mutual-leftrec", "hidden-leftrec", "rec-mix", "shared-closure", "unit-chain")


def _rename(r, prods, start="S"):
    """Random consistent renaming of nonterminals (keeping the start symbol) and terminals."""
    nts = sorted(set(l for l, _ in prods) | set(x for _, rr in prods for x in rr if x.isupper()))
    ts = sorted(set(x for _, rr in prods for x in rr if not x.isupper()))
    others = [n for n in NTS if n != start]
    r.shuffle(others)
    nmap, k = {start: start}, 0
    for n in nts:
        if n not in nmap:
            nmap[n] = others[k % len(others)]
            k += 1
    tperm = TS[:]
    r.shuffle(tperm)
    tmap = dict((t, tperm[i % 4]) for i, t in enumerate(ts))
    f = lambda x: nmap.get(x, tmap.get(x, x))
    return [(f(l), tuple(f(x) for x in rr)) for l, rr in prods]


def _lr1ish(r):
    """Deterministic-by-construction shapes, composed."""
    prods = []
    free = ["A", "B", "C", "D", "E"]
    r.shuffle(free)

    def fresh():
        return free.pop() if free else None

    def body(nt, depth):
        kind = r.choice(["alts", "leftlist", "rightlist", "brackets", "opt", "seq", "alts"])
        sub = lambda: (expand(depth + 1) if r.random() < 0.45 and depth < 2 else r.choice(TS))
        if kind == "alts":
            ts = r.sample(TS, r.randint(1, 3))
            for t in ts:
                tail = tuple(sub() for _ in range(r.randint(0, 2)))
                prods.append((nt, (t,) + tail))
        elif kind == "leftlist":
            sep = r.choice(TS)
            el = sub()
            prods.append((nt, (nt, sep, el) if r.random() < 0.6 else (nt, el)))
            prods.append((nt, (el,) if r.random() < 0.7 else ()))
        elif kind == "rightlist":
            el = r.choice(TS)
            prods.append((nt, (el, nt)))
            prods.append((nt, () if r.random() < 0.5 else (r.choice([t for t in TS if t != el]),)))
        elif kind == "brackets":
            o, c = r.sample(TS, 2)
            prods.append((nt, (o, nt, c)))
            prods.append((nt, () if r.random() < 0.4 else (r.choice([t for t in TS if t not in (o, c)]),)))
        elif kind == "opt":
            t = r.choice(TS)
            prods.append((nt, (t, sub())))
            prods.append((nt, ()))
        else:
            prods.append((nt, tuple(sub() for _ in range(r.randint(1, 4)))))

    def expand(depth):
        nt = fresh()
        if nt is None:
            return r.choice(TS)
        body(nt, depth)
        return nt
    body("S", 0)
    return prods[:10]


def _random(r):
    n_nt = r.randint(1, 6)
    n_t = r.randint(1, 4)
    nts, ts = NTS[:n_nt], TS[:n_t]
    n_p = r.randint(1, 10)
    prods = [("S", tuple(r.choice(nts + ts + ts) for _ in range(r.choice([0, 1, 1, 2, 2, 3, 4]))))]
    for _ in range(n_p - 1):
        prods.append((r.choice(nts), tuple(r.choice(nts + ts + ts)
                                           for _ in range(r.choice([0, 1, 1, 2, 2, 3, 4])))))
    return prods


def _mutual_leftrec(r):
    """Indirect / mutual left recursion through a cycle of 2-4 nonterminals N0 -> N1 .. -> N0,
    some of them nullable, with extra (left-corner) references across the cycle: the LR(1) item
    graph of such a grammar has cycles of length > 1 through several lookahead groups."""
    k = r.choice([2, 2, 3, 3, 4])
    nts = ["S"] + r.sample(["A", "B", "C", "D"], k - 1)
    ts = TS[:r.choice([2, 2, 3, 3])]
    prods = []
    XREF = r.choice([0.0, 0.1, 0.1, 0.25, 0.4])     # cycle members in non-leftmost positions

    def tail(lo, hi, allow_nt=True):
        out = []
        for _ in range(r.randint(lo, hi)):
            out.append(r.choice(nts) if allow_nt and r.random() < XREF else r.choice(ts))
        return tuple(out)
    for i, n in enumerate(nts):
        nxt = nts[(i + 1) % k]
        # the edge of the cycle: n -> nxt ...   (sometimes through a second cycle member)
        if r.random() < 0.3:
            prods.append((n, (nxt, r.choice(nts)) + tail(1, 1, False)))
        else:
            prods.append((n, (nxt,) + tail(0 if r.random() < 0.15 else 1, 2)))
        # alternatives: epsilon, a terminal base case, direct left recursion, a back edge
        for _ in range(r.choice([0, 1, 1, 1, 2])):
            kind = r.random()
            if kind < 0.35:
                prods.append((n, ()))
            elif kind < 0.6:
                prods.append((n, (r.choice(ts),) + tail(0, 1)))
            elif kind < 0.8:
                prods.append((n, (n,) + tail(1, 2, False)))
            else:
                prods.append((n, (r.choice(nts),) + tail(1, 2)))
    if not any(all(x not in nts for x in rr) for _, rr in prods):
        prods.append((r.choice(nts), r.choice([(), (r.choice(ts),)])))
    r.shuffle(prods)
    return list(dict.fromkeys(prods))[:11]


def _hidden_leftrec(r):
    """Left recursion behind a nullable prefix (A -> P A x with P =>* eps), direct or through a
    second nonterminal; P is sometimes only *apparently* nullable."""
    ts = TS[:r.choice([2, 3])]
    t = lambda: r.choice(ts)
    prods = [("P", ()) if r.random() < 0.8 else ("P", (t(),))]
    if r.random() < 0.5:
        prods.append(("P", (t(),)))
    if r.random() < 0.3:
        prods.append(("P", ("Q",)))
        prods.append(("Q", ()))
    shape = r.choice(["direct", "indirect", "right"])
    if shape == "direct":
        prods += [("X", ("P", "X", t())), ("X", (t(),))]
    elif shape == "indirect":
        prods += [("X", ("P", "Y", t())), ("Y", ("X", t())), ("Y", (t(),))]
        if r.random() < 0.5:
            prods.append(("X", (t(),)))
    else:
        prods += [("X", ("P", t(), "X")), ("X", ("P",))]
    return _embed(r, prods, "X")


def _rec_mix(r):
    """Right, centre and left recursion mixed in one grammar."""
    ts = TS[:r.choice([2, 3, 3])]
    t = lambda: r.choice(ts)
    free = ["A", "B", "C", "D"]
    r.shuffle(free)
    prods = []
    names = ["S"] + free[:r.randint(1, 3)]
    for i, n in enumerate(names):
        sub = names[i + 1] if i + 1 < len(names) else None
        kind = r.choice(["right", "centre", "left", "both"])
        el = sub if sub and r.random() < 0.7 else t()
        if kind == "right":
            prods += [(n, (t(), n)), (n, (el,))]
        elif kind == "centre":
            o, c = t(), t()
            prods += [(n, (o, n, c)), (n, (el,) if r.random() < 0.7 else ())]
        elif kind == "left":
            prods += [(n, (n, t(), el) if r.random() < 0.5 else (n, el)), (n, (el,) if r.random() < 0.7 else ())]
        else:
            prods += [(n, (n, t())), (n, (t(), n, t())), (n, (el,))]
    if r.random() < 0.3:       # a back reference to the start: recursion through the whole grammar
        prods.append((names[-1], (t(), "S", t())))
    return prods[:11]


def _shared_closure(r):
    """Many items sharing one closure: layered expression grammars / several productions that
    start with the same nonterminal in different right contexts (different lookahead sets)."""
    ts = TS[:r.choice([3, 4, 4])]
    t = lambda: r.choice(ts)
    if r.random() < 0.5:
        ops = r.sample(ts, 2)
        atom = [x for x in ts if x not in ops] or [ts[0]]
        prods = [("S", ("S", ops[0], "A")), ("S", ("A",)), ("A", ("A", ops[1], "B")), ("A", ("B",)),
                 ("B", (atom[0],))]
        if len(atom) > 1 and r.random() < 0.7:
            prods.append(("B", (atom[1], "S", atom[1])) if r.random() < 0.5 else ("B", (atom[1], "B")))
        if r.random() < 0.3:
            prods.append(("B", ()))
        return prods
    x = "A"
    prods = []
    for _ in range(r.randint(2, 4)):
        prods.append(("S", (x, t()) if r.random() < 0.6 else (t(), x, t())))
    prods.append(("S", (t(), x)) if r.random() < 0.5 else ("S", (x,)))
    prods += [(x, (x, t())) if r.random() < 0.4 else (x, (t(), x)), (x, (t(),) if r.random() < 0.6 else ())]
    if r.random() < 0.5:
        prods += [(x, ("B",)), ("B", (t(), "B")) if r.random() < 0.5 else ("B", ("B", t())), ("B", (t(),))]
    return list(dict.fromkeys(prods))[:11]


def _unit_chain(r):
    """Deep unit chains S -> A -> B -> C -> D with branches at different depths."""
    depth = r.randint(3, 5)
    names = (["S", "A", "B", "C", "D", "E"])[:depth + 1]
    ts = TS[:r.choice([2, 3])]
    t = lambda: r.choice(ts)
    prods = []
    for i in range(depth):
        prods.append((names[i], (names[i + 1],)))
        if r.random() < 0.5:
            prods.append((names[i], (names[i + 1], t()) if r.random() < 0.5 else (t(), names[i + 1])))
    last = names[depth]
    prods.append((last, (t(),)))
    if r.random() < 0.4:
        prods.append((last, ()))
    if r.random() < 0.4:
        prods.append((last, (t(), names[r.randrange(depth)], t())))
    return prods[:11]


def _embed(r, core, core_start):
    """Put a core grammar (start renamed to a fresh nonterminal) inside a small context."""
    shape = r.choice(["id", "id", "prefix", "suffix", "alt", "list"])
    if shape == "id":
        return [("S" if l == core_start else l, tuple("S" if x == core_start else x for x in rr))
                for l, rr in core]
    x = "E"
    core = [(x if l == core_start else l, tuple(x if y == core_start else y for y in rr)) for l, rr in core]
    t = r.choice(TS)
    if shape == "prefix":
        return [("S", (t, x))] + core
    if shape == "suffix":
        return [("S", (x, t))] + core
    if shape == "alt":
        return [("S", (x,)), ("S", (t, t))] + core
    return [("S", (x, "S")), ("S", ())] + core


def random_grammar(r, family=None):
    """(start, prods, tags)"""
    if family is None:
        tot = sum(w for _, w in FAMILIES)
        k = r.random() * tot
        for f, w in FAMILIES:
            k -= w
            if k < 0:
                family = f
                break
        else:
            family = "random"
    if family == "lr1-ish":
        prods = _lr1ish(r)
    elif family == "random":
        prods = _random(r)
    elif family == "ambiguous":
        core = r.choice([
            [("X", ("X", "a", "X")), ("X", ("b",))],
            [("X", ("a", "X")), ("X", ("a", "X", "b", "X")), ("X", ("c",))],       # dangling else
            [("X", ("A",)), ("X", ("B",)), ("A", ("a",)), ("B", ("a",))],
            [("X", ("X", "X")), ("X", ("a",)), ("X", ())],
            [("X", ("A", "B")), ("A", ("a",)), ("A", ()), ("B", ("a",)), ("B", ())],
            [("X", ("a", "X")), ("X", ("X", "a")), ("X", ("b",))],
            [("X", ("A", "A")), ("A", ()), ("A", ("a",))],
            [("X", ("a", "A", "c")), ("X", ("a", "B", "c")), ("A", ("b",)), ("B", ("b",))],
        ])
        prods = _rename(r, _embed(r, core, "X"))
    elif family == "not-lalr":
        core = [("X", ("a", "A", "a")), ("X", ("a", "B", "b")), ("X", ("b", "B", "a")),
                ("X", ("b", "A", "b")), ("A", ("c",)), ("B", ("c",))]
        if r.random() < 0.4:
            core[4] = ("A", ("c", "A")) if r.random() < 0.5 else ("A", ("c", "c"))
            core.append(("A", ("c",))) if core[4][1] == ("c", "A") else None
        prods = _rename(r, _embed(r, core, "X"))
    elif family == "epsilon":
        n_nt = r.randint(2, 5)
        nts = NTS[:n_nt]
        prods = [("S", tuple(r.choice(nts[1:] + TS[:2]) for _ in range(r.randint(1, 4))))]
        for nt in nts[1:]:
            prods.append((nt, ()))
            if r.random() < 0.8:
                prods.append((nt, tuple(r.choice(nts[1:] + TS + TS) for _ in range(r.randint(1, 3)))))
        prods = prods[:10]
    elif family == "cyclic":
        core = r.choice([
            [("X", ("X",)), ("X", ("a",))],
            [("X", ("A",)), ("A", ("X",)), ("X", ("a",))],
            [("X", ("A",)), ("A", ("B",)), ("B", ("A",))],
            [("X", ("a", "A")), ("A", ("A",)), ("A", ("b",))],
            [("X", ("A", "X")), ("A", ()), ("X", ("a",))],
            [("X", ("a",)), ("A", ("A",)), ("A", ("B",)), ("B", ("A",))],
            [("X", ("a", "A")), ("X", ("a", "b")), ("A", ("A",))],
        ])
        prods = _rename(r, _embed(r, core, "X"))
    elif family == "unproductive":
        core = r.choice([
            [("X", ("a", "B")), ("X", ("a", "c")), ("B", ("b", "B"))],
            [("X", ("B", "a")), ("X", ("b",)), ("B", ("b", "B"))],
            [("X", ("a", "B", "c")), ("X", ("a",)), ("B", ("B", "b"))],
            [("X", ("A",)), ("X", ("B",)), ("A", ("a", "A", "b")), ("A", ()), ("B", ("a", "B"))],
            [("X", ("a", "X", "b")), ("X", ("c",)), ("X", ("a", "B")), ("B", ("a", "B", "b"))],
            [("X", ("B",)), ("B", ("b", "B"))],
            [("X", ("a", "A")), ("A", ("b", "B")), ("A", ("c",)), ("B", ("A", "B"))],
        ])
        prods = _rename(r, _embed(r, core, "X"))
    elif family == "unreachable":
        prods = _lr1ish(r)[:7]
        used = set(l for l, _ in prods)
        extra = [n for n in NTS if n not in used] or ["E"]
        prods.append((extra[0], tuple(r.choice(TS + ["S"]) for _ in range(r.randint(0, 3)))))
        if r.random() < 0.5:
            prods.append((extra[0], (r.choice(TS),)))
    elif family == "lr2":
        core = r.choice([
            [("X", ("A", "a", "a")), ("X", ("B", "a", "b")), ("A", ("c",)), ("B", ("c",))],
            [("X", ("A", "b", "c")), ("X", ("B", "b", "d")), ("A", ("a",)), ("B", ("a",))],
            [("X", ("a", "A", "b", "a")), ("X", ("a", "B", "b", "b")), ("A", ()), ("B", ())],
        ])
        prods = _rename(r, _embed(r, core, "X"))
    elif family == "mutual-leftrec":
        prods = _mutual_leftrec(r)
    elif family == "hidden-leftrec":
        prods = _rename(r, _hidden_leftrec(r))
    elif family == "rec-mix":
        prods = _rec_mix(r)
    elif family == "shared-closure":
        prods = _shared_closure(r)
    elif family == "unit-chain":
        prods = _unit_chain(r)
    else:
        raise ValueError(family)
    if not any(l == "S" for l, _ in prods) and r.random() < 0.9:
        prods.insert(0, ("S", (r.choice(TS),)))
    prods = prods[:11 if family in DEEP_FAMILIES else 10]
    o = Oracle("S", prods)
    tags = {family}
    if any(len(rr) == 0 for _, rr in prods):
        tags.add("eps")
    if not o.reduced:
        tags.add("unproductive")
    if any(l not in o.reachable for l, _ in prods):
        tags.add("unreachable")
    if o.empty_language:
        tags.add("empty-language")
    if any(rr and rr[0] == l for l, rr in prods):
        tags.add("left-rec")
    if any(rr and rr[-1] == l for l, rr in prods):
        tags.add("right-rec")
    # left-corner relation (through nullable prefixes): indirect / hidden left recursion
    lc = {}
    for l, rr in prods:
        for i, x in enumerate(rr):
            if x in o.nonterminals:
                lc.setdefault(l, set()).add((x, i > 0))
            if x not in o.nullable:
                break
    for a in list(lc):
        seen, todo = {}, [(x, h, 1) for x, h in lc.get(a, ())]
        while todo:
            x, hid, n = todo.pop()
            if (x, hid) in seen:
                continue
            seen[(x, hid)] = n
            if x == a:
                if n > 1:
                    tags.add("indirect-left-rec")
                if hid:
                    tags.add("hidden-left-rec")
            todo.extend((y, hid or h, n + 1) for y, h in lc.get(x, ()))
    # unit/nullable cycle A =>+ A
    edges = {}
    for l, rr in prods:
        for i, x in enumerate(rr):
            if x in o.nonterminals and all(y in o.nullable for j, y in enumerate(rr) if j != i):
                edges.setdefault(l, set()).add(x)
    for a in list(edges):
        seen, todo = set(), list(edges.get(a, ()))
        while todo:
            x = todo.pop()
            if x in seen:
                continue
            seen.add(x)
            todo.extend(edges.get(x, ()))
        if a in seen:
            tags.add("cycle")
    return "S", prods, sorted(tags)


# ------------------------------------------------------------------ self-test
def _brute(start, prods, maxlen):
    """Independent brute force: all parse-tree *shapes* up to a height bound, by (symbol, length)
    enumeration of yields with multiplicity (multiset semantics capped at 3)."""
    nts = set(l for l, _ in prods)
    pset = list(dict.fromkeys((l, tuple(r)) for l, r in prods))
    # yields[x] : dict string -> count(capped 3) for trees of height <= h
    ys = dict((x, {}) for x in nts)
    for _ in range(2 * (maxlen + 2) * (len(nts) + 1)):
        new = dict((x, {}) for x in nts)
        for l, r in pset:
            acc = {(): 1}
            for y in r:
                opts = ys[y] if y in nts else {(y,): 1}
                nxt = {}
                for u, c in acc.items():
                    for v, d in opts.items():
                        if len(u) + len(v) <= maxlen:
                            nxt[u + v] = min(3, nxt.get(u + v, 0) + c * d)
                acc = nxt
            for u, c in acc.items():
                new[l][u] = min(3, new[l].get(u, 0) + c)
        if new == ys:
            break
        ys = new
    return ys[start] if start in nts else {(start,): 1}


def _selftest():
    import random
    import time
    t0 = time.time()
    g1 = Oracle("S", [("S", ("a", "B")), ("S", ("a", "c")), ("B", ("b", "B"))])
    assert g1.sentences(4) == [("a", "c")]
    assert not g1.viable_prefix(("a", "b")) and g1.viable_prefix(("a",))
    assert g1.first_error_index(("a", "b")) == 1 and g1.first_error_index(("a",)) == 1
    assert g1.first_error_index(("a", "c", "c")) == 2 and not g1.reduced
    assert Oracle("S", [("S", ("S",)), ("S", ("a",))]).count_trees(("a",), 5) == 5
    g3 = Oracle("E", [("E", ("E", "a", "E")), ("E", ("b",))])
    assert g3.count_trees(tuple("babab"), 5) == 2 and g3.count_trees(("b",)) == 1
    g4 = Oracle("S", [("S", ("A",)), ("A", ("B",)), ("B", ("A",))])
    assert g4.empty_language and not g4.viable_prefix(()) and g4.first_error_index(()) == 0
    g5 = Oracle("S", [("S", ())])
    assert g5.recognize(()) and g5.first_error_index(("a",)) == 0
    r = random.Random(12345)
    tags, amb, nsent = {}, 0, 0
    n = 600
    for k in range(n):
        start, prods, tg = random_grammar(r)
        for t in tg:
            tags[t] = tags.get(t, 0) + 1
        o = Oracle(start, prods)
        L = 4
        br = _brute(start, prods, L + 2)
        allw = o.scan_all(L, TS)
        sents = set(w for w, c in br.items())
        for w, e in allw.items():
            assert (e is None) == (w in sents and len(w) <= L), (prods, w, e)
            assert o.recognize(w) == (e is None)
            assert o.first_error_index(w) == e, (prods, w, e, o.first_error_index(w))
            if e is None:
                assert o.count_trees(w, 3) == br[w], (prods, w, o.count_trees(w, 3), br[w])
            else:
                # brute-force viable prefix up to the enumeration horizon (one-sided check)
                for i in range(len(w) + 1):
                    if any(s[:i] == w[:i] for s in sents):
                        assert e >= i, (prods, w, e, i)
        if o.ambiguous_witness(4):
            amb += 1
        nsent += sum(1 for e in allw.values() if e is None)
    print("self-test ok: %d grammars, tags %s, ambiguous %.2f, avg sentences(<=4) %.1f, %.1fs" % (
        n, sorted(tags.items()), amb / n, nsent / n, time.time() - t0))


if __name__ == "__main__":
    _selftest()
