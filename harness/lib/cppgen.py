"""Helpers shared by C07 and C19: run the real front end + C++ back end on a set of module
texts (multi-file), write the headers where `#include "<file>.h"` finds them, walk the IR
(JSON form) for types, and parse the regular parts of a generated header back.

Everything is imported from `common.REPO` (`VERIF_REPO`), never from a fixed path.
"""
import os
import re
import subprocess

from harness.lib import common, emb


def file_reader_for(files):
    """files: {name: text}.  Names not in `files` are looked up under REPO (testdata imports)."""
    def reader(name):
        if name in files:
            return files[name], None
        p = os.path.join(common.REPO, name)
        if os.path.isfile(p):
            with open(p) as f:
                return f.read(), None
        return None, ["File '%s' not found." % name]
    return reader


def front_end(files, main, stop_before_step=None):
    """Returns (ir or None, errors, exception or None)."""
    from compiler.front_end import glue
    try:
        kw = {}
        if stop_before_step is not None:
            kw["stop_before_step"] = stop_before_step
        ir, _dbg, errors = glue.parse_emboss_file(main, file_reader_for(files), **kw)
        return ir, errors, None
    except Exception as e:  # noqa: BLE001
        return None, [], e


def back_end(ir, traits=True):
    """Returns (header or None, errors, exception or None).  Mutates `ir` (the back end adds
    attributes), so serialise the IR first if you need the front end's view."""
    from compiler.back_end.cpp import header_generator
    try:
        hdr, errors = header_generator.generate_header(
            ir, header_generator.Config(include_enum_traits=traits))
        return hdr, errors, None
    except Exception as e:  # noqa: BLE001
        return None, [], e


def imported_files(ir_dict):
    """Source file names of every non-prelude module of a compiled IR, main first."""
    return [m.get("source_file_name", "") for m in ir_dict["module"] if m.get("source_file_name", "")]


def build_headers(files, main, traits=True, outdir=None):
    """Compile `main` and every module it imports, each as its own main (this is what the
    build rules do), and write `<outdir>/<file>.h`.  Returns dict with keys:
    status ('ok' | 'front-reject' | 'back-reject' | 'front-crash' | 'back-crash'),
    ir_dict (front end's IR of main as JSON dict, before the back end touched it),
    headers {file: text}, errors (summary), exc."""
    ir, errors, exc = front_end(files, main)
    if exc is not None:
        return {"status": "front-crash", "exc": exc, "errors": []}
    if errors:
        return {"status": "front-reject", "errors": emb.error_summary(errors), "exc": None}
    ir_dict = emb.ir_to_dict(ir)
    headers = {}
    hdr, berr, bexc = back_end(ir, traits)
    if bexc is not None:
        return {"status": "back-crash", "exc": bexc, "errors": [], "ir_dict": ir_dict}
    if berr:
        return {"status": "back-reject", "errors": emb.error_summary(berr), "exc": None, "ir_dict": ir_dict}
    headers[main] = hdr
    for f in imported_files(ir_dict):
        if f == main or f in headers:
            continue
        ir2, e2, x2 = front_end(files, f)
        if x2 is not None or e2:
            return {"status": "front-crash" if x2 else "front-reject", "exc": x2,
                    "errors": emb.error_summary(e2), "ir_dict": ir_dict, "in_import": f}
        h2, be2, bx2 = back_end(ir2, traits)
        if bx2 is not None or be2:
            return {"status": "back-crash" if bx2 else "back-reject", "exc": bx2,
                    "errors": emb.error_summary(be2), "ir_dict": ir_dict, "in_import": f}
        headers[f] = h2
    if outdir is not None:
        for f, text in headers.items():
            p = os.path.join(outdir, f + ".h")
            os.makedirs(os.path.dirname(p), exist_ok=True)
            with open(p, "w") as fh:
                fh.write(text)
    return {"status": "ok", "ir_dict": ir_dict, "headers": headers, "errors": [], "exc": None}


def attr_list(obj):
    return obj.get("attribute", []) or []


def attr_text(a):
    v = a.get("value", {})
    if "string_constant" in v:
        return v["string_constant"].get("text", "")
    return None


def module_namespace(module_dict):
    """Independent reading of the documented rule: the `(cpp) namespace` attribute, leading
    `::` optional, components separated by `::`; default `emboss_generated_code`."""
    for a in attr_list(module_dict):
        if a["name"]["text"] == "namespace" and a.get("back_end", {}).get("text", "") == "cpp" \
                and not a.get("is_default"):
            t = attr_text(a) or ""
            comps = [c.strip() for c in t.split("::") if c.strip()]
            if comps:
                return comps
    return ["emboss_generated_code"]


def walk_types(module_dict):
    """Yields (type_dict, ancestors[list of type dicts, outermost first]) for every type
    definition of a module, nested ones included, in source order."""
    def rec(t, anc):
        yield t, anc
        for s in t.get("subtype", []) or []:
            yield from rec(s, anc + [t])
    for t in module_dict.get("type", []) or []:
        yield from rec(t, [])


def const_int(expr):
    """Constant value of an integer expression as the front end computed it."""
    ty = expr.get("type", {}).get("integer")
    if ty and ty.get("modulus") == "infinity":
        return int(ty["modular_value"])
    en = expr.get("type", {}).get("enumeration")
    if en and "value" in en:
        return int(en["value"])      # `B = A` inside an enum: the referenced value
    if "constant" in expr:
        return int(expr["constant"]["value"])
    return None


_macro_cache = {}


def platform_macros():
    """Names #defined after including the runtime headers with g++ (libc/libstdc++ macros
    such as SEEK_DATA, LITTLE_ENDIAN, EAGAIN, ...).  Generators keep their identifiers out of
    this set: a clash with a platform macro is an environment artefact, not an Emboss defect
    (Emboss's own `reserved_words` covers the ISO C/C++ ones)."""
    key = common.REPO
    if key in _macro_cache:
        return _macro_cache[key]
    src = ('#include <stdint.h>\n#include <string.h>\n#include <algorithm>\n#include <type_traits>\n'
           '#include <utility>\n#include <sstream>\n#include <iostream>\n#include <cstdio>\n'
           '#include "runtime/cpp/emboss_cpp_util.h"\n#include "runtime/cpp/emboss_prelude.h"\n'
           '#include "runtime/cpp/emboss_enum_view.h"\n#include "runtime/cpp/emboss_text_util.h"\n')
    out = set()
    for comp in ("g++", "clang++"):
        try:
            p = subprocess.run([comp, "-std=c++17", "-dM", "-E", "-x", "c++", "-I" + common.REPO, "-"],
                               input=src.encode(), stdout=subprocess.PIPE, stderr=subprocess.PIPE,
                               timeout=120)
        except (OSError, subprocess.TimeoutExpired):
            continue
        if p.returncode == 0:
            out |= set(re.findall(r"^#define (\w+)", p.stdout.decode(errors="replace"), re.M))
    _macro_cache[key] = out
    return out
