"""Grammar-derived random Emboss *source texts* for the formatter check (C11).

The generator walks `module_ir.PRODUCTIONS` (whatever they are in $VERIF_REPO right now)
from the start symbol, so every production of the grammar is reachable; it does not
know any production by name except through the `*`/`+`/`?` suffix convention used to
bias list lengths, and the few symbols it biases (`SIZE_BIAS`).  The result is a token
sequence, which is laid out as text with odd spacing, random indentation strings,
comment-only and blank lines, trailing blanks.  The programs are syntactically valid
(they need not compile): the formatter works on parse trees.

Also: text-level mutators for existing .emb files (spacing, comments, blank lines,
re-indentation) used on /repo/testdata.
"""

from harness.lib import common  # noqa: F401

from compiler.front_end import module_ir
from compiler.front_end import tokenizer

KEYWORDS = set(t for t in tokenizer.LITERAL_TOKEN_PATTERNS if t[0].isalpha()) | {"true", "false"}

LAYOUT = ('Indent', 'Dedent', '"\\n"')


class Grammar:
    def __init__(self):
        self.productions = list(module_ir.PRODUCTIONS)
        self.by_lhs = {}
        for p in self.productions:
            self.by_lhs.setdefault(p.lhs, []).append(p)
        self.nonterminals = set(self.by_lhs)
        self.terminals = set(s for p in self.productions for s in p.rhs if s not in self.nonterminals)
        # minimal derivation height per symbol / production (fixpoint)
        inf = 10 ** 9
        self.height = {t: 0 for t in self.terminals}
        for n in self.nonterminals:
            self.height[n] = inf
        changed = True
        while changed:
            changed = False
            for p in self.productions:
                h = 1 + max([self.height[s] for s in p.rhs] + [0])
                if h < self.height[p.lhs]:
                    self.height[p.lhs] = h
                    changed = True
        self.pheight = {p: 1 + max([self.height[s] for s in p.rhs] + [0]) for p in self.productions}


_G = None


def grammar():
    global _G
    if _G is None:
        _G = Grammar()
    return _G


# ------------------------------------------------------------------ terminals
def snake(r):
    while True:
        w = r.choice("abcdefghijklmnopqrstuvwxyz") + "".join(
            r.choice("abcdefghijklmnopqrstuvwxyz_0123456789") for _ in range(r.choice([0, 1, 2, 3, 5, 9, 17])))
        if w not in KEYWORDS and not w.startswith("emboss_reserved"):
            return w


def camel(r):
    while True:
        w = r.choice("ABCDEFGHIJKLMNOPQRSTUVWXYZ") + "".join(
            r.choice("abcdefghijklmnopqrstuvwxyzABCXYZ0123456789") for _ in range(r.choice([1, 2, 3, 5, 9, 14])))
        if any(c.islower() for c in w) and not w.startswith("EmbossReserved"):
            return w


def shouty(r):
    while True:
        w = r.choice("ABCDEFGHIJKLMNOPQRSTUVWXYZ") + "".join(
            r.choice("ABCDEFGHIJKLMNOPQRSTUVWXYZ_0123456789") for _ in range(r.choice([1, 2, 3, 5, 9, 14])))
        if any(c.isupper() or c == "_" for c in w[1:]) and not w.startswith("EMBOSS_RESERVED"):
            return w


def number(r):
    k = r.randrange(8)
    if k == 0:
        return str(r.choice([0, 1, 7, 8, 255, 65535, 2 ** 32, 2 ** 64 - 1]))
    if k == 1:
        return "{:,}".format(r.randrange(10 ** r.randrange(1, 12))).replace(",", "_")
    if k == 2:
        return "0x" + "".join(r.choice("0123456789abcdefABCDEF") for _ in range(r.randrange(1, 10)))
    if k == 3:
        return "0x" + r.choice(["", "_"]) + "_".join(
            "".join(r.choice("0123456789abcdef") for _ in range(4)) for _ in range(r.randrange(1, 4)))
    if k == 4:
        return "0b" + "".join(r.choice("01") for _ in range(r.randrange(1, 12)))
    if k == 5:
        return "0b" + r.choice(["", "_"]) + "_".join(
            "".join(r.choice("01") for _ in range(8)) for _ in range(r.randrange(1, 3)))
    return str(r.randrange(0, 300))


ODD_CHARS = ["\t", "  ", "   ", "#", "--", "-", '"', "\\", "'", ":", "[", "]", "é", "ß", "→", " ", "　",
             "\x1f", "\x7f", "{}", "{0}", "%s", "$", "~", "`", "|"]


def free_text(r, n=None):
    n = r.choice([0, 0, 1, 2, 3, 5, 8]) if n is None else n
    parts = []
    for _ in range(n):
        k = r.randrange(10)
        if k < 5:
            parts.append(snake(r))
        elif k < 7:
            parts.append(r.choice(ODD_CHARS))
        elif k == 7:
            parts.append(" " * r.randrange(1, 4))
        else:
            parts.append(r.choice(["struct", "if", "0 [+1]", "UInt", "x--y", "a - -b", "# c", "-- d"]))
    return " ".join(parts)


def string_const(r):
    out = []
    for _ in range(r.choice([0, 1, 2, 4, 9])):
        k = r.randrange(8)
        if k == 0:
            out.append(r.choice(['\\n', '\\\\', '\\"']))
        elif k == 1:
            out.append(r.choice([" ", "  ", "#", "--", "[", "]", ":", "é", "→", "\t"]))
        else:
            out.append(r.choice("abcxyzABC_0129./"))
    return '"' + "".join(out) + '"'


def documentation(r):
    k = r.randrange(6)
    if k == 0:
        return "--" + r.choice(["", " ", "   ", " \t"])
    t = "-- " + free_text(r)
    if r.random() < 0.3:
        t += r.choice([" ", "   ", "\t", " \t "])
    return t


def comment(r):
    t = "#" + r.choice(["", " ", "  ", "#", "!"]) + free_text(r)
    if r.random() < 0.3:
        t += r.choice([" ", "   ", "\t", " \t "])
    return t


TERMINAL_GEN = {
    "SnakeWord": snake, "CamelWord": camel, "ShoutyWord": shouty, "Number": number,
    "String": string_const, "Documentation": documentation, "Comment": comment,
    "BooleanConstant": lambda r: r.choice(["true", "false"]),
    "Indent": lambda r: "", "Dedent": lambda r: "", '"\\n"': lambda r: "\n",
}


def terminal_text(r, sym):
    if sym in TERMINAL_GEN:
        return TERMINAL_GEN[sym](r)
    if sym.startswith('"') and sym.endswith('"'):
        return sym[1:-1]
    raise common.InfraError("fmtgen: no text generator for terminal %r (grammar changed?)" % sym)


# ------------------------------------------------------------------ derivation
class Profile:
    """Probabilities steering the random derivation."""

    def __init__(self, r):
        self.star = r.choice([0.35, 0.5, 0.6, 0.7, 0.8])       # continue an X* / X+ list
        self.opt = r.choice([0.15, 0.35, 0.5, 0.8])             # take X? -> X
        self.expr_depth = r.choice([2, 4, 6, 9, 14])            # extra height allowed under expressions
        self.depth = r.choice([10, 14, 18, 24])                 # extra height allowed at the top
        self.max_tokens = r.choice([60, 150, 400, 1200])


def derive(r, profile=None, start=None):
    """Random derivation; returns the list of (terminal symbol, text).

    A production whose right-hand side brackets symbols between Indent and Dedent gets
    that middle part re-derived until it is non-empty: the tokenizer never emits an
    Indent without a line after it, so `Indent Dedent` cannot come from any text."""
    g = grammar()
    profile = profile or Profile(r)
    start = start or module_ir.START_SYMBOL
    counter = [0]
    return _derive_seq(r, g, profile, [(start, profile.depth + g.height[start])], counter)


def _derive_seq(r, g, profile, items, counter):
    out = []
    stack = list(reversed(items))
    while stack:
        sym, budget = stack.pop()
        if sym in g.terminals:
            out.append((sym, terminal_text(r, sym)))
            counter[0] += 1
            continue
        prods = g.by_lhs[sym]
        over = counter[0] + len(stack) > profile.max_tokens
        feasible = [p for p in prods if g.pheight[p] <= budget] or [min(prods, key=lambda p: g.pheight[p])]
        if over:
            m = min(g.pheight[p] for p in prods)
            feasible = [p for p in prods if g.pheight[p] == m]
        if len(feasible) == 1:
            p = feasible[0]
        else:
            empties = [p for p in feasible if not p.rhs]
            nonempties = [p for p in feasible if p.rhs]
            if empties and nonempties:
                prob = profile.star if sym.endswith("*") or sym.endswith("-block") else profile.opt
                if sym in ("Comment?",):
                    prob = max(prob, 0.3)
                p = r.choice(nonempties) if r.random() < prob else r.choice(empties)
            else:
                p = r.choice(feasible)
        nb = budget - 1
        if sym == "expression":
            nb = min(nb, g.height["expression"] + profile.expr_depth)
        rhs = list(p.rhs)
        if "Indent" in rhs and "Dedent" in rhs and rhs.index("Indent") < rhs.index("Dedent"):
            i, j = rhs.index("Indent"), rhs.index("Dedent")
            for s in reversed(rhs[j + 1:]):
                stack.append((s, nb))
            # everything up to Dedent is produced here, in order
            pre = _derive_seq(r, g, profile, [(s, nb) for s in rhs[:i]], counter)
            mid = []
            for attempt in range(20):
                # later attempts: fresh size counter (the size cap forces empty lists)
                c2 = counter if attempt == 0 else [max(0, profile.max_tokens - 40)]
                mid = _derive_seq(r, g, profile, [(s, nb if attempt == 0 else max(nb, 5 + 2 * attempt)) for s in rhs[i + 1:j]], c2)
                if c2 is not counter:
                    counter[0] += len(mid)
                if mid:
                    break
            out.extend(pre)
            out.append(("Indent", ""))
            out.extend(mid)
            out.append(("Dedent", ""))
            counter[0] += 2
            continue
        for s in reversed(rhs):
            stack.append((s, nb))
    return out


def fix_doc_comment(tokens):
    """The tokenizer can never produce Comment right after Documentation (the doc
    swallows it): drop such a Comment so the text means the derivation."""
    out = []
    for t in tokens:
        if t[0] == "Comment" and out and out[-1][0] == "Documentation":
            continue
        out.append(t)
    return out


# ------------------------------------------------------------------ layout
def layout(r, tokens, tight=0.25, style=None):
    """Token sequence -> text.  Random indentation strings, random gaps, comment-only and
    blank lines at random columns."""
    gaps = [" ", " ", " ", "  ", "   ", "\t", "    ", " \t "]
    indent_unit = style or r.choice([" ", "  ", "   ", "    ", "\t", "        ", None])
    lines = []
    stack = [""]
    cur = []
    for sym, text in tokens:
        if sym == "Indent":
            unit = indent_unit if indent_unit is not None else r.choice([" ", "  ", "   ", "\t", "     "])
            stack.append(stack[-1] + unit)
        elif sym == "Dedent":
            if len(stack) > 1:
                stack.pop()
        elif sym == '"\\n"':
            if all(s == "Comment" for s, _ in cur):
                lead = r.choice(["", "", stack[-1], " " * r.randrange(0, 9), "\t"])
                if not cur and r.random() < 0.7:
                    lead = r.choice(["", "", " ", "   "])
                line = lead + "".join(t for _, t in cur)
            else:
                line = stack[-1]
                for i, (s, t) in enumerate(cur):
                    if i:
                        if r.random() < tight:
                            line += ""
                        else:
                            line += r.choice(gaps)
                    line += t
                if r.random() < 0.15:
                    # ("--" followed by a tab is a BadDocumentation token)
                    line += r.choice([" ", "  "] if cur and cur[-1][1] == "--" else [" ", "  ", "\t"])
            lines.append(line)
            cur = []
        else:
            cur.append((sym, text))
    eol = "\n"
    text = eol.join(lines) + (eol if lines else "")
    if lines and lines[-1].strip() and r.random() < 0.1:
        text = text[:-1]          # no newline at end of file
    return text


def intended_stream(tokens):
    return [(s, t) for s, t in tokens]


def real_stream(text):
    toks, errs = tokenizer.tokenize(text, "")
    if errs:
        return None
    return [(t.symbol, t.text) for t in toks]


def same_modulo_indent_text(a, b):
    """Equal token streams, up to the text of Indent tokens and trailing blanks of
    Comment/Documentation (a trailing blank of the line is part of those tokens)."""
    if a is None or b is None or len(a) != len(b):
        return False
    for (s1, t1), (s2, t2) in zip(a, b):
        if s1 != s2:
            return False
        if s1 in ("Comment", "Documentation"):
            if t1.rstrip() != t2.rstrip():
                return False
        elif s1 != "Indent" and t1 != t2:
            return False
    return True


def program(r, stats=None):
    """One random program text.  Tries an odd-spacing layout first; falls back to
    one-blank-between-tokens when juxtaposition changed the token stream."""
    toks = fix_doc_comment(derive(r))
    # trailing Dedents at end of input are produced by the tokenizer itself
    text = layout(r, toks, tight=r.choice([0, 0.1, 0.3, 0.6]))
    got = real_stream(text)
    how = "odd"
    if not same_modulo_indent_text(got, toks):
        text = layout(r, toks, tight=0)
        how = "spaced"
        got = real_stream(text)
        if not same_modulo_indent_text(got, toks):
            how = "differs"
    if stats is not None:
        stats["layout_" + how] = stats.get("layout_" + how, 0) + 1
        stats["tokens"] = stats.get("tokens", 0) + len(toks)
    return text, toks


# ------------------------------------------------------------------ mutators for existing texts
def mutate_text(r, text):
    """Meaning-preserving-or-not text edits; the caller keeps what still parses."""
    lines = text.split("\n")
    n = r.choice([1, 2, 3, 6])
    for _ in range(n):
        if not lines:
            break
        k = r.randrange(10)
        i = r.randrange(len(lines))
        ln = lines[i]
        lead = ln[:len(ln) - len(ln.lstrip())]
        if k == 0:       # comment line at odd column
            lines.insert(i, r.choice(["", lead, "  ", "        "]) + comment(r))
        elif k == 1:     # blank lines
            for _ in range(r.choice([1, 2, 5])):
                lines.insert(i, r.choice(["", "", "   "]))
        elif k == 2:     # trailing comment
            if ln.strip() and "--" not in ln and "#" not in ln:
                lines[i] = ln + r.choice(["", " ", "   "]) + comment(r)
        elif k == 3:     # trailing blanks
            lines[i] = ln + r.choice([" ", "   ", "\t"])
        elif k == 4:     # widen gaps
            body = ln.lstrip()
            if body and not body.startswith(("#", "--")) and '"' not in body:
                lines[i] = lead + body.replace(" ", r.choice(["  ", "   ", "\t"]))
        elif k == 5:     # re-indent whole file by doubling leading blanks
            lines = [(l[:len(l) - len(l.lstrip())] * 2) + l.lstrip() for l in lines]
        elif k == 6:     # doc line
            if ln.strip():
                lines.insert(i, lead + documentation(r))
        elif k == 7:     # duplicate a line
            lines.insert(i, ln)
        elif k == 8:     # delete a line
            del lines[i]
        else:            # tighten operators
            body = ln.lstrip()
            if body and not body.startswith(("#", "--")) and '"' not in body and "--" not in body and "#" not in body:
                for op in [" + ", " - ", " * ", " == ", " && ", " : ", ", "]:
                    if op in body and r.random() < 0.5:
                        body = body.replace(op, op.strip())
                lines[i] = lead + body
    return "\n".join(lines)
