"""embgen — type-directed random .emb module generator (shared helper; owner: builder `view`).

API (keep it simple; everything is derived from one `random.Random`):

    from harness.lib import embgen
    m = embgen.gen_module(r)              # r = common.rng("tag"); -> GenModule
    m.text                                # the .emb source (file name "m.emb")
    m.structs                             # [Struct] every struct/bits type, dependencies first
    m.tops                                # [Struct] the ones worth instantiating from C++ (byte structs)
    m.enums                               # [Enum]
    m.features                            # collections.Counter of constructs used
    embgen.gen_malformed(r)               # -> (text, what) single-rule violation / garbage stream
    embgen.buffers(r, struct, n, cap)     # -> [bytes] random / zero / 0xFF / small-biased base buffers
    embgen.Distribution()                 # .add(m) / .as_dict()  -> goes into chk.extra

The module keeps the *intended meaning* as side data: every Struct has its fields as
Python objects (`Field`) with condition / start / size / value as expression tuples, so a
reference semantics (harness/lib/embref.py) can evaluate the definition without looking
at the compiler's IR.

Expression tuples
    ('n', 5)  ('t',) ('fl',)  ('ev', Enum, 'NAME')  ('f', 'name' | 'a.b')  ('p', 'param')
    ('this',)  ('+',a,b) ('-',a,b) ('*',a,b)  ('==',a,b) ('!=',..) ('<',..) ('<=',..) ('>',..) ('>=',..)
    ('&&',a,b) ('||',a,b)  ('?:',c,a,b)  ('max',a,b,...)  ('has','name')
`$next` is resolved by the generator (Field.start_is_next=True keeps the fact; Field.start holds
the equivalent expression `prev.start + prev.size`, which is what the reference defines).

Generated modules are *mostly* valid: the caller compiles them with the real front end and
skips (counts) the ones that are rejected.
"""
import collections

KINDS_SCALAR = ("uint", "int", "bcd", "flag", "enum")


class Enum:
    def __init__(self, name, values, max_bits=None, signed=False):
        self.name, self.values, self.max_bits, self.signed = name, values, max_bits, signed

    def text(self):
        out = ["enum %s:" % self.name]
        if self.max_bits is not None:
            out.append("  [maximum_bits: %d]" % self.max_bits)
        if self.signed:
            out.append("  [is_signed: true]")
        for n, v in self.values:
            out.append("  %s = %d" % (n, v))
        return "\n".join(out) + "\n"


class Field:
    def __init__(self, name, kind, **kw):
        self.name, self.kind = name, kind
        self.cond = None          # expression or None (always present)
        self.start = self.size = None   # expressions, in units of the enclosing type
        self.start_is_next = False
        self.bits = None          # scalar width in bits
        self.enum = None
        self.struct = None        # Struct (kinds 'struct', 'bits')
        self.args = []            # argument expressions for a parameterised struct
        self.elem = None          # Field-like element descriptor for arrays (name '')
        self.elem_units = None    # element size in units of the enclosing type
        self.count = None         # int for `T[n]`, None for `T[]`
        self.byte_order = None    # explicit override or None
        self.requires = None
        self.value = None         # virtual fields
        self.vtype = None         # 'int' | 'bool' | ('enum', Enum) for virtual fields
        self.anonymous = False    # anonymous `bits:` block
        self.alias_of = None      # name of aliased field (virtual `let x = y`)
        self.__dict__.update(kw)

    @property
    def virtual(self):
        return self.kind == "virtual"


class Struct:
    def __init__(self, name, unit=8):
        self.name, self.unit = name, unit      # unit 8 = struct, 1 = bits
        self.params = []     # [(name, 'uint', bits)]
        self.fields = []
        self.requires = None
        self.inline_in = None   # anonymous bits are rendered inside their parent
        self.fixed_units = None  # total size when statically known (in own units), else None
        self.default_byte_order = None   # `[$default byte_order: ..]` inside the type, or None

    def field(self, name):
        for f in self.fields:
            if f.name == name:
                return f
        return None


class GenModule:
    def __init__(self):
        self.byte_order = "LittleEndian"
        self.enums, self.structs, self.tops = [], [], []
        self.features = collections.Counter()
        self.text = ""


# --------------------------------------------------------------------------- text
def etext(e):
    k = e[0]
    if k == "n":
        return str(e[1])
    if k == "t":
        return "true"
    if k == "fl":
        return "false"
    if k == "ev":
        return "%s.%s" % (e[1].name, e[2])
    if k in ("f", "p"):
        return e[1]
    if k == "this":
        return "this"
    if k == "has":
        return "$present(%s)" % e[1]
    if k == "max":
        return "$max(%s)" % ", ".join(etext(a) for a in e[1:])
    if k == "?:":
        return "(%s ? %s : %s)" % (etext(e[1]), etext(e[2]), etext(e[3]))
    return "(%s %s %s)" % (etext(e[1]), k, etext(e[2]))


def _type_text(f):
    if f.kind == "uint":
        return "UInt"
    if f.kind == "int":
        return "Int"
    if f.kind == "bcd":
        return "Bcd"
    if f.kind == "flag":
        return "Flag"
    if f.kind == "enum":
        return f.enum.name
    if f.kind in ("struct", "bits"):
        t = f.struct.name
        if f.struct.params:
            t += "(%s)" % ", ".join(etext(a) for a in f.args)
        return t
    if f.kind == "array":
        el = f.elem
        base = _type_text(el)
        if el.kind in KINDS_SCALAR:
            base += ":%d" % el.bits
        return "%s[%s]" % (base, "" if f.count is None else str(f.count))
    raise ValueError(f.kind)


def _field_lines(f, ind):
    pad = "  " * ind
    out = []
    if f.virtual:
        out.append("%slet %s = %s" % (pad, f.name, etext(f.value)))
    else:
        loc = "%s [+%s]" % ("$next" if f.start_is_next else etext(f.start), etext(f.size))
        if f.anonymous:
            out.append("%s%s  bits:" % (pad, loc))
            for g in f.struct.fields:
                out.extend(_member_lines(g, ind + 1))
        else:
            out.append("%s%s  %s  %s" % (pad, loc, _type_text(f), f.name))
    if f.byte_order:
        out.append('%s  [byte_order: "%s"]' % (pad, f.byte_order))
    if f.requires is not None:
        out.append("%s  [requires: %s]" % (pad, etext(f.requires)))
    return out


def _member_lines(f, ind):
    if f.cond is not None:
        return ["%sif %s:" % ("  " * ind, etext(f.cond))] + _field_lines(f, ind + 1)
    return _field_lines(f, ind)


def struct_text(s):
    head = "struct" if s.unit == 8 else "bits"
    ps = ""
    if s.params:
        ps = "(%s)" % ", ".join("%s: UInt:%d" % (n, b) for n, _k, b in s.params)
    out = ["%s %s%s:" % (head, s.name, ps)]
    if s.default_byte_order is not None:
        out.append('  [$default byte_order: "%s"]' % s.default_byte_order)
    if s.requires is not None:
        out.append("  [requires: %s]" % etext(s.requires))
    for f in s.fields:
        out.extend(_member_lines(f, 1))
    return "\n".join(out) + "\n"


def module_text(m):
    parts = ['[$default byte_order: "%s"]\n' % m.byte_order]
    parts += [e.text() for e in m.enums]
    parts += [struct_text(s) for s in m.structs if s.inline_in is None]
    return "\n".join(parts)


# ---------------------------------------------------------------------- generator
class _Names:
    def __init__(self):
        self.n = 0

    def fresh(self, stem):
        self.n += 1
        return "%s%d" % (stem, self.n)


def _gen_enum(r, m, names):
    nm = "En%d" % (len(m.enums) + 1)
    signed = r.random() < 0.2
    mb = r.choice([None, None, 8, 16, 32])
    lo = -3 if signed else 0
    vals = sorted(r.sample(range(lo, 8), r.randint(2, 4)))
    e = Enum(nm, [("VAL_%s%d" % ("M" if v < 0 else "", abs(v)), v) for v in vals], mb, signed)
    m.enums.append(e)
    m.features["enum"] += 1
    if signed:
        m.features["enum_signed"] += 1
    return e


def _int_refs(s, upto=None, maxbits=16):
    """(expr, max value) for small unsigned integer fields/params usable in arithmetic."""
    out = []
    for n, _k, b in s.params:
        out.append((("p", n), (1 << b) - 1))
    for f in (s.fields if upto is None else s.fields[:upto]):
        if f.kind == "uint" and f.bits <= maxbits and not f.virtual:
            out.append((("f", f.name), (1 << f.bits) - 1))
        if f.kind == "bits" and f.anonymous:
            for g in f.struct.fields:
                if g.kind == "uint" and g.bits <= maxbits:
                    out.append((("f", g.name), (1 << g.bits) - 1))
    return out


def _bool_expr(r, s, m, depth=0):
    """A boolean expression over the struct's small integer fields, flags and enums."""
    refs = _int_refs(s)
    choices = []
    if refs:
        choices += ["cmp"] * 5
    flags = [g for f in s.fields if f.kind == "bits" and f.anonymous for g in f.struct.fields if g.kind == "flag"]
    flags += [f for f in s.fields if f.kind == "flag"]
    if flags:
        choices += ["flag"] * 2
    enums = [f for f in s.fields if f.kind == "enum" and not f.virtual]
    if enums:
        choices += ["enum"] * 3
    conds = [f for f in s.fields if f.cond is not None and not f.anonymous]
    if conds:
        choices += ["has"]
    if depth < 1 and len(choices) > 0:
        choices += ["and", "or"]
    if not choices:
        return ("t",)
    c = r.choice(choices)
    if c == "cmp":
        ref, mx = r.choice(refs)
        op = r.choice(["==", "==", "==", "!=", "<", "<=", ">", ">="])
        k = r.choice([0, 1, 1, 2, 3, min(mx, 5), min(mx, 200)])
        m.features["cond_" + op] += 1
        if r.random() < 0.15:
            return (op, ("n", k), ref)
        if r.random() < 0.15:
            return (op, ("+", ref, ("n", 1)), ("n", k + 1))
        return (op, ref, ("n", k))
    if c == "flag":
        g = r.choice(flags)
        return ("f", g.name) if r.random() < 0.6 else ("==", ("f", g.name), ("fl",))
    if c == "enum":
        g = r.choice(enums)
        n, _v = r.choice(g.enum.values)
        return (r.choice(["==", "==", "!="]), ("f", g.name), ("ev", g.enum, n))
    if c == "has":
        m.features["present()"] += 1
        return ("has", r.choice(conds).name)
    a, b = _bool_expr(r, s, m, depth + 1), _bool_expr(r, s, m, depth + 1)
    m.features["cond_" + ("&&" if c == "and" else "||")] += 1
    return ("&&" if c == "and" else "||", a, b)


def _small_int_expr(r, s, m, limit, upto=None):
    """Integer expression with value in [0, limit] whatever the field contents (so that
    sizes/offsets stay small), or None."""
    refs = [(e, mx) for e, mx in _int_refs(s, upto, 8)]
    cands = []
    for e, mx in refs:
        if mx <= limit:
            cands.append(e)
        if mx * 2 <= limit:
            cands.append(("*", e, ("n", 2)))
        if mx + 2 <= limit:
            cands.append(("+", e, ("n", r.randint(1, 2))))
    if not cands:
        return None
    return r.choice(cands)


def _gen_bits(r, m, names, total_bits, anonymous, parent=None):
    s = Struct("Bt%d" % (len(m.structs) + 1), unit=1)
    s.fixed_units = total_bits
    pos = 0
    while pos < total_bits:
        left = total_bits - pos
        w = min(left, r.choice([1, 1, 2, 3, 4, 4, 5, 7, 8, 9, 12]))
        kind = r.choice(["uint", "uint", "uint", "int", "flag", "enum", "bcd"])
        if kind == "flag":
            w = 1
        if kind == "enum" and not m.enums:
            kind = "uint"
        if kind == "bcd" and w < 4:
            kind = "uint"
        f = Field(names.fresh("b"), kind, start=("n", pos), size=("n", w), bits=w)
        if kind == "enum":
            f.enum = r.choice(m.enums)
            if f.enum.max_bits is not None and w > f.enum.max_bits:
                f.kind = "uint"
                f.enum = None
            elif f.enum.signed:
                f.kind, f.enum = "uint", None     # F14 (C02/C19): signed enum in a narrower field
        if r.random() < 0.15:
            pos += r.randint(0, 2)  # gap
            f.start = ("n", min(pos, total_bits - w))
            pos = f.start[1]
        s.fields.append(f)
        m.features["bits_field_" + f.kind] += 1
        pos += w
    # conditional member depending on an earlier flag / small uint (not in anonymous: keeps aliases simple)
    if r.random() < 0.3 and len(s.fields) >= 2:
        g = s.fields[-1]
        c = _bool_expr(r, _prefix_struct(s, len(s.fields) - 1), m)
        if c != ("t",):
            g.cond = c
            m.features["bits_conditional"] += 1
    if not anonymous and r.random() < 0.25:
        ints = [f for f in s.fields if f.kind == "uint" and f.cond is None]
        if ints:
            s.fields.append(Field(names.fresh("bv"), "virtual", value=("+", ("f", ints[0].name), ("n", 1)),
                                  vtype="int"))
            m.features["bits_virtual"] += 1
    m.structs.append(s)
    m.features["bits_anonymous" if anonymous else "bits_named"] += 1
    return s


def _prefix_struct(s, n):
    p = Struct(s.name, s.unit)
    p.params = s.params
    p.fields = s.fields[:n]
    return p


def _gen_inner(r, m, names):
    """A small byte struct usable as a nested field / array element."""
    s = Struct("In%d" % (len(m.structs) + 1))
    if r.random() < 0.4:
        s.params.append((names.fresh("q"), "uint", 8))
        m.features["parameter"] += 1
    n = r.randint(1, 3)
    pos = 0
    for _ in range(n):
        w = r.choice([1, 1, 2, 4])
        kind = r.choice(["uint", "uint", "int", "bcd"])
        f = Field(names.fresh("i"), kind, start=("n", pos), size=("n", w), bits=8 * w)
        if s.fields and r.random() < 0.3:
            c = _bool_expr(r, s, m)
            if c != ("t",):
                f.cond = c
        s.fields.append(f)
        pos += w
    s.fixed_units = pos if all(f.cond is None for f in s.fields) else None
    s.max_units = pos
    if s.params and r.random() < 0.7:
        p = s.params[0][0]
        s.fields.append(Field(names.fresh("iv"), "virtual", value=("+", ("f", s.fields[0].name), ("p", p)),
                              vtype="int"))
    if r.random() < 0.2:
        ints = [f for f in s.fields if f.kind == "uint" and f.bits == 8 and f.cond is None]
        if ints:
            ints[0].requires = ("<", ("this",), ("n", r.choice([10, 100, 200])))
            m.features["requires_field"] += 1
    _maybe_struct_default(r, m, s)
    m.structs.append(s)
    m.features["inner_struct"] += 1
    return s


def _maybe_struct_default(r, m, s, p=0.35):
    """`[$default byte_order: ..]` inside a struct: overrides the module default for the fields of
    this type only (language-reference: `$default` applies to the scope it is written in); the
    types that follow fall back to the module default."""
    if r.random() < p:
        s.default_byte_order = r.choice(["LittleEndian", "BigEndian"])
        m.features["struct_default_byte_order"] += 1
        if s.default_byte_order != m.byte_order:
            m.features["struct_default_differs_from_module"] += 1


def effective_byte_order(m_default, s, f):
    """Documented effective byte order of field `f` of struct `s`: its own attribute, else the
    `$default` of the enclosing type, else the module's `$default`."""
    return f.byte_order or s.default_byte_order or m_default


# ---------------------------------------------------------------- full-width arithmetic
I64 = (-(1 << 63), (1 << 63) - 1)
U64 = (0, (1 << 64) - 1)


def _fits64(lo, hi):
    return (lo >= I64[0] and hi <= I64[1]) or (lo >= U64[0] and hi <= U64[1])


def expr_range(e, ranges):
    """Interval of an integer expression tuple over `ranges` ({field name: (lo, hi)}), or None if
    some node would be refused by the front end's 64-bit rule (every operation's result and
    operands must fit in one 64-bit C++ type — doc/language-reference.md "integer expressions")."""
    k = e[0]
    if k == "n":
        return (e[1], e[1]) if _fits64(e[1], e[1]) else None
    if k == "f":
        return ranges.get(e[1])
    if k in ("+", "-", "*", "max", "?:"):
        args = e[2:] if k == "?:" else e[1:]
        rs = [expr_range(a, ranges) for a in args]
        if any(x is None for x in rs):
            return None
        if k == "?:":
            if not _bool_ok(e[1], ranges):
                return None
            res = (min(rs[0][0], rs[1][0]), max(rs[0][1], rs[1][1]))
        elif k == "max":
            res = (max(x[0] for x in rs), max(x[1] for x in rs))
        else:
            (a, b), (c, d) = rs
            if k == "+":
                res = (a + c, b + d)
            elif k == "-":
                res = (a - d, b - c)
            else:
                ps = [a * c, a * d, b * c, b * d]
                res = (min(ps), max(ps))
        lo = min([res[0]] + [x[0] for x in rs])
        hi = max([res[1]] + [x[1] for x in rs])
        return res if _fits64(lo, hi) else None
    return None


def _bool_ok(e, ranges):
    if e[0] in ("==", "!=", "<", "<=", ">", ">="):
        rs = [expr_range(a, ranges) for a in e[1:]]
        if any(x is None for x in rs):
            return False
        return _fits64(min(x[0] for x in rs), max(x[1] for x in rs))
    return False


EDGE_CONSTANTS = [0, 1, -1, 2, 10, 127, 128, 255, 256, 32767, 32768, 65535, (1 << 31) - 1, 1 << 31, (1 << 32) - 1,
                  1 << 32, -(1 << 31), -(1 << 31) - 1, (1 << 63) - 1, -(1 << 63)]


def _gen_arith(r, m, names):
    """A struct of full-width integers (Int/UInt of 8..64 bits at fixed positions) and virtual
    fields doing negation / subtraction / `$max` / products / sums on them, each kept inside the
    64-bit rule by interval arithmetic — the arithmetic whose C++ carrier types (int32/uint32/
    int64/uint64 per node) matter at the extreme field values."""
    s = Struct("Ar%d" % (len(m.structs) + 1))
    pos = 0
    ranges = {}
    for _ in range(r.randint(2, 4)):
        w = r.choice([1, 2, 4, 4, 4, 8, 8, r.choice([3, 5, 6, 7])])
        kind = r.choice(["int", "int", "uint"])
        f = Field(names.fresh("w"), kind, start=("n", pos), size=("n", w), bits=8 * w)
        if w > 1 and r.random() < 0.2:
            f.byte_order = r.choice(["BigEndian", "LittleEndian"])
        s.fields.append(f)
        ranges[f.name] = (0, (1 << f.bits) - 1) if kind == "uint" else (-(1 << (f.bits - 1)), (1 << (f.bits - 1)) - 1)
        m.features["arith_field_%s_%d" % (kind, f.bits)] += 1
        pos += w
    s.fixed_units = s.max_units = pos
    phys = list(ranges)
    made = 0
    for _ in range(24):
        if made >= 5:
            break
        x = ("f", r.choice(phys))
        y = ("f", r.choice(phys))
        kc = ("n", r.choice(EDGE_CONSTANTS))
        shape = r.choice(["neg", "neg", "sub", "sub_k", "k_sub", "mul_m1", "mul_k", "max_neg", "max3", "abs", "add",
                          "neg_neg", "sum_k"])
        e = {"neg": ("-", ("n", 0), x), "sub": ("-", x, y), "sub_k": ("-", x, kc), "k_sub": ("-", kc, x),
             "mul_m1": ("*", x, ("n", -1)), "mul_k": ("*", x, ("n", r.choice([2, 3, -2, 255, 65536]))),
             "max_neg": ("max", x, ("-", ("n", 0), x)), "max3": ("max", x, y, kc),
             "abs": ("?:", ("<", x, ("n", 0)), ("-", ("n", 0), x), x), "add": ("+", x, y),
             "neg_neg": ("-", ("n", 0), ("-", ("n", 0), x)), "sum_k": ("+", x, kc)}[shape]
        rg = expr_range(e, ranges)
        if rg is None:
            m.features["arith_candidate_outside_64_bit_rule"] += 1
            continue
        if rg[0] == rg[1]:
            continue
        v = Field(names.fresh("av"), "virtual", value=e, vtype="int")
        s.fields.append(v)
        m.features["arith_virtual_" + shape] += 1
        if rg[1] >= (1 << 31) or rg[0] < -(1 << 31):
            m.features["arith_virtual_needs_64_bit"] += 1
        made += 1
    _maybe_struct_default(r, m, s)
    m.structs.append(s)
    m.tops.append(s)
    m.features["arith_struct"] += 1
    return s


def _scalar(r, m, names, unit_bytes_ok=True):
    w = r.choice([1, 1, 1, 2, 2, 3, 4, 4, 5, 6, 7, 8])
    kind = r.choice(["uint", "uint", "uint", "int", "int", "bcd", "enum"])
    f = Field(names.fresh("x"), kind, bits=8 * w, size=("n", w))
    if kind == "enum":
        if not m.enums:
            f.kind = "uint"
        else:
            f.enum = r.choice(m.enums)
            if f.enum.max_bits is not None and f.bits > f.enum.max_bits:
                f.kind, f.enum = "uint", None
            elif f.enum.signed and f.bits != (f.enum.max_bits or 64):
                f.bits, f.size = (f.enum.max_bits or 64), ("n", (f.enum.max_bits or 64) // 8)
    m.features["scalar_%s_%d" % (f.kind, f.bits)] += 1
    return f


def _gen_top(r, m, names, inners, bits_types):
    s = Struct("St%d" % (len(m.structs) + 1))
    if r.random() < 0.25:
        s.params.append((names.fresh("p"), "uint", 8))
        m.features["parameter"] += 1
    # controlling fields first
    n_ctrl = r.randint(1, 2)
    pos = 0
    for _ in range(n_ctrl):
        f = Field(names.fresh("t"), "uint", start=("n", pos), size=("n", 1), bits=8)
        s.fields.append(f)
        pos += 1
    prev = s.fields[-1]
    static_pos = pos  # None once a dynamic end has been seen
    n = r.randint(2, 7)
    for _ in range(n):
        what = r.choice(["scalar"] * 5 + ["array"] * 3 + ["struct"] * 2 + ["bits"] * 2 + ["abits"] * 2 +
                        ["virtual"] * 3 + ["alias"])
        f = None
        if what == "scalar":
            f = _scalar(r, m, names)
        elif what == "array":
            f = Field(names.fresh("a"), "array")
            ek = r.choice(["uint", "uint", "int", "struct", "bcd"])
            if ek == "struct" and inners:
                st = r.choice([i for i in inners if i.fixed_units] or [None])
                if st is None:
                    ek = "uint"
                else:
                    f.elem = Field("", "struct", struct=st,
                                   args=[("n", r.randint(0, 3)) for _ in st.params])
                    f.elem_units = st.fixed_units
                    m.features["array_of_struct"] += 1
            if f.elem is None:
                ew = r.choice([1, 1, 2, 4])
                if ek == "struct":
                    ek = "uint"
                f.elem = Field("", ek, bits=8 * ew)
                f.elem_units = ew
            if r.random() < 0.5:
                f.count = r.randint(1, 3)
                f.size = ("n", f.count * f.elem_units)
                m.features["array_fixed"] += 1
            else:
                cnt = _small_int_expr(r, s, m, 255 * 2 + 2)
                if cnt is None:
                    f.count = 2
                    f.size = ("n", 2 * f.elem_units)
                else:
                    f.count = None
                    style = r.random()
                    if style < 0.6 or f.elem_units == 1:
                        f.size = cnt if f.elem_units == 1 else ("*", cnt, ("n", f.elem_units))
                    else:
                        f.size = cnt     # size in bytes not necessarily a multiple of the element
                        m.features["array_size_maybe_not_multiple"] += 1
                    m.features["array_auto_dynamic"] += 1
        elif what == "struct" and inners:
            st = r.choice(inners)
            f = Field(names.fresh("s"), "struct", struct=st)
            for _p in st.params:
                a = _small_int_expr(r, s, m, 255) if r.random() < 0.7 else None
                f.args.append(a if a is not None else ("n", r.randint(0, 5)))
            if st.fixed_units:
                f.size = ("n", st.fixed_units)
            else:
                dyn = _small_int_expr(r, s, m, 255)
                f.size = dyn if dyn is not None and r.random() < 0.5 else ("n", st.max_units)
                if dyn is not None:
                    m.features["struct_field_dynamic_size"] += 1
            m.features["nested_struct"] += 1
        elif what == "bits" and bits_types:
            bt = r.choice(bits_types)
            f = Field(names.fresh("g"), "bits", struct=bt, size=("n", bt.fixed_units // 8),
                      bits=bt.fixed_units)
        elif what == "abits":
            tb = r.choice([8, 8, 16, 24, 32])
            bt = _gen_bits(r, m, names, tb, True)
            f = Field(names.fresh("anon"), "bits", struct=bt, size=("n", tb // 8), bits=tb, anonymous=True)
            bt.inline_in = s
            # members of an anonymous block must not carry conditions/virtuals that refer to siblings
            # through names that would be ambiguous: the generator uses globally fresh names, fine.
        elif what == "virtual":
            refs = _int_refs(s, maxbits=32)
            style = r.choice(["arith", "arith", "bool", "choice", "max", "const", "deep"])
            v = Field(names.fresh("v"), "virtual")
            if style == "const" or not refs:
                v.value, v.vtype = ("n", r.randint(0, 1000)), "int"
                m.features["virtual_const"] += 1
            elif style == "arith":
                a, _ = r.choice(refs)
                op = r.choice(["+", "-", "*", "+"])
                k = r.choice([1, 2, 3, 10, 100])
                v.value, v.vtype = (op, a, ("n", k)), "int"
                if len(refs) > 1 and r.random() < 0.4:
                    b, _ = r.choice(refs)
                    v.value = (r.choice(["+", "-"]), a, b)
                m.features["virtual_arith"] += 1
            elif style == "bool":
                v.value, v.vtype = _bool_expr(r, s, m), "bool"
                m.features["virtual_bool"] += 1
            elif style == "choice":
                a, _ = r.choice(refs)
                b, _ = r.choice(refs)
                # the condition must not be a compile-time constant: `true ? a : b` with differently
                # typed branches fails a static_assert in Choice (known finding of C07)
                v.value, v.vtype = ("?:", ("==", r.choice(refs)[0], ("n", r.randint(0, 3))), a,
                                    ("+", b, ("n", 1))), "int"
                m.features["virtual_choice"] += 1
            elif style == "max":
                a, _ = r.choice(refs)
                b, _ = r.choice(refs)
                v.value, v.vtype = ("max", a, ("n", r.randint(0, 9)), b), "int"
                m.features["virtual_max"] += 1
            else:
                nest = [g for g in s.fields if g.kind == "struct"]
                if nest:
                    g = r.choice(nest)
                    inner_ints = [h for h in g.struct.fields if h.kind == "uint"]
                    if inner_ints:
                        h = r.choice(inner_ints)
                        v.value, v.vtype = ("+", ("f", "%s.%s" % (g.name, h.name)), ("n", 1)), "int"
                        m.features["virtual_deep_ref"] += 1
                if v.value is None:
                    v.value, v.vtype = ("n", 7), "int"
            # not on constants: a compile-time constant virtual field ignores [requires] (its generated
            # Ok() is `return true`) — open finding C01 `requires-ignored-on-constant-virtual-field`
            if v.vtype == "int" and v.value[0] != "n" and r.random() < 0.2:
                v.requires = (r.choice(["<", ">=", "!="]), ("this",), ("n", r.choice([0, 3, 50, 300])))
                m.features["requires_virtual"] += 1
            if r.random() < 0.2:
                c = _bool_expr(r, s, m)
                if c != ("t",):
                    v.cond = c
                    m.features["virtual_conditional"] += 1
            s.fields.append(v)
            continue
        elif what == "alias":
            tg = [g for g in s.fields if g.kind in ("uint", "int", "enum") and not g.virtual]
            if tg:
                g = r.choice(tg)
                v = Field(names.fresh("al"), "virtual", value=("f", g.name), alias_of=g.name,
                          vtype="int" if g.kind != "enum" else ("enum", g.enum))
                s.fields.append(v)
                m.features["alias"] += 1
            continue
        if f is None:
            f = _scalar(r, m, names)
        # ---- location
        loc = r.random()
        if loc < 0.35 and prev is not None:
            f.start_is_next = True
            f.start = ("+", prev.start, prev.size)
            m.features["$next"] += 1
        elif loc < 0.55:
            d = _small_int_expr(r, s, m, 600)
            if d is not None:
                f.start = d
                m.features["dynamic_offset"] += 1
        elif loc < 0.65 and static_pos is not None:
            f.start = ("n", r.randint(0, static_pos))   # overlap (union style)
            m.features["overlap"] += 1
        if f.start is None:
            if static_pos is None:
                f.start_is_next = True
                f.start = ("+", prev.start, prev.size)
                m.features["$next"] += 1
            else:
                f.start = ("n", static_pos + (r.randint(1, 2) if r.random() < 0.1 else 0))
        # ---- condition
        if r.random() < 0.4:
            c = _bool_expr(r, s, m)
            if c != ("t",):
                f.cond = c
                m.features["conditional"] += 1
        # ---- byte order / requires
        multi = (f.kind in ("uint", "int", "bcd", "enum") and f.bits > 8) or \
            (f.kind == "bits" and not f.anonymous and f.bits > 8) or \
            (f.kind == "array" and f.elem.kind in KINDS_SCALAR and f.elem.bits > 8)
        if multi and r.random() < 0.25:
            f.byte_order = r.choice(["BigEndian", "LittleEndian"])
            m.features["byte_order_override"] += 1
        if f.kind in ("uint", "int") and f.bits <= 32 and r.random() < 0.15:
            f.requires = (r.choice(["<", "<=", ">", "!="]), ("this",), ("n", r.choice([0, 1, 5, 100, 250])))
            m.features["requires_field"] += 1
        s.fields.append(f)
        prev = f
        if f.start[0] == "n" and f.size[0] == "n" and static_pos is not None:
            static_pos = max(static_pos, f.start[1] + f.size[1])
        else:
            static_pos = None
    if r.random() < 0.15:
        c = _bool_expr(r, s, m)
        if c != ("t",):
            s.requires = c
            m.features["requires_struct"] += 1
    _maybe_struct_default(r, m, s)
    m.structs.append(s)
    m.tops.append(s)
    return s


def _explicit_byte_orders(m, r):
    """Make a module valid without `$default byte_order`: every byte-order dependent field gets an
    explicit attribute; one-byte fields are left to the compiler ("Null" byte order)."""
    for s in m.structs:
        if s.unit != 8 or s.default_byte_order is not None:
            continue    # a struct-level `$default byte_order` is enough for its own fields
        for f in s.fields:
            if f.virtual or f.byte_order:
                continue
            multi = (f.kind in ("uint", "int", "bcd", "enum") and f.bits > 8) or \
                (f.kind == "bits" and f.bits > 8) or \
                (f.kind == "array" and f.elem.kind in KINDS_SCALAR and f.elem.bits > 8)
            if multi and not f.anonymous:
                f.byte_order = r.choice(["LittleEndian", "BigEndian"])
            elif multi:
                # an anonymous `bits:` block cannot carry the attribute in this generator: the
                # enclosing struct declares a `$default byte_order` of its own instead
                s.default_byte_order = r.choice(["LittleEndian", "BigEndian"])


def _add_logic_probes(m):
    """Three-valued logic probes: virtual boolean fields `late ∘ early` and `early ∘ late` for
    ∘ ∈ {&&, ||} over two always-present small unsigned fields at *different* positions of a top
    struct.  On a truncated buffer that holds `early` but not `late` one operand is unknown and the
    other known, in both operand orders and with both deciding and non-deciding values — where the
    documented rule ("even if the other argument cannot be computed", both ways round) shows.
    Only virtual fields are appended (sizes, offsets and every other field are unchanged), and the
    choices come from a generator seeded with the module's own text: no draw is taken from the
    caller's stream, so the modules are otherwise identical with and without probes."""
    import hashlib
    import random
    for s in m.tops:
        if s.name.startswith("Ar"):
            continue
        cands = [f for f in s.fields if f.kind == "uint" and f.bits <= 16 and not f.virtual and f.cond is None
                 and f.start[0] == "n"]
        cands.sort(key=lambda f: f.start[1])
        if len(cands) < 2 or cands[0].start[1] == cands[-1].start[1]:
            continue
        r2 = random.Random(hashlib.sha256((struct_text(s) + s.name).encode()).digest())
        early, late = ("f", cands[0].name), ("f", cands[-1].name)

        def cmp(ref):
            return (r2.choice(["==", "!=", ">", "<="]), ref, ("n", r2.choice([0, 1, 1, 2])))
        k = 0
        for op in ("&&", "||"):
            for a, b in ((late, early), (early, late)):
                k += 1
                s.fields.append(Field("lg%d_%s" % (k, s.name.lower()), "virtual", value=(op, cmp(a), cmp(b)),
                                      vtype="bool"))
                m.features["logic_probe_" + op] += 1
    m.text = module_text(m)


def gen_module(r, default_byte_order=True, logic_probes=False):
    m = _gen_module(r, default_byte_order)
    if logic_probes:
        _add_logic_probes(m)
        if not default_byte_order:
            m.text = module_text(m).replace('[$default byte_order: "%s"]\n' % m.byte_order, "", 1)
    return m


def _gen_module(r, default_byte_order=True):
    m = GenModule()
    names = _Names()
    m.byte_order = r.choice(["LittleEndian", "BigEndian"])
    m.features["default_" + m.byte_order] += 1
    for _ in range(r.choice([0, 1, 1, 2])):
        _gen_enum(r, m, names)
    bits_types = [_gen_bits(r, m, names, r.choice([8, 16, 16, 32, 64]), False)
                  for _ in range(r.choice([0, 1, 1]))]
    inners = [_gen_inner(r, m, names) for _ in range(r.choice([0, 1, 1, 2]))]
    for _ in range(r.choice([1, 1, 2])):
        _gen_top(r, m, names, inners, bits_types)
    if r.random() < 0.7:
        _gen_arith(r, m, names)
    # inner structs are worth instantiating directly too
    m.tops = [s for s in m.structs if s.unit == 8]
    m.text = module_text(m)
    if not default_byte_order:
        _explicit_byte_orders(m, r)
        m.features["no_default_byte_order"] += 1
        m.text = module_text(m).replace('[$default byte_order: "%s"]\n' % m.byte_order, "", 1)
    return m


# ------------------------------------------------------------------ malformed stream
def gen_malformed(r):
    """One rule violation applied to a valid module, or garbage.  Returns (text, what)."""
    m = gen_module(r)
    lines = m.text.split("\n")
    what = r.choice(["dup_field", "undefined_ref", "bad_size", "cycle", "token_soup", "truncate",
                     "type_mismatch", "neg_size"])
    if what == "dup_field":
        idx = [i for i, l in enumerate(lines) if "[+" in l]
        if idx:
            i = r.choice(idx)
            lines.insert(i + 1, lines[i])
    elif what == "undefined_ref":
        lines.append("struct Zz:\n  0 [+1]  UInt  a\n  nope [+1]  UInt  b\n")
    elif what == "bad_size":
        lines.append("struct Zz:\n  0 [+9]  UInt  a\n")
    elif what == "cycle":
        lines.append("struct Zz:\n  b [+1]  UInt  a\n  a [+1]  UInt  b\n")
    elif what == "token_soup":
        toks = " ".join(lines).split()
        r.shuffle(toks)
        lines = [" ".join(toks[:40])]
    elif what == "truncate":
        t = "\n".join(lines)
        lines = [t[:r.randint(0, max(1, len(t) - 1))]]
    elif what == "type_mismatch":
        lines.append("struct Zz:\n  0 [+1]  UInt  a\n  if a + true:\n    1 [+1]  UInt  b\n")
    elif what == "neg_size":
        lines.append("struct Zz:\n  0 [+(0-1)]  UInt  a\n")
    return "\n".join(lines), what


# -------------------------------------------------------------------------- buffers
def buffers(r, n, length):
    """Base buffers of the given length: all-zero, all-0xFF, uniform random, and random biased
    to small values (so that `tag == k` conditions and length fields are often meaningful)."""
    out = [bytes(length), bytes([0xFF] * length)]
    while len(out) < n:
        style = r.random()
        if style < 0.25:
            b = bytes(r.randrange(256) for _ in range(length))
        elif style < 0.8:
            b = bytes(r.choice([0, 1, 1, 2, 2, 3, 4, 5, r.randrange(10), r.randrange(256)])
                      for _ in range(length))
        else:
            b = bytes(r.choice([0, 1, 2, 3, 0x10, 0x22, 0x99, 0x7f, 0x80, 0xff]) for _ in range(length))
        out.append(b)
    return out[:n]


class Distribution:
    def __init__(self):
        self.features = collections.Counter()
        self.modules = self.rejected = 0
        self.reject_reasons = collections.Counter()

    def add(self, m):
        self.modules += 1
        self.features.update(m.features)

    def reject(self, why):
        self.rejected += 1
        self.reject_reasons[why[:80]] += 1

    def as_dict(self):
        return {"modules": self.modules, "rejected_by_compiler": self.rejected,
                "reject_reasons": dict(self.reject_reasons.most_common(8)),
                "features": dict(sorted(self.features.items()))}


# ------------------------------------------------- arrays of small padded structures (C20 round 4)
PADDED_ELEM_COMBOS = [(1, "abits"), (1, "nbits"), (2, "bytes"), (3, "wrap"), (2, "abits"), (3, "bytes"),
                      (2, "nbits"), (2, "wrap"), (3, "abits"), (3, "nbits")]


def _gen_gappy_bits(r, m, names, total_bits, full=False):
    """A bits type over `total_bits` bits with at least one covered and one uncovered run of bits
    and (often) a member that is only present under an earlier flag / small uint of the block."""
    s = Struct("Bt%d" % (len(m.structs) + 1), unit=1)
    s.fixed_units = total_bits
    while True:
        runs, pos = [], 0
        while pos < total_bits:
            w = min(total_bits - pos, r.choice([1, 1, 2, 3, 4, 4, 5, 7]))
            runs.append((pos, w, r.random() < 0.6))
            pos += w
        if full:     # a named bits type is as large as its last member's end
            runs[-1] = (runs[-1][0], runs[-1][1], True)
        if any(c for _p, _w, c in runs) and not all(c for _p, _w, c in runs):
            break
    for pos, w, cov in runs:
        if not cov:
            m.features["padded_gap_bits"] += w
            continue
        kind = "flag" if w == 1 and r.random() < 0.7 else r.choice(["uint", "uint", "int"])
        s.fields.append(Field(names.fresh("b"), kind, start=("n", pos), size=("n", w), bits=w))
    if len(s.fields) >= (3 if full else 2) and r.random() < 0.6:
        gi = len(s.fields) - (2 if full else 1)
        g = s.fields[gi]
        ctl = r.choice(s.fields[:gi])
        g.cond = ("f", ctl.name) if ctl.kind == "flag" else \
            ("==", ("f", ctl.name), ("n", r.randint(0, min(3, (1 << (ctl.bits - (ctl.kind == "int"))) - 1))))
        m.features["padded_bits_conditional"] += 1
    elif r.random() < 0.5:
        # `present` flag + value over the remaining bits (the classic optional-value byte)
        s.fields = [Field(names.fresh("b"), "flag", start=("n", 0), size=("n", 1), bits=1)]
        vb = total_bits - (2 if full else 1)
        v = Field(names.fresh("b"), "uint", start=("n", 1), size=("n", vb), bits=vb)
        v.cond = ("f", s.fields[0].name)
        s.fields.append(v)
        if full:
            s.fields.append(Field(names.fresh("b"), "flag", start=("n", total_bits - 1), size=("n", 1), bits=1))
        m.features["padded_bits_optional_value"] += 1
    m.structs.append(s)
    return s


def _gen_padded_elem(r, m, names, w, style):
    """A fixed-size byte structure of `w` bytes some of whose bits/bytes no (present) field covers."""
    if w == 1 and style in ("bytes", "wrap"):
        style = "abits"
    if style == "wrap":
        # fixed-size wrapper around a dynamically sized structure with a conditional tail
        d = Struct("Dy%d" % (len(m.structs) + 1))
        tag = Field(names.fresh("i"), "uint", start=("n", 0), size=("n", 1), bits=8)
        v = Field(names.fresh("i"), r.choice(["uint", "int"]), start=("n", 1), size=("n", w - 1), bits=8 * (w - 1))
        v.cond = ("==", ("f", tag.name), ("n", r.randint(0, 2)))
        d.fields = [tag, v]
        d.fixed_units, d.max_units = None, w
        m.structs.append(d)
    s = Struct("Pe%d" % (len(m.structs) + 1 + (1 if style == "abits" else 0)))
    if style in ("abits", "nbits"):
        bt = _gen_gappy_bits(r, m, names, 8 * w, full=style == "nbits")
        if style == "abits":
            bt.inline_in = s
        s.fields.append(Field(names.fresh("anon" if style == "abits" else "g"), "bits", struct=bt,
                              start=("n", 0), size=("n", w), bits=8 * w, anonymous=style == "abits"))
    elif style == "bytes":
        gap = r.randrange(w - 1)          # the last byte is covered so that the size is w
        for i in range(w):
            if i != gap:
                s.fields.append(Field(names.fresh("i"), r.choice(["uint", "uint", "int"]), start=("n", i),
                                      size=("n", 1), bits=8))
        m.features["padded_gap_bytes"] += 1
    else:
        s.fields.append(Field(names.fresh("s"), "struct", struct=d, start=("n", 0), size=("n", w)))
    s.fixed_units = s.max_units = w
    s.name = "Pe%d" % (len(m.structs) + 1)
    m.structs.append(s)
    m.features["padded_elem_%d_%s" % (w, style)] += 1
    return s


def _array_of(names, st, start, count=None, size=None, prev=None):
    f = Field(names.fresh("a"), "array")
    f.elem = Field("", "struct", struct=st, args=[])
    f.elem_units = st.fixed_units
    f.count = count
    f.size = ("n", count * st.fixed_units) if count is not None else size
    if start is None:
        f.start_is_next, f.start = True, ("+", prev.start, prev.size)
    else:
        f.start = start
    return f


def gen_padded_array_module(r, combos=None):
    """Arrays (fixed and dynamic count; in the top-level structure, in a nested structure and in the
    elements of an array of structures) of 1/2/3-byte structures that have padding bits/bytes and
    conditionally present members.  `combos` = [(bytes, style)] for the element structures; styles:
    abits (anonymous bits block), nbits (field of a named bits type), bytes (byte fields with a gap
    byte), wrap (fixed-size field holding a dynamically sized structure with a conditional tail).
    No parameters (Equals on parameterised structures does not compile: pinned finding)."""
    m = GenModule()
    names = _Names()
    m.byte_order = r.choice(["LittleEndian", "BigEndian"])
    m.features["default_" + m.byte_order] += 1
    combos = combos or [r.choice(PADDED_ELEM_COMBOS) for _ in range(2)]
    elems = [_gen_padded_elem(r, m, names, w, st) for w, st in combos]
    # Mid: fixed size, holds an array of elements, a gap byte and a tail -> usable as array element
    e0 = r.choice(elems)
    mid = Struct("Mid%d" % (len(m.structs) + 1))
    c = r.randint(1, 2)
    a = _array_of(names, e0, ("n", 0), count=c)
    gap = r.choice([0, 1])
    tail = Field(names.fresh("i"), "uint", start=("n", c * e0.fixed_units + gap), size=("n", 1), bits=8)
    mid.fields = [a, tail]
    mid.fixed_units = mid.max_units = c * e0.fixed_units + gap + 1
    m.structs.append(mid)
    m.features["padded_mid_struct"] += 1
    # Dyn: count byte + automatically sized array of elements -> nested field of the top structure
    e1 = r.choice(elems)
    dyn = Struct("Dn%d" % (len(m.structs) + 1))
    k = Field(names.fresh("t"), "uint", start=("n", 0), size=("n", 1), bits=8)
    sz = ("f", k.name) if e1.fixed_units == 1 else ("*", ("f", k.name), ("n", e1.fixed_units))
    dyn.fields = [k, _array_of(names, e1, ("n", 1), size=sz)]
    dyn.fixed_units, dyn.max_units = None, 1 + 2 * e1.fixed_units
    m.structs.append(dyn)
    # Top
    top = Struct("Top%d" % (len(m.structs) + 1))
    n = Field(names.fresh("t"), "uint", start=("n", 0), size=("n", 1), bits=8)
    top.fields.append(n)
    prev = n
    for e in elems:
        f = _array_of(names, e, None, count=r.randint(1, 3), prev=prev)
        top.fields.append(f)
        m.features["padded_array_fixed"] += 1
        prev = f
    if r.random() < 0.7:
        f = _array_of(names, mid, None, count=r.randint(1, 2), prev=prev)
        top.fields.append(f)
        m.features["padded_array_of_struct_with_array"] += 1
        prev = f
    else:
        f = Field(names.fresh("s"), "struct", struct=mid, size=("n", mid.fixed_units))
        f.start_is_next, f.start = True, ("+", prev.start, prev.size)
        top.fields.append(f)
        m.features["padded_nested_struct_with_array"] += 1
        prev = f
    f = Field(names.fresh("s"), "struct", struct=dyn, size=("n", dyn.max_units))
    f.start_is_next, f.start = True, ("+", prev.start, prev.size)
    top.fields.append(f)
    m.features["padded_nested_dynamic_array"] += 1
    prev = f
    e = r.choice(elems)
    sz = ("f", n.name) if e.fixed_units == 1 else ("*", ("f", n.name), ("n", e.fixed_units))
    f = _array_of(names, e, None, size=sz, prev=prev)
    top.fields.append(f)
    m.features["padded_array_dynamic"] += 1
    m.structs.append(top)
    m.tops = [s for s in m.structs if s.unit == 8]
    m.features["padded_array_module"] += 1
    m.text = module_text(m)
    return m
