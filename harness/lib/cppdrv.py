"""cppdrv — C++ observation driver for a module compiled by the *real* Emboss front end and the
*real* C++ header generator (shared helper; owner: builder `view`).

    from harness.lib import cppdrv
    p = cppdrv.prepare(text)                      # real front end + header generator, in-process
    p.ok, p.errors, p.ir (IR as dict), p.header, p.structs ({"Foo": StructInfo, "Foo.Bar": ...})
    bins = cppdrv.build([p1, p2, ...], std="c++14", compiler="g++", defines=())   # parallel, ASan+UBSan
    rr, lines = cppdrv.ask(bins[0], ["OBS Foo 00ff", ...])    # RunResult (kind ok/sanitizer/check-failed/..)
    tree = cppdrv.parse_obs(lines[0])             # nested dict, see below
    cppdrv.first_bad_command(binary, cmds)        # bisect a crashing command list -> the replay line

Driver commands (one per stdin line; the driver answers one line each; `-` is the empty buffer;
parameters are decimal integers (enum parameters by numeric value) between struct name and buffer):

    OBS  <Struct> <params…> <hex>         view over an exact-size heap copy (MakeFooView)
    OBSA <Struct> <params…> <hex>         same through MakeAlignedFooView<…, 8> (typed-load code path)
    WR   <Struct> <params…> <field.path> <value|MAX|MIN> <hex>   -> "WR c<could> t<try> <hex'>" | "WR unwritable"
    EQ   <Struct> <params…> <hexA> <hexB> -> "EQ a<ok> b<ok> e<a.Equals(b)> r<b.Equals(a)> u<UncheckedEquals>"
                                             (Equals only when both Ok, else e- r- u-)
    CP   <Struct> <params…> <hexSrc> <hexDst>  -> "CP t<TryToCopyFrom> <hexDst'> <hexSrc'>"
    CPO  <Struct> <params…> <hexArena> <srcOff> <srcLen> <dstOff> <dstLen> -> "CP t<..> <hexArena'>"
    TXT  <Struct> <params…> <opts> <hex>  -> "TXT o<ok> w<written> <hexText|-> u<0|1|-> <hexZeroed'>"
              opts = base (2|d|x) then flags g (digit grouping) m (multiline, indent) c (comments)
              p (allow_partial_output).  WriteToString runs iff the view is Ok or p is given (the
              checked API: "text output with partial output allowed"); the produced text is then fed
              to UpdateFromText on a zeroed buffer of the same size.
    UPD  <Struct> <params…> <hexBuf> <hexText> -> "UPD u<0|1> <hexBuf'>"   UpdateFromText(arbitrary text)
    anything else -> "bad-op"

OBS output grammar (space separated tokens):
    struct := "{" o<0|1> c<0|1> k<0|1> s<size|-> { <field>=<U|T|F> <obs> }* "}"
    leaf   := "(" o<0|1> [c<0|1>] [v<value>] ")"      value printed iff present ∧ Ok
    array  := "[" o<0|1> c<0|1> n<count> e<at(count).Ok> <obs>* "]"
`parse_obs` returns {"k": "struct", "ok","complete","size_known","size", "fields": [(name, has, obs)]},
{"k": "leaf", "ok","complete"(or None),"value"(or None)}, {"k": "array","ok","complete","count","elems"}.

Everything is built with harness/lib/cppbuild.py: ASan+UBSan, EMBOSS_CHECK/DCHECK live and
distinguishable, include path = common.REPO.
"""
import json
import os
import re

from harness.lib import common, cppbuild, emb

PRELUDE_SCALARS = ("UInt", "Int", "Bcd", "Flag", "Float")


class StructInfo:
    def __init__(self):
        self.path = []          # ["Foo", "Bar"]
        self.unit = 8
        self.params = []        # [(name, "int"|"bool"|"enum", cpp type)]
        self.fields = []        # [(emboss name, cpp accessor name, anonymous)]
        self.type_ir = None

    @property
    def name(self):
        return ".".join(self.path)


class Prepared:
    def __init__(self):
        self.ok = False
        self.text = ""
        self.errors = []
        self.exception = None
        self.ir_obj = None
        self.ir = None
        self.header = None
        self.structs = {}
        self.namespace = ["emboss_generated_code"]
        self.source = None


_DOLLAR = {"$size_in_bits": "IntrinsicSizeInBits", "$size_in_bytes": "IntrinsicSizeInBytes",
           "$max_size_in_bits": "MaxSizeInBits", "$min_size_in_bits": "MinSizeInBits",
           "$max_size_in_bytes": "MaxSizeInBytes", "$min_size_in_bytes": "MinSizeInBytes"}


def _cpp_int_type(lo, hi):
    for size in (32, 64):
        if lo >= -(2 ** (size - 1)) and hi <= 2 ** (size - 1) - 1:
            return "::std::int%d_t" % size
        if lo >= 0 and hi <= 2 ** size - 1:
            return "::std::uint%d_t" % size
    return None


def prepare(text, main="m.emb", extra_files=None):
    """Compile `text` with the real front end and the real header generator."""
    p = Prepared()
    p.text = text
    files = {main: text}
    files.update(extra_files or {})
    ir, errors, exc = emb.compile_text(files, main=main)
    p.exception = exc
    p.errors = emb.error_summary(errors) if errors else []
    if exc is not None or errors or ir is None:
        return p
    try:
        header, herr = emb.generate_header(ir)
    except Exception as e:  # noqa: BLE001
        p.exception = e
        return p
    if herr:
        p.errors = emb.error_summary(herr)
        return p
    p.ir_obj = ir
    p.ir = emb.ir_to_dict(ir)
    p.header = header
    mod = p.ir["module"][0]
    for a in mod.get("attribute", []):
        if a.get("name", {}).get("text") == "namespace" and a.get("back_end", {}).get("text") == "cpp":
            ns = a["value"]["string_constant"]["text"]
            p.namespace = [c for c in re.split(r"\s*::\s*", ns.strip()) if c]
    p.main = main

    def walk(types):
        for t in types:
            if "structure" in t:
                si = StructInfo()
                si.path = list(t["name"]["canonical_name"]["object_path"])
                si.unit = int(t.get("addressable_unit", 8))
                si.type_ir = t
                for rp in t.get("runtime_parameter", []):
                    ty = rp["type"]
                    nm = rp["name"]["name"]["text"]
                    if "integer" in ty:
                        si.params.append((nm, "int", _cpp_int_type(int(ty["integer"]["minimum_value"]),
                                                                     int(ty["integer"]["maximum_value"]))))
                    elif "enumeration" in ty:
                        cn = ty["enumeration"]["name"]["canonical_name"]
                        si.params.append((nm, "enum", _qualified(p, cn)))
                    else:
                        si.params.append((nm, "bool", "bool"))
                for f in t["structure"].get("field", []):
                    nm = f["name"]["name"]["text"]
                    anon = bool(f["name"].get("is_anonymous"))
                    si.fields.append((nm, _DOLLAR.get(nm, nm), anon))
                p.structs[si.name] = si
            walk(t.get("subtype", []))
    walk(mod.get("type", []))
    p.ok = True
    return p


def _qualified(p, canonical_name):
    # only names of the main module / default namespace are needed by the driver
    return "::" + "::".join(p.namespace + list(canonical_name["object_path"]))


_COMMON = r"""
#include <cstdint>
#include <cstring>
#include <iostream>
#include <limits>
#include <sstream>
#include <string>
#include <type_traits>
#include <vector>

typedef std::ostringstream Out;

static bool ParseHex(const std::string &h, std::vector<unsigned char> *out) {
  out->clear();
  if (h == "-") return true;
  if (h.size() % 2) return false;
  for (size_t i = 0; i < h.size(); i += 2) {
    int v = 0;
    for (int j = 0; j < 2; ++j) {
      char c = h[i + j];
      int d = (c >= '0' && c <= '9') ? c - '0' : (c >= 'a' && c <= 'f') ? c - 'a' + 10 : -1;
      if (d < 0) return false;
      v = v * 16 + d;
    }
    out->push_back(static_cast<unsigned char>(v));
  }
  return true;
}
static std::string Hex(const unsigned char *p, size_t n) {
  if (n == 0) return "-";
  static const char *d = "0123456789abcdef";
  std::string s;
  for (size_t i = 0; i < n; ++i) { s += d[p[i] >> 4]; s += d[p[i] & 15]; }
  return s;
}
// Exact-size heap copy: every out-of-bounds byte is visible to ASan.  A zero-size allocation is
// one accessible byte under ASan, so the empty buffer is the one-past-the-end pointer of a 16-byte
// allocation (16 keeps it aligned for MakeAligned…View): the first byte past every view is redzone.
struct Heap {
  unsigned char *base; unsigned char *p; size_t n;
  explicit Heap(const std::vector<unsigned char> &v)
      : base(new unsigned char[v.size() ? v.size() : 16]), p(v.size() ? base : base + 16), n(v.size()) {
    if (n) memcpy(p, v.data(), n);
  }
  ~Heap() { delete[] base; }
};
template <class T> typename std::enable_if<std::is_same<T, bool>::value>::type PrintVal(Out &o, T x) { o << (x ? 1 : 0); }
template <class T> typename std::enable_if<std::is_enum<T>::value>::type PrintVal(Out &o, T x) {
  typedef typename std::underlying_type<T>::type U;
  if (std::is_signed<U>::value) o << static_cast<long long>(static_cast<U>(x));
  else o << static_cast<unsigned long long>(static_cast<U>(x));
}
template <class T> typename std::enable_if<std::is_integral<T>::value && !std::is_same<T, bool>::value>::type PrintVal(Out &o, T x) {
  if (std::is_signed<T>::value) o << static_cast<long long>(x); else o << static_cast<unsigned long long>(x);
}
template <class T> typename std::enable_if<std::is_floating_point<T>::value>::type PrintVal(Out &o, T x) {
  unsigned long long bits = 0; memcpy(&bits, &x, sizeof x); o << "f" << bits;
}
static bool ParseTextOptions(const std::string &s, ::emboss::TextOutputOptions *out) {
  if (s.empty()) return false;
  ::emboss::TextOutputOptions o;
  if (s[0] == '2') o = o.WithNumericBase(2);
  else if (s[0] == 'd') o = o.WithNumericBase(10);
  else if (s[0] == 'x') o = o.WithNumericBase(16);
  else return false;
  for (size_t i = 1; i < s.size(); ++i) {
    if (s[i] == 'g') o = o.WithDigitGrouping(true);
    else if (s[i] == 'm') o = o.Multiline(true).WithIndent("  ");
    else if (s[i] == 'c') o = o.WithComments(true);
    else if (s[i] == 'p') o = o.WithAllowPartialOutput(true);
    else return false;
  }
  *out = o;
  return true;
}
static char H(const ::emboss::support::Maybe<bool> &m) { return !m.Known() ? 'U' : (m.ValueOrDefault() ? 'T' : 'F'); }

template <class V> auto LeafComplete(const V &v, Out &o, int) -> decltype(v.IsComplete(), void()) { o << " c" << (v.IsComplete() ? 1 : 0); }
template <class V> void LeafComplete(const V &, Out &, long) {}

template <class T, class E = void> struct Parse;
template <class T> struct Parse<T, typename std::enable_if<std::is_same<T, bool>::value>::type> {
  static bool Do(const std::string &s) { return s == "MAX" || (s != "MIN" && s != "0"); } };
template <class T> struct Parse<T, typename std::enable_if<std::is_integral<T>::value && !std::is_same<T, bool>::value>::type> {
  static T Do(const std::string &s) {
    if (s == "MAX") return std::numeric_limits<T>::max();
    if (s == "MIN") return std::numeric_limits<T>::min();
    if (!s.empty() && s[0] == '-') return static_cast<T>(strtoll(s.c_str(), nullptr, 10));
    return static_cast<T>(strtoull(s.c_str(), nullptr, 10)); } };
template <class T> struct Parse<T, typename std::enable_if<std::is_enum<T>::value>::type> {
  static T Do(const std::string &s) { return static_cast<T>(Parse<typename std::underlying_type<T>::type>::Do(s)); } };
template <class T> struct Parse<T, typename std::enable_if<std::is_floating_point<T>::value>::type> {
  static T Do(const std::string &s) { return static_cast<T>(strtod(s.c_str(), nullptr)); } };
template <class V> struct ValT {
  template <class U> static typename U::ValueType f(int);
  template <class U> static bool f(long);
  typedef decltype(f<V>(0)) type;
};
template <class V> auto Wr(V v, const std::string &val, Out &o, int)
    -> decltype(v.TryToWrite(typename ValT<V>::type()), void()) {
  typedef typename ValT<V>::type T;
  T x = Parse<T>::Do(val);
  bool c = v.CouldWriteValue(x);
  bool t = v.TryToWrite(x);
  o << "c" << (c ? 1 : 0) << " t" << (t ? 1 : 0);
}
template <class V> void Wr(V, const std::string &, Out &o, long) { o << "unwritable"; }
"""


def equals_uninstantiable(p):
    """Struct types whose Equals()/UncheckedEquals() cannot be instantiated on the pinned tree:
    a runtime parameter makes the generated Equals call `param().Equals(..)` on a
    MaybeConstantView, which has no such member (finding C20 `compile:equals-on-parameterized-struct`);
    the defect propagates to every struct with a (possibly array-of) field of such a type."""
    tainted = set(n for n, si in p.structs.items() if si.params)

    def refs(ty):
        if "array_type" in ty:
            return refs(ty["array_type"]["base_type"])
        if "atomic_type" in ty:
            return [".".join(ty["atomic_type"]["reference"]["canonical_name"]["object_path"])]
        return []
    changed = True
    while changed:
        changed = False
        for n, si in p.structs.items():
            if n in tainted:
                continue
            for f in si.type_ir["structure"].get("field", []):
                if "type" in f and any(x in tainted for x in refs(f["type"])):
                    tainted.add(n)
                    changed = True
                    break
    return tainted


ALL_FEATURES = ("obs", "obsa", "wr", "eq", "cp", "txt")
DEFAULT_FEATURES = ("obs", "wr", "eq", "cp")


def driver_source(p, features=DEFAULT_FEATURES, eq_params_ok=False):
    """C++ source of the driver.  `features` selects the commands compiled in (each extra
    storage type costs compile time: "obsa" instantiates every view a second time).
    `eq_params_ok`: compile EQ also for structs with runtime parameters (does not compile on
    the pinned tree; see equals_uninstantiable)."""
    ns = "::" + "::".join(p.namespace)
    no_eq = set() if eq_params_ok else equals_uninstantiable(p)
    out = [cppbuild.CHECK_PRELUDE, '#include "%s.h"\n' % p.main, _COMMON]
    structs = list(p.structs.values())

    def generic(si):
        return "%s::Generic%sView" % ("::".join([ns] + si.path[:-1]), si.path[-1])

    # forward declarations so that ordinary lookup finds every overload
    out.append("template <class V> void Obs(const V &v, Out &o, bool present);\n")
    out.append("template <class E, class B, ::std::size_t N, ::std::size_t U, class... P>\n"
               "void Obs(const ::emboss::support::GenericArrayView<E, B, N, U, P...> &v, Out &o, bool present);\n")
    out.append("template <class V> void WrIn(const V &v, const std::string &path, const std::string &val, Out &o);\n")
    for si in structs:
        out.append("template <class S> void Obs(const %s<S> &v, Out &o, bool present);\n" % generic(si))
        out.append("template <class S> void WrIn(const %s<S> &v, const std::string &path, "
                   "const std::string &val, Out &o);\n" % generic(si))
    out.append(r"""
template <class V> void Obs(const V &v, Out &o, bool present) {
  const bool ok = v.Ok();
  o << "( o" << (ok ? 1 : 0);
  LeafComplete(v, o, 0);
  if (ok && present) { o << " v"; PrintVal(o, v.Read()); }
  o << " )";
}
// GenericArrayView::at() cannot be instantiated for arrays inside `bits` on the pinned tree
// (OffsetBitBlock has no nullptr constructor; side finding reported to C07): only byte arrays.
template <class A> bool AtEndOk(const A &v, ::std::size_t n, std::integral_constant< ::std::size_t, 8>) { return v.at(n).Ok(); }
template <class A, ::std::size_t U> bool AtEndOk(const A &, ::std::size_t, std::integral_constant< ::std::size_t, U>) { return false; }
template <class E, class B, ::std::size_t N, ::std::size_t U, class... P>
void Obs(const ::emboss::support::GenericArrayView<E, B, N, U, P...> &v, Out &o, bool) {
  const ::std::size_t n = v.ElementCount();
  o << "[ o" << (v.Ok() ? 1 : 0) << " c" << (v.IsComplete() ? 1 : 0) << " n" << n
    << " e" << (AtEndOk(v, n, std::integral_constant< ::std::size_t, U>()) ? 1 : 0);
  for (::std::size_t i = 0; i < n; ++i) { o << " "; Obs(v[i], o, true); }
  o << " ]";
}
template <class V> void WrIn(const V &v, const std::string &path, const std::string &val, Out &o) {
  if (path.empty()) Wr(v, val, o, 0); else o << "nopath";
}
""")
    for si in structs:
        units = "Bits" if si.unit == 1 else "Bytes"
        body = ["template <class S> void Obs(const %s<S> &v, Out &o, bool) {" % generic(si),
                "  const bool sk = v.SizeIsKnown();",
                '  o << "{ o" << (v.Ok() ? 1 : 0) << " c" << (v.IsComplete() ? 1 : 0) << " k" << (sk ? 1 : 0) << " s";',
                '  if (sk) o << static_cast<unsigned long long>(v.SizeIn%s()); else o << "-";' % units]
        for nm, acc, anon in si.fields:
            if anon:
                continue
            body.append('  { const auto h = v.has_%s(); o << " %s=" << H(h) << " "; '
                        "Obs(v.%s(), o, h.ValueOr(false)); }" % (acc, nm, acc))
        body.append('  o << " }";\n}\n')
        out.append("\n".join(body))
        w = ["template <class S> void WrIn(const %s<S> &v, const std::string &path, "
             "const std::string &val, Out &o) {" % generic(si),
             "  const ::std::size_t dot = path.find('.');",
             "  const std::string head = path.substr(0, dot);",
             "  const std::string rest = dot == std::string::npos ? std::string() : path.substr(dot + 1);"]
        for nm, acc, anon in si.fields:
            if anon or nm.startswith("$"):
                continue
            w.append('  if (head == "%s") { WrIn(v.%s(), rest, val, o); return; }' % (nm, acc))
        w.append('  o << "nopath";\n}\n')
        out.append("\n".join(w))

    # command dispatch
    out.append(r"""
static std::vector<std::string> Split(const std::string &s) {
  std::vector<std::string> t; std::istringstream is(s); std::string w;
  while (is >> w) t.push_back(w);
  return t;
}
""")
    disp = ["static std::string Handle(const std::string &line) {",
            "  const std::vector<std::string> t = Split(line);",
            '  if (t.size() < 3) return "bad-op";',
            "  const std::string &op = t[0];",
            "  Out o;"]
    HEX = '      std::vector<unsigned char> %s; if (!ParseHex(t[%d], &%s)) return "bad-op";'
    for si in structs:
        if si.unit != 8:
            continue
        np = len(si.params)
        make_ns = "::".join([ns] + si.path[:-1])
        args = "".join("Parse<%s>::Do(t[%d]), " % (cty, 2 + i) for i, (_n, _k, cty) in enumerate(si.params))
        mk = "%s::Make%sView(%s%%s, %%s)" % (make_ns, si.path[-1], args)
        mka = "%s::MakeAligned%sView<unsigned char, 8>(%s%%s, %%s)" % (make_ns, si.path[-1], args)
        b = 2 + np
        disp.append('  if (t[1] == "%s") {' % si.name)
        for opname, maker, feat in (("OBS", mk, "obs"), ("OBSA", mka, "obsa")):
            if feat not in features:
                continue
            disp += ['    if (op == "%s") {' % opname,
                     '      if (t.size() != %d) return "bad-op";' % (b + 1),
                     HEX % ("raw", b, "raw"),
                     "      Heap h(raw);",
                     "      const auto v = %s; Obs(v, o, true);" % (maker % ("h.p", "h.n")),
                     "      return o.str();",
                     "    }"]
        if "wr" in features:
            disp += ['    if (op == "WR") {',
                     '      if (t.size() != %d) return "bad-op";' % (b + 3),
                     HEX % ("raw", b + 2, "raw"),
                     "      Heap h(raw);",
                     "      const auto v = %s;" % (mk % ("h.p", "h.n")),
                     '      o << "WR "; WrIn(v, t[%d], t[%d], o); o << " " << Hex(h.p, h.n);' % (b, b + 1),
                     "      return o.str();",
                     "    }"]
        if "txt" in features:
            disp += ['    if (op == "TXT") {',
                     '      if (t.size() != %d) return "bad-op";' % (b + 2),
                     HEX % ("raw", b + 1, "raw"),
                     "      ::emboss::TextOutputOptions topt;",
                     "      if (!ParseTextOptions(t[%d], &topt)) return \"bad-op\";" % b,
                     "      Heap h(raw);",
                     "      const auto v = %s;" % (mk % ("h.p", "h.n")),
                     "      const bool ok = v.Ok();",
                     '      o << "TXT o" << (ok ? 1 : 0);',
                     "      if (ok || topt.allow_partial_output()) {",
                     "        const std::string text = ::emboss::WriteToString(v, topt);",
                     '        o << " w1 " << Hex(reinterpret_cast<const unsigned char *>(text.data()), text.size());',
                     "        std::vector<unsigned char> zero(raw.size(), 0);",
                     "        Heap hz(zero);",
                     "        const auto vz = %s;" % (mk % ("hz.p", "hz.n")),
                     "        const bool u = ::emboss::UpdateFromText(vz, text);",
                     '        o << " u" << (u ? 1 : 0) << " " << Hex(hz.p, hz.n);',
                     "      } else {",
                     '        o << " w0 - u- -";',
                     "      }",
                     "      return o.str();",
                     "    }",
                     '    if (op == "UPD") {',
                     '      if (t.size() != %d) return "bad-op";' % (b + 2),
                     HEX % ("raw", b, "raw"), HEX % ("txt", b + 1, "txt"),
                     "      Heap h(raw);",
                     "      const auto v = %s;" % (mk % ("h.p", "h.n")),
                     "      const std::string text(txt.begin(), txt.end());",
                     "      const bool u = ::emboss::UpdateFromText(v, text);",
                     '      o << "UPD u" << (u ? 1 : 0) << " " << Hex(h.p, h.n);',
                     "      return o.str();",
                     "    }"]
        if "eq" in features:
            disp += ['    if (op == "EQ") {',
                     '      if (t.size() != %d) return "bad-op";' % (b + 2),
                     HEX % ("ra", b, "ra"), HEX % ("rb", b + 1, "rb"),
                     "      Heap ha(ra), hb(rb);",
                     "      const auto va = %s;" % (mk % ("ha.p", "ha.n")),
                     "      const auto vb = %s;" % (mk % ("hb.p", "hb.n")),
                     "      const bool oa = va.Ok(), ob = vb.Ok();",
                     '      o << "EQ a" << (oa ? 1 : 0) << " b" << (ob ? 1 : 0);']
            if si.name in no_eq:
                disp.append('      o << " uninstantiable";')
            else:
                disp += ['      if (oa && ob) o << " e" << (va.Equals(vb) ? 1 : 0) << " r" << (vb.Equals(va) ? 1 : 0)'
                         ' << " u" << (va.UncheckedEquals(vb) ? 1 : 0);',
                         '      else o << " e- r- u-";']
            disp += ["      return o.str();", "    }"]
        if "cp" in features:
            disp += ['    if (op == "CP") {',
                     '      if (t.size() != %d) return "bad-op";' % (b + 2),
                     HEX % ("ra", b, "ra"), HEX % ("rb", b + 1, "rb"),
                     "      Heap ha(ra), hb(rb);",
                     "      const auto vs = %s;" % (mk % ("ha.p", "ha.n")),
                     "      const auto vd = %s;" % (mk % ("hb.p", "hb.n")),
                     "      const bool ok = vd.TryToCopyFrom(vs);",
                     '      o << "CP t" << (ok ? 1 : 0) << " " << Hex(hb.p, hb.n) << " " << Hex(ha.p, ha.n);',
                     "      return o.str();",
                     "    }",
                     '    if (op == "CPO") {',
                     '      if (t.size() != %d) return "bad-op";' % (b + 5),
                     HEX % ("ra", b, "ra"),
                     "      const size_t so = strtoull(t[%d].c_str(), nullptr, 10), sl = strtoull(t[%d].c_str(), nullptr, 10),"
                     " d0 = strtoull(t[%d].c_str(), nullptr, 10), dl = strtoull(t[%d].c_str(), nullptr, 10);" %
                     (b + 1, b + 2, b + 3, b + 4),
                     '      if (so + sl > ra.size() || d0 + dl > ra.size()) return "bad-op";',
                     "      Heap h(ra);",
                     "      const auto vs = %s;" % (mk % ("h.p + so", "sl")),
                     "      const auto vd = %s;" % (mk % ("h.p + d0", "dl")),
                     "      const bool ok = vd.TryToCopyFrom(vs);",
                     '      o << "CP t" << (ok ? 1 : 0) << " " << Hex(h.p, h.n);',
                     "      return o.str();",
                     "    }"]
        disp.append('    return "bad-op";')
        disp.append("  }")
    disp.append('  return "bad-op";\n}\n')
    out.append("\n".join(disp))
    out.append(r"""
int main() {
  std::ios::sync_with_stdio(false);
  std::string line;
  while (std::getline(std::cin, line)) {
    std::cout << Handle(line) << "\n";
    std::cout.flush();
  }
  return 0;
}
""")
    return "".join(out)


def build(prepared, std="c++14", compiler="g++", defines=(), opt="-O0", workers=None,
          features=DEFAULT_FEATURES, eq_params_ok=False):
    """Compile the drivers of several prepared modules in parallel.  Returns [(binary|None, log)]."""
    jobs = []
    for i, p in enumerate(prepared):
        p.source = driver_source(p, features, eq_params_ok)
        d = os.path.join(common.scratch(), "hdr%d_%s" % (i, common.hashlib.sha256(p.header.encode()).hexdigest()[:12]))
        os.makedirs(d, exist_ok=True)
        with open(os.path.join(d, p.main + ".h"), "w") as f:
            f.write(p.header)
        jobs.append(dict(src_text=p.source, name="drv%d" % i, std=std, compiler=compiler, defines=tuple(defines),
                         opt=opt, extra=("-I" + d,)))
    return cppbuild.compile_many(jobs, workers=workers)


def ask(binary, lines, timeout=300):
    """Run the driver on a command list.  Returns (RunResult, answered lines)."""
    rr = cppbuild.run(binary, "\n".join(lines) + "\n", timeout=timeout)
    out = rr.out.split("\n")
    if out and out[-1] == "":
        out.pop()
    return rr, out


def first_bad_command(binary, lines):
    """The driver answers line by line (flushes), so the first unanswered command is the one
    that crashed.  Returns (command, RunResult of running that command alone) or (None, None)."""
    rr, out = ask(binary, lines)
    if rr.kind == "ok":
        return None, None
    idx = len(out)
    if idx >= len(lines):
        return None, rr
    alone, _ = ask(binary, [lines[idx]])
    return lines[idx], (alone if alone.kind != "ok" else rr)


# ------------------------------------------------------------------------ parsing
def parse_obs(line):
    toks = line.split()
    pos = [0]

    def flag(t, c):
        if not t.startswith(c):
            raise ValueError("expected %s.. got %r in %r" % (c, t, line))
        return t[len(c):]

    def obs():
        t = toks[pos[0]]
        pos[0] += 1
        if t == "{":
            d = {"k": "struct"}
            d["ok"] = flag(toks[pos[0]], "o") == "1"
            d["complete"] = flag(toks[pos[0] + 1], "c") == "1"
            d["size_known"] = flag(toks[pos[0] + 2], "k") == "1"
            s = flag(toks[pos[0] + 3], "s")
            d["size"] = None if s == "-" else int(s)
            pos[0] += 4
            d["fields"] = []
            while toks[pos[0]] != "}":
                nm, has = toks[pos[0]].rsplit("=", 1)
                pos[0] += 1
                d["fields"].append((nm, has, obs()))
            pos[0] += 1
            return d
        if t == "(":
            d = {"k": "leaf", "complete": None, "value": None}
            d["ok"] = flag(toks[pos[0]], "o") == "1"
            pos[0] += 1
            while toks[pos[0]] != ")":
                u = toks[pos[0]]
                if u.startswith("c"):
                    d["complete"] = u[1:] == "1"
                elif u.startswith("v"):
                    d["value"] = u[1:]
                pos[0] += 1
            pos[0] += 1
            return d
        if t == "[":
            d = {"k": "array"}
            d["ok"] = flag(toks[pos[0]], "o") == "1"
            d["complete"] = flag(toks[pos[0] + 1], "c") == "1"
            d["count"] = int(flag(toks[pos[0] + 2], "n"))
            d["at_end_ok"] = flag(toks[pos[0] + 3], "e") == "1"
            pos[0] += 4
            d["elems"] = []
            while toks[pos[0]] != "]":
                d["elems"].append(obs())
            pos[0] += 1
            return d
        raise ValueError("unexpected token %r in %r" % (t, line))
    r = obs()
    if pos[0] != len(toks):
        raise ValueError("trailing tokens in %r" % line)
    return r


def monotone_violations(small, big, path="", parent_complete=True):
    """Prefix monotonicity on two parsed observations of the same struct (small = over a prefix
    of big's buffer): everything *known* in `small` must be identical in `big`.  Returns a list
    of human-readable differences.  Known = Ok true; IsComplete true; SizeIsKnown (+ size);
    has_f T/F; leaf Ok (+ value); array element count when the enclosing struct is complete."""
    out = []
    if small["k"] != big["k"]:
        return ["%s: shape %s vs %s" % (path, small["k"], big["k"])]
    if small["k"] == "struct":
        for key in ("ok", "complete", "size_known"):
            if small[key] and not big[key]:
                out.append("%s.%s true -> false" % (path, key))
        if small["size_known"] and small["size"] != big["size"]:
            out.append("%s.size %s -> %s" % (path, small["size"], big["size"]))
        for (n1, h1, o1), (n2, h2, o2) in zip(small["fields"], big["fields"]):
            if h1 != "U" and h1 != h2:
                out.append("%s.has_%s %s -> %s" % (path, n1, h1, h2))
            out.extend(monotone_violations(o1, o2, path + "." + n1, small["complete"]))
    elif small["k"] == "leaf":
        if small["ok"] and not big["ok"]:
            out.append("%s Ok true -> false" % path)
        if small["value"] is not None and small["value"] != big["value"]:
            out.append("%s value %s -> %s" % (path, small["value"], big["value"]))
        if small["complete"] and not big["complete"]:
            out.append("%s IsComplete true -> false" % path)
    else:
        if parent_complete and small["count"] != big["count"]:
            out.append("%s count %d -> %d" % (path, small["count"], big["count"]))
        if small["ok"] and parent_complete and not big["ok"]:
            out.append("%s array Ok true -> false" % path)
        for i, (e1, e2) in enumerate(zip(small["elems"], big["elems"])):
            out.extend(monotone_violations(e1, e2, "%s[%d]" % (path, i), True))
    return out
