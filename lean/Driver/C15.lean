import Emboss.Model.Deps
import Driver.Util
open Emboss.Deps Driver

/-- `f1:d1,d2|f2:|f3:d` → association list. -/
def parseDeps (s : String) : Option (List (Nat × List Nat)) :=
  if s.isEmpty then some []
  else (s.splitOn "|").mapM fun item =>
    match item.splitOn ":" with
    | [f, ds] => do
      let f ← f.toNat?
      let ds ← parseNatList ds
      pure (f, ds)
    | _ => none

def depFnOf (tbl : List (Nat × List Nat)) : DepFn := fun f =>
  match tbl.find? (fun p => p.1 == f) with
  | some p => p.2
  | none => []

def handle (line : String) : String :=
  match line.splitOn " " with
  | ["ORDER", arg] =>
    match arg.splitOn ";" with
    | [ps, fs, ds] =>
      match parseNatList ps, parseNatList fs, parseDeps ds with
      | some ps, some fs, some ds =>
        match orderChecked (depFnOf ds) ps fs with
        | some o => "order " ++ showNatList o
        | none => "assert-len"
      | _, _, _ => "bad-op"
    | _ => "bad-op"
  | _ => "bad-op"

def main : IO Unit := run handle
