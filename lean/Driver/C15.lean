import Emboss.Model.Deps
import Emboss.Model.Tarjan
import Driver.Util
open Emboss.Deps Driver

/-- `f1:d1,d2|f2:|f3:d` → association list. -/
def parseDeps (s : String) : Option (List (Nat × List Nat)) :=
  if s.isEmpty then some []
  else (s.splitOn "|").mapM fun item =>
    match item.splitOn ":" with
    | [f, ds] => do
      let f ← f.toNat?
      let ds ← parseNatList ds
      pure (f, ds)
    | _ => none

def depFnOf (tbl : List (Nat × List Nat)) : DepFn := fun f =>
  match tbl.find? (fun p => p.1 == f) with
  | some p => p.2
  | none => []

def showGroups (gs : List (List Nat)) : String :=
  ";".intercalate (gs.map showNatList)

def showGraph (g : Graph) : String :=
  "|".intercalate (g.map fun p => toString p.1 ++ ":" ++ showNatList p.2)

/-- `12/F-T`: target 12 (or `K0`/`K1`/`K2` for a keyword), FieldReference (`F`) or bare
Reference (`R`), in attribute (`A`/`-`), in atomic type (`T`/`-`). -/
def parseOcc (s : String) : Option RefOcc :=
  match s.splitOn "/" with
  | [t, fl] =>
    match fl.toList with
    | [k, a, ty] =>
      if (k != 'F' && k != 'R') || (a != 'A' && a != '-') || (ty != 'T' && ty != '-') then none
      else
        let mk (tg : Option Nat) (kw : Nat) : RefOcc :=
          { target := tg, kw := kw, isFieldRef := k == 'F', inAttr := a == 'A', inAtomic := ty == 'T' }
        match t with
        | "K0" => some (mk none 0)
        | "K1" => some (mk none 1)
        | "K2" => some (mk none 2)
        | _ => t.toNat?.map fun n => mk (some n) 0
    | _ => none
  | _ => none

/-- `name:occ,occ|name:|…` -/
def parseDefs (s : String) : Option (List Defn) :=
  if s.isEmpty then some []
  else (s.splitOn "|").mapM fun item =>
    match item.splitOn ":" with
    | [n, os] => do
      let n ← n.toNat?
      let os ← if os.isEmpty then some [] else (os.splitOn ",").mapM parseOcc
      pure { name := n, refs := os }
    | _ => none

def showDepResult : DepResult → String
  | .keywordErrors es => "keyword-errors " ++ ";".intercalate (es.map fun e => toString e.1 ++ ":" ++ toString e.2)
  | .crash => "crash"
  | .cycles gs => "cycles " ++ showGroups gs

def sortNats (l : List Nat) : List Nat := isort (fun a b => decide (a ≤ b)) l

def handle (line : String) : String :=
  match line.splitOn " " with
  | ["ORDER", arg] =>
    match arg.splitOn ";" with
    | [ps, fs, ds] =>
      match parseNatList ps, parseNatList fs, parseDeps ds with
      | some ps, some fs, some ds =>
        match orderChecked (depFnOf ds) ps fs with
        | some o => "order " ++ showNatList o
        | none => "assert-len"
      | _, _, _ => "bad-op"
    | _ => "bad-op"
  | ["CYCLES", arg] =>
    -- `_find_cycles(graph)`: the groups as the error construction orders them
    match parseDeps arg with
    | some g =>
      match findCycles g with
      | .keyError => "key-error"
      | .outOfFuel => "out-of-fuel"
      | .ok comps => "cycles " ++ showGroups (cycleGroups comps)
    | none => "bad-op"
  | ["CYCLESFUEL", fuel, arg] =>
    match fuel.toNat?, parseDeps arg with
    | some fuel, some g =>
      match findCyclesFuel g fuel with
      | .keyError => "key-error"
      | .outOfFuel => "out-of-fuel"
      | .ok comps => "cycles " ++ showGroups (cycleGroups comps)
    | _, _ => "bad-op"
  | ["RAWCOMPS", arg] =>
    -- components in order of addition, members in pop order (not observable in Python)
    match parseDeps arg with
    | some g =>
      match findCycles g with
      | .keyError => "key-error"
      | .outOfFuel => "out-of-fuel"
      | .ok comps => "comps " ++ showGroups comps
    | none => "bad-op"
  | ["DEPGRAPH", arg] =>
    match parseDefs arg with
    | some defs =>
      let (g, errs) := findDependencies defs
      "graph " ++ showGraph (g.map fun p => (p.1, sortNats p.2)) ++ " errors " ++
        ";".intercalate (errs.map fun e => toString e.1 ++ ":" ++ toString e.2)
    | none => "bad-op"
  | ["DEPCYC", arg] =>
    match parseDefs arg with
    | some defs => showDepResult (findObjectDependencyCycles defs)
    | none => "bad-op"
  | ["IMPORTS", arg] =>
    match parseDeps arg with
    | some ms => showDepResult (findModuleDependencyCycles (ms.map fun p => ⟨p.1, p.2⟩))
    | none => "bad-op"
  | _ => "bad-op"

def main : IO Unit := run handle
