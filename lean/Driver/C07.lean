import Lean.Data.Json
import Emboss.Model.Names
import Emboss.Model.CppInt
import Emboss.Model.StaticAsserts
import Emboss.Model.EnableIfs
import Emboss.Generated.CppReserved
import Driver.Util
open Emboss.Names Emboss.CppInt Driver
open Lean (Json toJson)

/-! Line protocol for C07.

* `CLASS <json struct>` → clashes among the members of `Generic<Name>View`
* `NS <json scope>` → clashes among the declarations of one namespace scope
* `RENDER <int>` → `_render_integer` and what the text denotes
* `EVAL <s|u> <bits> <neg> <mag> <U> <LL> <m1>` → value of a parsed literal
* `DISTINCT <json struct>` → does `_verify_generated_field_names_are_distinct` pass
* `NSV <json string>` → `_verify_namespace_attribute` verdict + `_get_namespace_components`
* `OP <lo>:<hi> …` → front end's mixed-signedness rule and the back end's `IntermediateT`
* `UNIT <0|1>` → `kAddressableUnitSize` of an array in a struct (0) / bits (1), enabled overloads
* `IDENT <json string>` → `EmbossReservedVirtual…View` / `EmbossReservedValidatorFor…` of a field name
-/

def getNames (j : Json) (k : String) : Except String (List Name) := do
  (← (← j.getObjVal? k).getArr?).toList.mapM (fun x => (fun (t : String) => t.toList) <$> x.getStr?)

def getField (j : Json) : Except String Field := do
  let n ← (← j.getObjVal? "name").getStr?
  let o ← (← j.getObjVal? "own_view").getBool?
  let v ← (← j.getObjVal? "validator").getBool?
  let c ← (← j.getObjVal? "constant").getBool?
  pure { name := n.toList, ownView := o, validator := v, constant := c }

def getStruct (j : Json) : Except String Struct := do
  let n ← (← j.getObjVal? "name").getStr?
  let b ← (← j.getObjVal? "is_bits").getBool?
  let ps ← getNames j "params"
  let fs ← (← (← j.getObjVal? "fields").getArr?).toList.mapM getField
  let es ← getNames j "nested_enums"
  let ss ← getNames j "nested_structs"
  let t := match j.getObjVal? "traits" with
    | .ok (Json.bool v) => v
    | _ => true
  pure { name := n.toList, isBits := b, params := ps, fields := fs, nestedEnums := es, nestedStructs := ss, traits := t }

def clashesJson (l : List (Decl × Decl)) : Json :=
  Json.arr (l.map (fun p => Json.arr #[Json.str (String.ofList p.1.ident), Json.str p.1.what, Json.str p.2.what])).toArray

def handleNs (j : Json) : Except String Json := do
  let ss ← getNames j "structs"
  let es ← getNames j "enums"
  let t ← (← j.getObjVal? "traits").getBool?
  let oj ← j.getObjVal? "owner"
  let o ← if oj.isNull then pure none else some <$> getStruct oj
  let xs := match getNames j "externals" with
    | .ok l => l
    | .error _ => []
  pure (clashesJson (clashes (namespaceScope { structs := ss, enums := es, owner := o, traits := t, externals := xs })))

def namesJson (l : List Name) : Json := Json.arr (l.map (fun n => Json.str (String.ofList n))).toArray

def nsvJson (text : String) : Json :=
  match verifyNamespace Emboss.Generated.cppReservedWords text.toList with
  | .ok cs => Json.mkObj [("verdict", "ok"), ("components", namesJson cs)]
  | .empty => Json.mkObj [("verdict", "empty")]
  | .global => Json.mkObj [("verdict", "global")]
  | .invalid => Json.mkObj [("verdict", "invalid")]
  | .reserved ws => Json.mkObj [("verdict", "reserved"), ("words", namesJson ws)]

def parseClause (t : String) : Option (Int × Int) :=
  match t.splitOn ":" with
  | [a, b] => do pure ((← a.toInt?), (← b.toInt?))
  | _ => none

def opAnswer (cl : List (Int × Int)) : String :=
  (if Emboss.StaticAsserts.frontAcceptsOp cl then "accept " else "reject ") ++
  (match Emboss.StaticAsserts.opIntermediate cl with
   | some t => t.toString
   | none => "None")

def bit (s : String) : Option Bool :=
  if s == "1" then some true else if s == "0" then some false else none

def tyOf (s w : String) : Option IntTy := do
  let sg ← if s == "s" then some true else if s == "u" then some false else none
  let b ← w.toNat?
  if b == 0 || b > 64 then none else some ⟨sg, b⟩

def handle (line : String) : String :=
  match line.splitOn " " with
  | "CLASS" :: rest =>
    match Json.parse (" ".intercalate rest) with
    | .error _ => "bad-op"
    | .ok j => match getStruct j with
      | .error _ => "bad-op"
      | .ok st => (clashesJson (clashes (classScope st) ++ (referenceScopes st).flatMap clashes)).compress
  | "NS" :: rest =>
    match Json.parse (" ".intercalate rest) with
    | .error _ => "bad-op"
    | .ok j => match handleNs j with
      | .error _ => "bad-op"
      | .ok r => r.compress
  | "DISTINCT" :: rest =>
    match Json.parse (" ".intercalate rest) with
    | .error _ => "bad-op"
    | .ok j => match getStruct j with
      | .error _ => "bad-op"
      | .ok st => toString (fieldNamesDistinct st.fields)
  | "NSV" :: rest =>
    match Json.parse (" ".intercalate rest) with
    | .ok (Json.str t) => (nsvJson t).compress
    | _ => "bad-op"
  | "OP" :: rest =>
    match rest.mapM parseClause with
    | some cl => if cl.isEmpty then "bad-op" else opAnswer cl
    | none => "bad-op"
  | ["UNIT", b] =>
    match bit b with
    | some isBits =>
      let u := Emboss.EnableIfs.arrayUnit isBits
      toString u ++ " " ++ toString (Emboss.EnableIfs.sizeOverloads u).1 ++ " " ++ toString (Emboss.EnableIfs.sizeOverloads u).2
    | none => "bad-op"
  | "IDENT" :: rest =>
    match Json.parse (" ".intercalate rest) with
    | .ok (Json.str n) =>
      (Json.arr #[(match virtualViewName n.toList with
                   | some v => Json.str (String.ofList v)
                   | none => Json.null),
                  Json.str (String.ofList (validatorName n.toList)),
                  (match cppFieldName n.toList with
                   | some v => Json.str (String.ofList v)
                   | none => Json.null)]).compress
    | _ => "bad-op"
  | ["RENDER", v] =>
    match v.toInt? with
    | none => "bad-op"
    | some v => match renderInteger v with
      | none => "assert"
      | some r => r.toString ++ " = " ++ (match evalRendered r with
        | some x => toString x
        | none => "ill-formed")
  | ["EVAL", s, w, neg, mag, u, ll, m1] =>
    match tyOf s w, bit neg, mag.toNat?, bit u, bit ll, bit m1 with
    | some ty, some neg, some mag, some u, some ll, some m1 =>
      match evalRendered ⟨ty, neg, mag, u, ll, m1⟩ with
      | some x => toString x
      | none => "ill-formed"
    | _, _, _, _, _, _ => "bad-op"
  | _ => "bad-op"

def main : IO Unit := run handle
