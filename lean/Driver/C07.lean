import Lean.Data.Json
import Emboss.Model.Names
import Emboss.Model.CppInt
import Driver.Util
open Emboss.Names Emboss.CppInt Driver
open Lean (Json toJson)

/-! Line protocol for C07.

* `CLASS <json struct>` → clashes among the members of `Generic<Name>View`
* `NS <json scope>` → clashes among the declarations of one namespace scope
* `RENDER <int>` → `_render_integer` and what the text denotes
* `EVAL <s|u> <bits> <neg> <mag> <U> <LL> <m1>` → value of a parsed literal
* `IDENT <json string>` → `EmbossReservedVirtual…View` / `EmbossReservedValidatorFor…` of a field name
-/

def getNames (j : Json) (k : String) : Except String (List Name) := do
  (← (← j.getObjVal? k).getArr?).toList.mapM (fun x => (fun (t : String) => t.toList) <$> x.getStr?)

def getField (j : Json) : Except String Field := do
  let n ← (← j.getObjVal? "name").getStr?
  let o ← (← j.getObjVal? "own_view").getBool?
  let v ← (← j.getObjVal? "validator").getBool?
  let c ← (← j.getObjVal? "constant").getBool?
  pure { name := n.toList, ownView := o, validator := v, constant := c }

def getStruct (j : Json) : Except String Struct := do
  let n ← (← j.getObjVal? "name").getStr?
  let b ← (← j.getObjVal? "is_bits").getBool?
  let ps ← getNames j "params"
  let fs ← (← (← j.getObjVal? "fields").getArr?).toList.mapM getField
  let es ← getNames j "nested_enums"
  let ss ← getNames j "nested_structs"
  pure { name := n.toList, isBits := b, params := ps, fields := fs, nestedEnums := es, nestedStructs := ss }

def clashesJson (l : List (Decl × Decl)) : Json :=
  Json.arr (l.map (fun p => Json.arr #[Json.str (String.ofList p.1.ident), Json.str p.1.what, Json.str p.2.what])).toArray

def handleNs (j : Json) : Except String Json := do
  let ss ← getNames j "structs"
  let es ← getNames j "enums"
  let t ← (← j.getObjVal? "traits").getBool?
  let oj ← j.getObjVal? "owner"
  let o ← if oj.isNull then pure none else some <$> getStruct oj
  pure (clashesJson (clashes (namespaceScope { structs := ss, enums := es, owner := o, traits := t })))

def bit (s : String) : Option Bool :=
  if s == "1" then some true else if s == "0" then some false else none

def tyOf (s w : String) : Option IntTy := do
  let sg ← if s == "s" then some true else if s == "u" then some false else none
  let b ← w.toNat?
  if b == 0 || b > 64 then none else some ⟨sg, b⟩

def handle (line : String) : String :=
  match line.splitOn " " with
  | "CLASS" :: rest =>
    match Json.parse (" ".intercalate rest) with
    | .error _ => "bad-op"
    | .ok j => match getStruct j with
      | .error _ => "bad-op"
      | .ok st => (clashesJson (clashes (classScope st) ++ clashes (referenceScope st))).compress
  | "NS" :: rest =>
    match Json.parse (" ".intercalate rest) with
    | .error _ => "bad-op"
    | .ok j => match handleNs j with
      | .error _ => "bad-op"
      | .ok r => r.compress
  | "IDENT" :: rest =>
    match Json.parse (" ".intercalate rest) with
    | .ok (Json.str n) =>
      (Json.arr #[(match virtualViewName n.toList with
                   | some v => Json.str (String.ofList v)
                   | none => Json.null),
                  Json.str (String.ofList (validatorName n.toList)),
                  (match cppFieldName n.toList with
                   | some v => Json.str (String.ofList v)
                   | none => Json.null)]).compress
    | _ => "bad-op"
  | ["RENDER", v] =>
    match v.toInt? with
    | none => "bad-op"
    | some v => match renderInteger v with
      | none => "assert"
      | some r => r.toString ++ " = " ++ (match evalRendered r with
        | some x => toString x
        | none => "ill-formed")
  | ["EVAL", s, w, neg, mag, u, ll, m1] =>
    match tyOf s w, bit neg, mag.toNat?, bit u, bit ll, bit m1 with
    | some ty, some neg, some mag, some u, some ll, some m1 =>
      match evalRendered ⟨ty, neg, mag, u, ll, m1⟩ with
      | some x => toString x
      | none => "ill-formed"
    | _, _, _, _, _, _ => "bad-op"
  | _ => "bad-op"

def main : IO Unit := run handle
