import Emboss.Model.Bounds
import Emboss.Model.CppArith
import Driver.Util
open Emboss.Bounds Driver

/-!
Line protocol of `model_c04` — the C++ carrier types of generated arithmetic (C04, layer 1 tie):

  NODE <ty> <ty>…     result type, then the operand types, of one run-time function node
                      -> `<IntermediateT>/<ResultT> <ArgT>…`   (`Emboss.Bounds.nodeTypes`, the function
                      `opTypes` applies at every node, and `resultType` for the operands);
                      `none` when the node has no integer clause
  CPPTYPE <lo> <hi>   `cppTypeForRange` (= `_cpp_integer_type_for_range`)
  ty := i:<min>:<max> | b | e          (finite bounds only; anything else is `bad-op`)
-/

namespace Driver.C04

def showCType : Option CType → String
  | some .i32 => "i32" | some .u32 => "u32" | some .i64 => "i64" | some .u64 => "u64"
  | none => "notype"

def parseTy (s : String) : Option AType :=
  match s.splitOn ":" with
  | ["i", a, b] => do
    let a ← a.toInt?; let b ← b.toInt?
    pure (.int ⟨.fin a, .fin b, .fin 1, .fin 0⟩)
  | ["b"] => some (.bool none)
  | ["e"] => some (.enum none)
  | _ => none

def showArg (t : AType) : String :=
  match t with
  | .int _ => (match resultType t with | some r => showCType r | none => "stuck")
  | .bool _ => "bool"
  | .enum _ => "enum"

def handle (line : String) : String :=
  match (line.splitOn " ").filter (· ≠ "") with
  | "NODE" :: rest =>
    match rest.mapM parseTy with
    | some (ty :: args) =>
      (match nodeTypes (ty :: args) with
       | [(i, r)] =>
         let rs := match ty with | .int _ => showCType r | _ => showArg ty
         showCType i ++ "/" ++ rs ++ String.join (args.map fun a => " " ++ showArg a)
       | _ => "none")
    | _ => "bad-op"
  | ["CPPTYPE", a, b] =>
    (match a.toInt?, b.toInt? with
     | some a, some b => showCType (cppTypeForRange a b)
     | _, _ => "bad-op")
  | _ => "bad-op"

end Driver.C04

def main : IO Unit := run Driver.C04.handle
