import Emboss.Model.Tok
import Emboss.Generated.TokTable
import Driver.Util
open Emboss.Regex Emboss.Tok Driver

/-
Line protocol of model_c10 (text and symbols travel as '.'-separated hexadecimal code
points; "-" is the empty string):

  TOK <hex>          → ok <tok> <tok> …   with <tok> = <symhex>/<texthex>/<l>:<c>-<l>:<c>
                       | error <msghex> <l>:<c>-<l>:<c> | fuel
  RE <idx> <hex>     → some <n> | none | fuel      (pattern idx of tokTable.pats)
  NPATS              → number of patterns
  SPACES / BREAKS    → all code points < 0x110000 the model treats as \s / line boundary
  SPLIT <hex>        → lines, hex, separated by ' ' (count first)
-/

def hexVal (c : Char) : Option Nat :=
  if '0' ≤ c ∧ c ≤ '9' then some (c.toNat - 48)
  else if 'a' ≤ c ∧ c ≤ 'f' then some (c.toNat - 87)
  else none

def parseHexNat (s : String) : Option Nat :=
  if s.isEmpty then none
  else s.toList.foldl (fun acc c => do let a ← acc; let d ← hexVal c; pure (a * 16 + d)) (some 0)

def parseText (s : String) : Option (List Char) :=
  if s == "-" then some []
  else (s.splitOn ".").mapM fun t => do
    let n ← parseHexNat t
    if h : n.isValidChar then pure (Char.ofNatAux n h) else none

def hexDigits (n : Nat) : String := String.ofList (Nat.toDigits 16 n)

def showText (cs : List Char) : String :=
  if cs.isEmpty then "-" else ".".intercalate (cs.map fun c => hexDigits c.toNat)

def showTok (t : Token) : String :=
  s!"{showText t.sym.toList}/{showText t.text}/{t.sl}:{t.sc}-{t.el}:{t.ec}"

def pats : List Pat := Emboss.Generated.tokTable.pats

def showMRes : MRes → String
  | .fuel => "fuel"
  | .fail => "none"
  | .ok n => s!"some {n}"

def codePointsWhere (p : Nat → Bool) : String :=
  ",".intercalate (((List.range 0x110000).filter p).map toString)

def handle (line : String) : String :=
  match line.splitOn " " with
  | ["TOK", h] =>
    match parseText h with
    | none => "bad-op"
    | some cs =>
      match tokenize pats cs with
      | .fuel => "fuel"
      | .err m a b c d => s!"error {showText m.toList} {a}:{b}-{c}:{d}"
      | .ok ts => " ".intercalate ("ok" :: ts.map showTok)
  | ["RE", i, h] =>
    match i.toNat?, parseText h with
    | some i, some cs =>
      match pats[i]? with
      | some p => showMRes (matchLen p.re cs)
      | none => "bad-op"
    | _, _ => "bad-op"
  | ["NPATS"] => toString pats.length
  | ["SPACES"] => codePointsWhere isSpaceNat
  | ["BREAKS"] => codePointsWhere isLineBreakNat
  | ["SPLIT", h] =>
    match parseText h with
    | none => "bad-op"
    | some cs =>
      let ls := splitLines cs
      " ".intercalate (toString ls.length :: ls.map showText)
  | _ => "bad-op"

def main : IO Unit := run handle
