import Emboss.Model.Pipeline
import Emboss.Model.PipelineDriver
import Driver.Util
open Emboss.Pipeline Driver

/-!
Line protocol of `model_c16` (one op per line, one answer line):

  text      ::= "-" (empty) | code points in decimal joined by "."
  loc       ::= sl,sc,el,ec,syn(0/1)
  msg       ::= file(text),loc,sev(e/w/n),text          (8 comma fields)
  group     ::= "g" (";" msg)*
  groups    ::= "-" | group ("/" group)*
  sources   ::= "-" | file(text) "=" text ("|" …)*

  FORMAT <color 0/1> <sources> <groups>          → ok <text> | crash <name>
  FORMAT0 <color 0/1> <sources> <groups>         → same with the pre-fix (unguarded) lookup
  SPLITLINES <text>                              → lines <text>|<text>…   (or "lines" alone)
  REPR <text>                                    → repr <text>
  PARSEERR <file> <code|none> <toktext> <toksym> <loc|none> <expected texts joined by "/", or "-">
                                                 → msg <loc> <text>
  PROCESS <stop|-> <pass>/<pass>…                pass ::= name ":" stubgroups,  stubgroups ::= "-" | flags ("+" flags)*,
                                                 flags ::= "e" (empty group) | [us]+ (one message each, s = synthetic)
                                                 → ir <names run> | errors <groups as ids> | crash <name>
  QUEUE <fuel> <root> <node>|<node>…             node ::= name ">" imports(comma) | name "!" ; "@" is the empty name
                                                 → done <files> | errors <file> parsed=<files> | fuel
  FINDREAD <dir>=<probe>|…  (or "-")             probe ::= "t:" text | "o:" text | "u:" text | "x:" text(exception name)
                                                 → found <text> | notfound <text>|<text>… | raised <name>
  READERR <color 0/1> <file> <detail>|…  (or "-") → ok <text>   (the unreadable-file group rendered without sources)
  PATH <a> <b>                                   → join <text> dirname <text>
  EMBOSSC <color> <front> <back> <output-path|none> <output-file|none> <input> <mk 0/1><wr 0/1>
                                                 front ::= "E" groups | "I" sources ; back ::= "H" text | "E" groups
                                                 → exit <code> <stderr> <path|none> <content|none> | raised <name>
  FRONTEND <color> <front> <output-file|none> <wr 0/1>      (serialised IR is the text "J")
  CODEGEN <color> <sources> <back> <output-file|none> <wr 0/1>
  TOKLOC <ln> <off> <len>                        → loc
  MERGE <loc>/<loc>…                             → loc <loc> | none | assert
  SPAN <sl> <sc> <el> <ec>                       → loc <loc> | assert      (`SourceLocation((sl, sc), (el, ec))`)
-/

def parseText (s : String) : Option Text :=
  if s == "-" then some []
  else (s.splitOn ".").mapM fun t => do
    let n ← t.toNat?
    if n < 0x110000 then some (Char.ofNat n) else none

def showText (t : Text) : String :=
  if t.isEmpty then "-" else ".".intercalate (t.map fun c => toString c.toNat)

def parseBool01 (s : String) : Option Bool :=
  if s == "0" then some false else if s == "1" then some true else none

def parseLocFields : List String → Option Loc
  | [a, b, c, d, e] => do
    let a ← a.toNat?; let b ← b.toNat?; let c ← c.toNat?; let d ← d.toNat?
    let e ← parseBool01 e
    pure ⟨a, b, c, d, e⟩
  | _ => none

def parseSev (s : String) : Option Severity :=
  if s == "e" then some .error else if s == "w" then some .warning
  else if s == "n" then some .note else none

def parseMsg (s : String) : Option Msg :=
  match s.splitOn "," with
  | [f, a, b, c, d, e, sv, t] => do
    let f ← parseText f
    let l ← parseLocFields [a, b, c, d, e]
    let sv ← parseSev sv
    let t ← parseText t
    pure { file := String.ofList f, loc := l, sev := sv, text := t }
  | _ => none

def parseGroup (s : String) : Option Group :=
  match s.splitOn ";" with
  | "g" :: ms => ms.mapM parseMsg
  | _ => none

def parseGroups (s : String) : Option Errors :=
  if s == "-" then some [] else (s.splitOn "/").mapM parseGroup

def parseSources (s : String) : Option (List (String × Text)) :=
  if s == "-" then some []
  else (s.splitOn "|").mapM fun item =>
    match item.splitOn "=" with
    | [f, t] => do
      let f ← parseText f
      let t ← parseText t
      pure (String.ofList f, t)
    | _ => none

def showCrash : Crash → String
  | .indexError => "IndexError"
  | .emptyGroup => "AssertionError:empty-group"
  | .badStopStep => "AssertionError:bad-stop-step"
  | .lateStopAssert => "AssertionError:late-stop"

def showLoc (l : Loc) : String :=
  s!"{l.sl},{l.sc},{l.el},{l.ec},{if l.synthetic then 1 else 0}"

/-- Stub passes: the state is the list of names of the passes that ran. -/
def parseStubGroups (pi : Nat) (s : String) : Option Errors :=
  if s == "-" then some []
  else
    let gs := s.splitOn "+"
    (gs.zipIdx).mapM fun (g, gi) =>
      if g == "e" then some []
      else (g.toList.zipIdx).mapM fun (c, mi) =>
        let mk (syn : Bool) : Msg :=
          { file := "m", loc := ⟨1, 1, 1, 1, syn⟩, sev := .error,
            text := s!"{pi}.{gi}.{mi}".toList }
        if c == 'u' then some (mk false) else if c == 's' then some (mk true) else none

def parsePass (pi : Nat) (s : String) : Option (Pass (List String)) :=
  match s.splitOn ":" with
  | [name, gs] => do
    let es ← parseStubGroups pi gs
    pure { name := name, run := fun st => (st ++ [name], es) }
  | _ => none

def showGroupIds (es : Errors) : String :=
  "/".intercalate (es.map fun g =>
    if g.isEmpty then "e" else ";".intercalate (g.map fun m => String.ofList m.text))

def nameOf (s : String) : String := if s == "@" then "" else s
def showName (s : String) : String := if s.isEmpty then "@" else s
def showNames (l : List String) : String := ",".intercalate (l.map showName)

def parseNode (s : String) : Option (String × Parsed) :=
  if s.endsWith "!" then
    some (nameOf (s.dropEnd 1).toString,
      { errors := [[{ file := "x", loc := ⟨1, 1, 1, 1, false⟩, sev := .error, text := [] }]],
        imports := [] })
  else
    match s.splitOn ">" with
    | [n, imps] =>
      some (nameOf n, { errors := [],
                        imports := if imps.isEmpty then [] else (imps.splitOn ",").map nameOf })
    | _ => none

def parseProbe (s : String) : Option (Text × Probe) :=
  match s.splitOn "=" with
  | [d, p] => do
    let d ← parseText d
    match p.splitOn ":" with
    | [k, t] => do
      let t ← parseText t
      if k == "t" then pure (d, .text t)
      else if k == "o" then pure (d, .osError t)
      else if k == "u" then pure (d, .unicodeError t)
      else if k == "v" then pure (d, .valueError t)
      else if k == "x" then pure (d, .otherError (String.ofList t))
      else none
    | _ => none
  | _ => none

def parseOptText (s : String) : Option (Option Text) :=
  if s == "none" then some none else (parseText s).map some

def parseFront (s : String) : Option (FrontResult Unit) :=
  if s.startsWith "E" then (parseGroups (s.drop 1).toString).map .errors
  else if s.startsWith "I" then (parseSources (s.drop 1).toString).map (.ir ())
  else none

def parseBack (s : String) : Option (Text × Errors) :=
  if s.startsWith "H" then (parseText (s.drop 1).toString).map fun t => (t, [])
  else if s.startsWith "E" then (parseGroups (s.drop 1).toString).map fun g => ([], g)
  else none

def parseFs (s : String) : Option OutFs :=
  match s.toList with
  | [a, b] => do
    let a ← parseBool01 (String.singleton a)
    let b ← parseBool01 (String.singleton b)
    pure ⟨fun _ => a, fun _ => b⟩
  | _ => none

def showRun : RunResult → String
  | .exit code err w =>
    s!"exit {code} " ++ showText err ++ " " ++
      (match w with | some (p, c) => showText p ++ " " ++ showText c | none => "none none")
  | .raised n => "raised " ++ n

def handle (line : String) : String :=
  match line.splitOn " " with
  | [op, col, srcs, gs] =>
    if op == "FORMAT" || op == "FORMAT0" then
      match parseBool01 col, parseSources srcs, parseGroups gs with
      | some col, some srcs, some gs =>
        if op == "FORMAT" then
          match formatErrors gs srcs col with
          | .ok t => "ok " ++ showText t
          | .error c => "crash " ++ showCrash c
        else
          -- pre-fix behaviour, message by message
          match gs.flatten.mapM (fun m => formatMsgUnguarded m srcs) with
          | .ok ps => "ok " ++ showText (joinLines (ps.map (renderPieces col)))
          | .error c => "crash " ++ showCrash c
      | _, _, _ => "bad-op"
    else if op == "QUEUE" then
      match col.toNat?, (if gs == "-" then some [] else (gs.splitOn "|").mapM parseNode) with
      | some fuel, some nodes =>
        let unreadable : Parsed :=
          { errors := [[{ file := "x", loc := ⟨1, 1, 1, 1, false⟩, sev := .error, text := [] }]],
            imports := [] }
        let find (f : String) : Parsed :=
          match nodes.find? (fun p => p.1 == f) with
          | some p => p.2
          | none => unreadable
        -- the prelude is node "@" if given, else a module without imports
        let prelude : Parsed := match nodes.find? (fun p => p.1 == "") with
          | some p => p.2
          | none => { errors := [], imports := [] }
        -- record which file failed: wrap the parse function
        let parse := parseOne find prelude
        match onlyParse parse fuel (nameOf srcs) with
        | .done fs => "done " ++ showNames fs
        | .errors _ f before => "errors " ++ showName f ++ " parsed=" ++ showNames before
        | .outOfFuel => "fuel"
      | _, _ => "bad-op"
    else if op == "READERR" then
      match parseBool01 col, parseText srcs, (if gs == "-" then some [] else (gs.splitOn "|").mapM parseText) with
      | some col, some f, some ds =>
        match formatErrors [unreadableGroup (String.ofList f) ds] [] col with
        | .ok t => "ok " ++ showText t
        | .error c => "crash " ++ showCrash c
      | _, _, _ => "bad-op"
    else if op == "TOKLOC" then
      match col.toNat?, srcs.toNat?, gs.toNat? with
      | some a, some b, some c => showLoc (tokLoc a b c)
      | _, _, _ => "bad-op"
    else "bad-op"
  | ["SPLITLINES", t] =>
    match parseText t with
    | some t => "lines " ++ "|".intercalate ((pySplitlines t).map showText)
    | none => "bad-op"
  | ["REPR", t] =>
    match parseText t with
    | some t => "repr " ++ showText (pyRepr t)
    | none => "bad-op"
  | ["PARSEERR", f, code, tt, ts, loc, exp] =>
    match parseText f, (if code == "none" then some none else (parseText code).map some),
          parseText tt, parseText ts,
          (if loc == "none" then some none else (parseLocFields (loc.splitOn ",")).map some),
          (if exp == "-" then some [] else (exp.splitOn "/").mapM parseText) with
    | some f, some code, some tt, some ts, some loc, some exp =>
      match makeErrorFromParseError (String.ofList f) code tt ts loc exp with
      | [m] => "msg " ++ showLoc m.loc ++ " " ++ showText m.text
      | _ => "bad-op"
    | _, _, _, _, _, _ => "bad-op"
  | ["PROCESS", stop, ps] =>
    match ((ps.splitOn "/").zipIdx).mapM (fun (p, i) => parsePass i p) with
    | some passes =>
      match processIr passes (if stop == "-" then none else some stop) [] with
      | .ir st => "ir " ++ ",".intercalate st
      | .errors es => "errors " ++ showGroupIds es
      | .crash c => "crash " ++ showCrash c
      | .outOfFuel => "fuel"
    | none => "bad-op"
  | ["FINDREAD", ps] =>
    match (if ps == "-" then some [] else (ps.splitOn "|").mapM parseProbe) with
    | some probes =>
      match findAndRead probes with
      | .found t => "found " ++ showText t
      | .notFound es => "notfound " ++ "|".intercalate (es.map showText)
      | .raised n => "raised " ++ n
    | none => "bad-op"
  | ["PATH", a, b] =>
    match parseText a, parseText b with
    | some a, some b => "join " ++ showText (pathJoin a b) ++ " dirname " ++ showText (dirname (pathJoin a b))
    | _, _ => "bad-op"
  | ["EMBOSSC", col, fr, bk, op, ofile, inp, fsx] =>
    match parseBool01 col, parseFront fr, parseBack bk, parseOptText op, parseOptText ofile, parseText inp,
          parseFs fsx with
    | some col, some fr, some bk, some op, some ofile, some inp, some fs =>
      showRun (embosscMain fr (fun _ => bk) col op ofile inp fs)
    | _, _, _, _, _, _, _ => "bad-op"
  | ["FRONTEND", col, fr, ofile, fsx] =>
    match parseBool01 col, parseFront fr, parseOptText ofile, parseFs ("1" ++ fsx) with
    | some col, some fr, some ofile, some fs => showRun (frontEndMain fr (fun _ => ['J']) col ofile fs)
    | _, _, _, _ => "bad-op"
  | ["CODEGEN", col, srcs, bk, ofile, fsx] =>
    match parseBool01 col, parseSources srcs, parseBack bk, parseOptText ofile, parseFs ("1" ++ fsx) with
    | some col, some srcs, some bk, some ofile, some fs =>
      showRun (codegenMain () srcs (fun _ => bk) col ofile fs)
    | _, _, _, _, _ => "bad-op"
  | ["SPAN", a, b, c, d] =>
    match a.toNat?, b.toNat?, c.toNat?, d.toNat? with
    | some a, some b, some c, some d =>
      match mkLoc (a, b) (c, d) with
      | .ok l => "loc " ++ showLoc l
      | .error _ => "assert"
    | _, _, _, _ => "bad-op"
  | ["MERGE", ls] =>
    match (ls.splitOn "/").mapM (fun x => parseLocFields (x.splitOn ",")) with
    | some ls =>
      match mergeLocs ls with
      | .ok (some l) => "loc " ++ showLoc l
      | .ok none => "none"
      | .error _ => "assert"
    | none => "bad-op"
  | _ => "bad-op"

def main : IO Unit := run handle
